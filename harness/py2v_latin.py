"""Translator plugin: poorwsgi/headers.py, the static methods
Headers.iso88591 and Headers.utf8 (property C14)

        ->  coq/gen/LatinGen.v   (gen_iso88591, gen_utf8)

and the one small member of the class that harness/py2v_headers.py leaves
out and the model has a meaning for, `Headers.__iter__` (-> gen_iter; the
model: "OItems -- items(), also list(h)").  `__repr__` has no counterpart in
model/Headers.v and is not translated.

proved equal to model/Headers.v's `iso88591` / `utf8` (and gen_iso88591 to
the primitive `p_iso88591` that the Headers tie, harness/py2v_headers.py,
still uses) in coq/proofs/LatinGenEq.v; theorems C14_generated_iso88591_* and
C14_generated_utf8_is_model at the bottom of coq/props/C14.v.

Syntax directed and fail closed.  A static method becomes a computation
`pres hv` of coq/lib/PyLatin.v (no object state; exceptions explicit, with
the two UnicodeError subclasses next to the model's exceptions).

Translated from the syntax:
  * statements: `return [e]`, `if/elif/else`, `try/except` (no else /
    finally; clauses in source order, a class or a tuple of classes,
    optionally `as name`), `raise Cls([msg])` optionally `from <the name the
    enclosing except clause binds>`, bare `raise` inside a handler,
    assignment of a new local (single assignment: a name is bound once and is
    visible in the rest of its own block only), `pass`;
  * expressions: parameters and locals, the constants None / True / False /
    int / str, `not e`, `e is None`, `e is not None`, `isinstance(e, C)` /
    `isinstance(e, (C, ...))`, and the four codec calls of the table CODECS:
    `e.encode('utf-8')`, `e.decode('iso-8859-1')`, `e.encode('iso-8859-1')`,
    `e.decode('utf-8')` (exactly one positional str constant, spelled so).
`__iter__` (a method: a computation `M (list hv)` of lib/PyHeaders.v over
the stored list): docstring, then `return iter(e)` with e one of
`self.__headers`, `list(e)`, `tuple(e)`; the iterator is represented by the
items it yields when consumed at once (lib/PyLatin.v p_iterator).
Primitives (trusted, lib/PyLatin.v, defined by model/Headers.v's own codec
functions): the four codec calls.  isinstance / truthy are lib/PyHeaders.v's.

Dropped by name: docstrings, `log.*(...)` statements, and the message of an
exception constructor (only shapes whose evaluation cannot raise for the
values of the model are accepted, see msg_ok); the `from` cause (it sets
__cause__ only).

Parameters are named p1, p2, ...; bound values v1, v2, ... by position: the
generated text does not depend on the spelling of locals, on comments,
docstrings, type hints or log calls.  Anything else raises py2v.Unsupported:
gen/LatinGen.v and the compiled forms of it and of proofs/LatinGenEq.v are
removed, and the C14_generated_iso88591_* / _utf8_* theorems stop compiling.
"""
import ast
import os
import sys

import py2v
from py2v import Unsupported

SOURCE = "poorwsgi/headers.py"
CLASS = "Headers"
OUTFILE = "LatinGen.v"
METHODS = ["iso88591", "utf8"]
ITER = "__iter__"

# ===================================================================== TRUSTED
# Python class name -> constructor of PyHeaders.pyclass
CLASSES = {"str": "Cstr", "bytes": "Cbytes", "int": "Cint", "bool": "Cbool",
           "list": "Clist", "tuple": "Ctuple", "set": "Cset", "dict": "Cdict"}
# exceptions the code may raise -> term of PyLatin.pexn
RAISABLE = {"KeyError": "(PExn KeyError)", "TypeError": "(PExn TypeError)",
            "ValueError": "(PExn ValueError)",
            "AttributeError": "(PExn AttributeError)"}
# classes an except clause may name -> constructor of PyLatin.pexnclass
CATCHABLE = {"BaseException": "PCBaseException", "Exception": "PCException",
             "LookupError": "PCLookupError", "KeyError": "PCKeyError",
             "TypeError": "PCTypeError", "ValueError": "PCValueError",
             "AttributeError": "PCAttributeError",
             "UnicodeError": "PCUnicodeError",
             "UnicodeEncodeError": "PCUnicodeEncodeError",
             "UnicodeDecodeError": "PCUnicodeDecodeError"}
# (method, the one str argument) -> primitive of lib/PyLatin.v
CODECS = {("encode", "utf-8"): "p_encode_utf8",
          ("decode", "iso-8859-1"): "p_decode_latin1",
          ("encode", "iso-8859-1"): "p_encode_latin1",
          ("decode", "utf-8"): "p_decode_utf8"}
BUILTINS = ["isinstance", "type", "staticmethod", "iter"]
# names whose meaning the translation fixes: none of them may be rebound
# anywhere in the module
RESERVED = set(CLASSES) | set(RAISABLE) | set(CATCHABLE) | set(BUILTINS) \
    | {CLASS, "log"}
# =============================================================================


def zlist(text):
    return "[" + "; ".join(str(ord(c)) for c in text) + "]"


def is_docstring(st):
    return isinstance(st, ast.Expr) and isinstance(st.value, ast.Constant) \
        and isinstance(st.value.value, str)


class Fn:
    """state of one function's translation"""
    def __init__(self):
        self.count = 0
        self.retk = None
        self.handler_exn = None     # Coq variable of the exception caught
        self.handler_name = None    # Python name it is bound to (`as name`)
        self.in_try = False

    def fresh(self):
        self.count += 1
        return "v%d" % self.count


class Translator:
    def __init__(self):
        self.defs = []

    def bind(self, fn, term, k):
        var = fn.fresh()
        return "%s <-- %s ;;\n%s" % (var, term, k(var))

    def lookup(self, fn, env, node):
        if node.id == fn.handler_name or node.id not in env:
            raise Unsupported(node, "unknown name / the caught exception")
        return env[node.id]

    # ---------------------------------------------------------- expressions
    def expr(self, fn, env, node, k):
        """code of type pres _; k: Coq term of the value -> rest of the code"""
        if isinstance(node, ast.Constant):
            val = node.value
            if val is None:
                return k("VNone")
            if isinstance(val, bool):
                return k("(VBool %s)" % ("true" if val else "false"))
            if isinstance(val, int):
                return k("(VInt %s)" % py2v.zl(val))
            if isinstance(val, str):
                return k("(VStr %s)" % zlist(val))
            raise Unsupported(node, "constant")
        if isinstance(node, ast.Name) and isinstance(node.ctx, ast.Load):
            return k(self.lookup(fn, env, node))
        if isinstance(node, ast.UnaryOp) and isinstance(node.op, ast.Not):
            return self.expr(fn, env, node.operand, lambda a: self.bind(
                fn, "plift (p_not %s)" % a, k))
        if isinstance(node, ast.Compare):
            if len(node.ops) == 1 and \
                    isinstance(node.ops[0], (ast.Is, ast.IsNot)) and \
                    isinstance(node.comparators[0], ast.Constant) and \
                    node.comparators[0].value is None:
                prim = "p_is_none" if isinstance(node.ops[0], ast.Is) \
                    else "p_is_not_none"
                return self.expr(fn, env, node.left, lambda a: self.bind(
                    fn, "plift (%s %s)" % (prim, a), k))
            raise Unsupported(node, "comparison")
        if isinstance(node, ast.Call):
            return self.call(fn, env, node, k)
        raise Unsupported(node, "expression")

    def call(self, fn, env, node, k):
        func = node.func
        if node.keywords or any(isinstance(a, ast.Starred)
                                for a in node.args):
            raise Unsupported(node, "keyword / star arguments")
        nargs = len(node.args)
        if isinstance(func, ast.Name):
            if func.id in env:
                raise Unsupported(node, "call of a local")
            if func.id == "isinstance" and nargs == 2:
                spec = node.args[1]
                elts = spec.elts if isinstance(spec, ast.Tuple) else [spec]
                classes = []
                for e in elts:
                    if not (isinstance(e, ast.Name) and e.id in CLASSES
                            and e.id not in env):
                        raise Unsupported(e, "class in isinstance")
                    classes.append(CLASSES[e.id])
                return self.expr(fn, env, node.args[0], lambda a: self.bind(
                    fn, "plift (p_isinstance %s [%s])" % (
                        a, "; ".join(classes)), k))
            raise Unsupported(node, "call")
        if isinstance(func, ast.Attribute) and nargs == 1 and \
                isinstance(node.args[0], ast.Constant) and \
                type(node.args[0].value) is str and \
                (func.attr, node.args[0].value) in CODECS:
            prim = CODECS[(func.attr, node.args[0].value)]
            return self.expr(fn, env, func.value, lambda v: self.bind(
                fn, "%s %s" % (prim, v), k))
        raise Unsupported(node, "call")

    # ----------------------------------------------------------- statements
    def block(self, fn, env, stmts, kend):
        """kend: () -> code at fall-through (names bound inside the block are
        not visible afterwards)"""
        if not stmts:
            return kend()
        st, rest = stmts[0], stmts[1:]

        def after(env2=env):
            return self.block(fn, env2, rest, kend)
        if is_docstring(st) or isinstance(st, ast.Pass):
            return after()
        if isinstance(st, ast.Expr) and isinstance(st.value, ast.Call):
            func = st.value.func
            if isinstance(func, ast.Attribute) and \
                    isinstance(func.value, ast.Name) and \
                    func.value.id == "log" and "log" not in env:
                return after()                  # logging: dropped by name
            raise Unsupported(st, "statement call")
        if isinstance(st, ast.Assign):
            if len(st.targets) != 1 or \
                    not isinstance(st.targets[0], ast.Name):
                raise Unsupported(st, "assignment target")
            name = st.targets[0].id
            if name in RESERVED or name in env or name == fn.handler_name:
                raise Unsupported(st, "rebinding of a name")
            # every value is bound to a fresh vN; constants / names are terms
            return self.expr(fn, env, st.value, lambda v: after(
                dict(env, **{name: v})))
        if isinstance(st, ast.Return):
            if st.value is None:
                return fn.retk("VNone")
            return self.expr(fn, env, st.value, fn.retk)
        if isinstance(st, ast.Raise):
            return self.raise_stmt(fn, env, st)
        if isinstance(st, ast.If):
            join = fn.fresh()

            def jump():
                return "%s tt" % join

            def branches(c):
                body = self.block(fn, env, st.body, jump)
                orelse = self.block(fn, env, st.orelse, jump)
                return ("let %s := fun (_ : unit) => (%s) in\n"
                        "if truthy %s then (%s)\nelse (%s)" % (
                            join, after(), c, body, orelse))
            return self.expr(fn, env, st.test, branches)
        if isinstance(st, ast.Try):
            return self.try_stmt(fn, env, st, after)
        raise Unsupported(st, "statement")

    def raise_stmt(self, fn, env, st):
        if st.exc is None:
            if st.cause is not None or fn.handler_exn is None:
                raise Unsupported(st, "bare raise outside a handler")
            return "praise %s" % fn.handler_exn
        if st.cause is not None:
            # `from err` only sets __cause__; err must be the caught exception
            if not (isinstance(st.cause, ast.Name) and fn.handler_name and
                    st.cause.id == fn.handler_name):
                raise Unsupported(st, "raise ... from")
        exc = st.exc
        if isinstance(exc, ast.Call) and isinstance(exc.func, ast.Name) \
                and exc.func.id in RAISABLE and exc.func.id not in env \
                and not exc.keywords and len(exc.args) <= 1:
            for a in exc.args:
                self.msg_ok(env, a)
            return "praise %s" % RAISABLE[exc.func.id]
        raise Unsupported(st, "raise")

    def msg_ok(self, env, node):
        """exception messages are not translated; accept only shapes whose
        evaluation cannot itself raise or have an effect: a str constant,
        `<const>.format(<local> | type(<local>), ...)`, `<const> % <local>`"""
        def simple(n):
            if isinstance(n, ast.Name):
                return n.id in env
            return isinstance(n, ast.Call) and isinstance(n.func, ast.Name) \
                and n.func.id == "type" and "type" not in env and \
                not n.keywords and len(n.args) == 1 and \
                isinstance(n.args[0], ast.Name) and n.args[0].id in env
        if isinstance(node, ast.Constant) and isinstance(node.value, str):
            return
        if isinstance(node, ast.Call) and not node.keywords and \
                isinstance(node.func, ast.Attribute) and \
                node.func.attr == "format" and \
                isinstance(node.func.value, ast.Constant) and \
                isinstance(node.func.value.value, str) and \
                all(simple(a) for a in node.args):
            return
        if isinstance(node, ast.BinOp) and isinstance(node.op, ast.Mod) and \
                isinstance(node.left, ast.Constant) and \
                isinstance(node.left.value, str) and \
                isinstance(node.right, ast.Name) and simple(node.right):
            return
        raise Unsupported(node, "exception message")

    def try_stmt(self, fn, env, st, after):
        if st.orelse or st.finalbody or not st.handlers:
            raise Unsupported(st, "try shape")
        if fn.in_try or fn.handler_exn is not None:
            raise Unsupported(st, "nested try")
        result, rv, exn = fn.fresh(), fn.fresh(), fn.fresh()
        saved = fn.retk
        fn.retk = lambda v: "pret (PReturned %s)" % v

        def fell():
            return "pret PFell"
        try:
            fn.in_try = True
            body = self.block(fn, env, st.body, fell)
            fn.in_try = False
            chain = "praise %s" % exn
            fn.handler_exn = exn
            for h in reversed(st.handlers):
                if h.type is None:
                    raise Unsupported(h, "bare except")
                if h.name is not None and (h.name in env
                                           or h.name in RESERVED):
                    raise Unsupported(h, "name of the caught exception")
                types = h.type.elts if isinstance(h.type, ast.Tuple) \
                    else [h.type]
                tests = []
                for t in types:
                    if not (isinstance(t, ast.Name) and t.id in CATCHABLE
                            and t.id not in env):
                        raise Unsupported(t, "exception class")
                    tests.append("pexn_isa %s %s" % (exn, CATCHABLE[t.id]))
                if not tests:
                    raise Unsupported(h, "empty class tuple")
                fn.handler_name = h.name
                hcode = self.block(fn, env, h.body, fell)
                fn.handler_name = None
                chain = "if %s then (%s)\nelse (%s)" % (
                    " || ".join(tests), hcode, chain)
        finally:
            fn.retk = saved
            fn.in_try = False
            fn.handler_exn = None
            fn.handler_name = None
        return ("%s <-- ptry (%s)\n(fun (%s : pexn) => %s) ;;\n"
                "match %s with\n| PReturned %s => %s\n| PFell => (%s)\nend" % (
                    result, body, exn, chain, result, rv, fn.retk(rv),
                    after()))

    # ------------------------------------------------------------ functions
    def static_method(self, fundef):
        for node in ast.walk(fundef):
            if isinstance(node, (ast.Global, ast.Nonlocal, ast.FunctionDef,
                                 ast.AsyncFunctionDef, ast.ClassDef,
                                 ast.Lambda, ast.Yield, ast.YieldFrom,
                                 ast.Await, ast.NamedExpr, ast.With,
                                 ast.While, ast.For, ast.Import,
                                 ast.ImportFrom, ast.Delete)) \
                    and node is not fundef:
                raise Unsupported(node, "construct")
        a = fundef.args
        if a.posonlyargs or a.vararg or a.kwonlyargs or a.kw_defaults or \
                a.kwarg or a.defaults or not a.args:
            raise Unsupported(fundef, "signature")
        params = [p.arg for p in a.args]
        if len(set(params)) != len(params) or set(params) & RESERVED:
            raise Unsupported(fundef, "parameter names")
        fn = Fn()
        fn.retk = lambda v: "pret %s" % v
        env = {}
        formals = []
        for i, p in enumerate(params):
            env[p] = "p%d" % (i + 1)
            formals.append("(p%d : hv)" % (i + 1))
        code = self.block(fn, env, fundef.body, lambda: "pret VNone")
        self.defs.append("(* %s.%s *)\nDefinition gen_%s %s: pres hv :=\n%s." % (
            CLASS, fundef.name, fundef.name,
            "".join(f + " " for f in formals), code))


    # ----------------------------------------------------------- __iter__
    def mexpr(self, fn, node, k):
        """an expression over the stored list, in the monad M"""
        if isinstance(node, ast.Attribute) and node.attr == "__headers" and \
                isinstance(node.value, ast.Name) and node.value.id == "self" \
                and isinstance(node.ctx, ast.Load):
            var = fn.fresh()
            return "%s <- get_headers ;;\n%s" % (var, k(var))
        if isinstance(node, ast.Call) and isinstance(node.func, ast.Name) \
                and node.func.id in ("list", "tuple") and not node.keywords \
                and len(node.args) == 1 and \
                not isinstance(node.args[0], ast.Starred):
            def conv(a):
                var = fn.fresh()
                return "%s <- mlift (p_%s %s) ;;\n%s" % (
                    var, node.func.id, a, k(var))
            return self.mexpr(fn, node.args[0], conv)
        raise Unsupported(node, "expression")

    def iter_method(self, fundef):
        a = fundef.args
        if fundef.decorator_list or a.posonlyargs or a.vararg or \
                a.kwonlyargs or a.kw_defaults or a.kwarg or a.defaults or \
                [p.arg for p in a.args] != ["self"]:
            raise Unsupported(fundef, "signature / decorator")
        body = [st for st in fundef.body if not is_docstring(st)]
        if len(body) != 1 or not isinstance(body[0], ast.Return):
            raise Unsupported(fundef, "body is not a single return")
        val = body[0].value
        if not (isinstance(val, ast.Call) and isinstance(val.func, ast.Name)
                and val.func.id == "iter" and not val.keywords and
                len(val.args) == 1 and
                not isinstance(val.args[0], ast.Starred)):
            raise Unsupported(body[0], "return value is not iter(e)")
        fn = Fn()

        def done(v):
            var = fn.fresh()
            return "%s <- mlift (p_iterator %s) ;;\nmret %s" % (var, v, var)
        code = self.mexpr(fn, val.args[0], done)
        self.defs.append("(* %s.%s *)\nDefinition gen_iter : M (list hv) "
                         ":=\n%s." % (CLASS, fundef.name, code))


# ------------------------------------------------------------- module checks
def check_module(tree):
    """the names the translation gives a fixed meaning are what it takes
    them for: builtins never rebound anywhere in the module; the class is
    defined once, the methods once in it, as plain static methods"""
    classes = [n for n in tree.body if isinstance(n, ast.ClassDef)
               and n.name == CLASS]
    if len(classes) != 1:
        raise Unsupported(tree, "definitions of class %s" % CLASS)
    cls = classes[0]
    if cls.decorator_list or cls.keywords:
        raise Unsupported(cls, "class decorators / keywords")
    for node in ast.walk(tree):
        if isinstance(node, (ast.Import, ast.ImportFrom)):
            for alias in node.names:
                bound = alias.asname or alias.name.split(".")[0]
                if bound in RESERVED or bound == "*":
                    raise Unsupported(node, "import of %s" % bound)
        elif isinstance(node, (ast.FunctionDef, ast.AsyncFunctionDef,
                               ast.ClassDef)):
            if node.name in RESERVED and node is not cls:
                raise Unsupported(node, "definition of a reserved name")
        elif isinstance(node, ast.Name) and node.id in RESERVED and \
                isinstance(node.ctx, (ast.Store, ast.Del)):
            if not (node.id == "log" and any(
                    isinstance(st, ast.Assign) and node in st.targets
                    for st in tree.body)):
                raise Unsupported(node, "reserved name rebound")
        elif isinstance(node, (ast.Global, ast.Nonlocal)) and \
                set(node.names) & RESERVED:
            raise Unsupported(node, "global / nonlocal")
        elif isinstance(node, ast.arg) and node.arg in RESERVED:
            raise Unsupported(node, "parameter named like a reserved name")
        elif isinstance(node, ast.ExceptHandler) and node.name in RESERVED:
            raise Unsupported(node, "except ... as <reserved name>")
    found = {}
    static = ast.dump(ast.Name(id="staticmethod", ctx=ast.Load()))
    for name in METHODS:
        defs = [n for n in cls.body if isinstance(
            n, (ast.FunctionDef, ast.AsyncFunctionDef)) and n.name == name]
        if len(defs) != 1 or not isinstance(defs[0], ast.FunctionDef) or \
                [ast.dump(d) for d in defs[0].decorator_list] != [static]:
            raise Unsupported(cls, "static method %s" % name)
        found[name] = defs[0]
    defs = [n for n in cls.body if isinstance(
        n, (ast.FunctionDef, ast.AsyncFunctionDef)) and n.name == ITER]
    if len(defs) != 1 or not isinstance(defs[0], ast.FunctionDef):
        raise Unsupported(cls, "method %s" % ITER)
    found[ITER] = defs[0]
    # no other statement of the class body may rebind them
    for st in cls.body:
        for node in ast.walk(st):
            if isinstance(node, ast.Name) and node.id in METHODS + [ITER] and \
                    isinstance(node.ctx, (ast.Store, ast.Del)) and \
                    st in cls.body and not isinstance(
                        st, (ast.FunctionDef, ast.AsyncFunctionDef)):
                raise Unsupported(st, "method rebound in the class body")
    return found


def translate(outdir=None):
    tree = py2v.parse(SOURCE)
    found = check_module(tree)
    tr = Translator()
    for name in METHODS:
        tr.static_method(found[name])
    tr.iter_method(found[ITER])
    out = ["(* GENERATED by harness/py2v_latin.py from %s class %s (%s) -- "
           "do not edit *)" % (SOURCE, CLASS, ", ".join(METHODS + [ITER])),
           "From Coq Require Import ZArith List Bool.",
           "Require Import PW.lib.Val PW.model.Headers PW.lib.PyHeaders "
           "PW.lib.PyLatin.",
           "Import ListNotations.", "Open Scope list_scope.",
           "Open Scope Z_scope."]
    out += tr.defs
    text = "\n\n".join(out) + "\n"
    outdir = outdir or py2v.GEN
    os.makedirs(outdir, exist_ok=True)
    path = os.path.join(outdir, OUTFILE)
    old = open(path).read() if os.path.exists(path) else None
    if old != text:
        with open(path, "w") as f:
            f.write(text)
    return path


def drop_compiled():
    """py2v.regenerate removes gen/LatinGen.v when the translation is
    refused; the compiled forms must go too (also of the proofs file), or a
    stale LatinGen.vo would keep the dependent theorems compiling"""
    coq = os.path.dirname(py2v.GEN)
    for stem in (os.path.join(py2v.GEN, OUTFILE[:-2]),
                 os.path.join(coq, "proofs", "LatinGenEq")):
        for ext in (".vo", ".vos", ".vok", ".glob"):
            if os.path.exists(stem + ext):
                os.unlink(stem + ext)


def gen_latin():
    try:
        return translate()
    except Exception:
        drop_compiled()
        raise


def register(TARGETS, OUTPUT):
    TARGETS["latin"] = gen_latin
    OUTPUT["latin"] = OUTFILE


if __name__ == "__main__":
    # development aid: python py2v_latin.py <output directory>
    print(translate(sys.argv[1] if len(sys.argv) > 1 else None))
