"""Translator poorwsgi/results.py -> coq/gen/PagesGen.v (property C15).

Fail-closed Python-`ast` translator.  For each of the nine page generators it
abstractly executes the function body and extracts every string-building
expression that reaches the returned content into a PageIR term

    Lit s | Hole cls esc ctx | Cat | Cond k a b (IfDebug = Cond 0) | Loop sep body

cls  = taint class of the interpolated expression, from the FIXED tables below
       (anything the tables do not know is Tainted);
esc  = the expression is syntactically html_escape(<e>) / html_escape(str(<e>));
ctx  = syntactic context of the hole (text / RCDATA / double-quoted attribute
       value / other), from a Python mirror of the tokenizer of model/Pages.v
       (the Coq side recomputes it; a disagreement fails the obligation).

A construct outside the understood subset raises TranslateError naming the
node; the obligation is then not discharged.  Nothing here imports poorwsgi.
"""
import ast
import copy
import hashlib
import inspect
import os
import re
from dataclasses import dataclass, field

PAGES = ["internal_server_error", "bad_request", "unauthorized", "forbidden",
         "not_found", "method_not_allowed", "not_implemented",
         "directory_index", "debug_info"]
TRUSTED, TOKEN, TAINTED = "Trusted", "TokenChars", "Tainted"
_RANK = {TRUSTED: 0, TOKEN: 1, TAINTED: 2}

# ---------------------------------------------------------------- taint tables
# keyed by the source text (ast.unparse) of the expression
ATOMS = {
    # request- / file-system-derived: Tainted (listed for documentation; any
    # expression missing from this table is Tainted as well)
    "req.uri": TAINTED, "req.path": TAINTED, "req.full_path": TAINTED,
    "req.uri_rule": TAINTED, "req.server_admin": TAINTED,
    "req.hostname": TAINTED, "req.referer": TAINTED,
    "req.user_agent": TAINTED, "req.query": TAINTED,
    "req.forwarded_for": TAINTED, "req.forwarded_host": TAINTED,
    "req.forwarded_proto": TAINTED, "req.forwarded_port": TAINTED,
    "req.server_hostname": TAINTED, "req.headers": TAINTED,
    "req.environ": TAINTED, "path": TAINTED, "error": TAINTED,
    "exc_type": TAINTED, "exc_value": TAINTED, "exc_traceback": TAINTED,
    # token characters / numbers ("<function>:<name>" = only in that function)
    "req.method": TOKEN, "not_implemented:code": TOKEN,
    "req.server_port": TOKEN,
    # developer / configuration / server provided
    "req.remote_host": TRUSTED, "req.remote_addr": TRUSTED,
    "req.server_software": TRUSTED, "req.server_scheme": TRUSTED,
    "req.debug": TRUSTED, "req.document_root": TRUSTED,
    "req.document_index": TRUSTED, "req.uri_handler": TRUSTED,
    "__version__": TRUSTED, "__date__": TRUSTED, "version": TRUSTED,
    "app.before": TRUSTED, "app.after": TRUSTED,
}
ATTR_SUFFIX = {"__module__": TRUSTED, "__name__": TRUSTED,
               "co_varnames": TRUSTED}
CALLS = {
    "human_methods_": TRUSTED, "handler_name": TRUSTED,
    "callable_name": TRUSTED, "strftime": TRUSTED, "time_to_http": TRUSTED,
    "mimetypes.guess_type": TRUSTED,
    "hbytes": TOKEN, "getsize": TOKEN, "getctime": TOKEN, "gmtime": TOKEN,
    "len": TOKEN, "isdir": TOKEN, "isfile": TOKEN,
    "format_exception": TAINTED, "os.listdir": TAINTED, "exc_info": TAINTED,
}
# str methods that keep the class of receiver and arguments
STR_METHODS = {"rstrip", "lstrip", "strip", "lower", "upper", "split",
               "format", "copy", "encode", "hexdigest"}
MUTATORS = {"append", "sort", "update"}
# classes of the loop variables, keyed by "<function>:<source text of the
# iterable>"; an iterable that is a local variable has the class of that
# variable, anything else unknown is Tainted
ITERS = {
    "debug_info:handlers_view(app.routes)": (TAINTED, TRUSTED, TRUSTED),
    "debug_info:handlers_view(app.regular_routes, False)":
        (TAINTED, TRUSTED, (TRUSTED, TRUSTED, TAINTED)),
    "debug_info:handlers_view({'x': app.defaults})":
        (TRUSTED, TRUSTED, TRUSTED),
    "debug_info:handlers_view(_tmp_shandlers)": (TOKEN, TRUSTED, TRUSTED),
    "debug_info:zip(pre, post)": (TRUSTED, TRUSTED),
    "debug_info:app.filters.items()": (TRUSTED, (TAINTED, TRUSTED)),
    "debug_info:req.headers.items()": (TOKEN, TAINTED),   # field-name = token
    "debug_info:req.get_options().items()": (TRUSTED, TAINTED),
    "debug_info:sorted(environ.items())": (TOKEN, TAINTED),  # CGI/WSGI names
    "debug_info:default_states.items()": (TOKEN, TRUSTED),
    "debug_info:app.states.items()": (TOKEN, TRUSTED),
}
HTML_ESCAPE_BODY = ("Return(value=Call(func=Attribute(value=Constant(value=''), "
                    "attr='join', ctx=Load()), args=[GeneratorExp(elt=Call("
                    "func=Attribute(value=Name(id='HTML_ESCAPE_TABLE', "
                    "ctx=Load()), attr='get', ctx=Load()), args=[Name(id='c', "
                    "ctx=Load()), Name(id='c', ctx=Load())], keywords=[]), "
                    "generators=[comprehension(target=Name(id='c', "
                    "ctx=Store()), iter=Name(id='text', ctx=Load()), ifs=[], "
                    "is_async=0)])], keywords=[]))")


class TranslateError(Exception):
    pass


def bad(node, why):
    raise TranslateError("%s at results.py:%s: %s" % (
        why, getattr(node, "lineno", "?"),
        ast.dump(node)[:300] if isinstance(node, ast.AST) else node))


def join_cls(classes):
    out = TRUSTED
    for c in classes:
        if _RANK[c] > _RANK[out]:
            out = c
    return out


# ------------------------------------------------------------------------- IR
@dataclass
class Lit:
    text: str


@dataclass
class Hole:
    cls: str
    esc: bool
    src: str
    line: int
    ctx: str = field(default="?", compare=False)


@dataclass
class Cond:
    k: int
    test: str
    a: list
    b: list
    line: int = field(default=0, compare=False)


@dataclass
class Loop:
    sep: str
    body: list
    it: str
    line: int = field(default=0, compare=False)
    target: str = field(default="", compare=False)


def classes_of(nodes):
    for n in nodes:
        if isinstance(n, Hole):
            yield n.cls
        elif isinstance(n, Cond):
            yield from classes_of(n.a)
            yield from classes_of(n.b)
        elif isinstance(n, Loop):
            yield from classes_of(n.body)


def norm(nodes):
    """merge adjacent literals, drop empty ones (recursively)"""
    out = []
    for n in nodes:
        if isinstance(n, Lit):
            if not n.text:
                continue
            if out and isinstance(out[-1], Lit):
                out[-1] = Lit(out[-1].text + n.text)
                continue
            n = Lit(n.text)
        elif isinstance(n, Cond):
            n = Cond(n.k, n.test, norm(n.a), norm(n.b), n.line)
        elif isinstance(n, Loop):
            n = Loop(n.sep, norm(n.body), n.it, n.line, n.target)
        out.append(n)
    return out


# ------------------------------------------------ tokenizer mirror (states only)
RAW = ("title", "textarea", "style", "script")
WS = "\t\n\x0c\r "


def _after(cl, nm):
    return ("Text",) if cl or nm not in RAW else ("RCDATA", nm)


def _before_attr(cl, nm, c):
    if c in WS:
        return ("BeforeAttr", cl, nm)
    if c == "/":
        return ("SelfClose", cl, nm)
    if c == ">":
        return _after(cl, nm)
    return ("AttrName", cl, nm)


def _alpha(c):
    return "a" <= c <= "z" or "A" <= c <= "Z"


def _low(c):
    return c.lower() if "A" <= c <= "Z" else c


def pystep(st, c):
    k = st[0]
    if k == "Text":
        return ("TagOpen",) if c == "<" else st
    if k == "RCDATA":
        return ("RcLt", st[1]) if c == "<" else st
    if k == "RcLt":
        return ("RcEnd", st[1], "") if c == "/" else st if c == "<" \
            else ("RCDATA", st[1])
    if k == "RcEnd":
        el, m = st[1], st[2]
        if _alpha(c):
            return ("RcEnd", el, m + _low(c))
        if m == el:
            if c == ">":
                return ("Text",)
            if c in WS:
                return ("BeforeAttr", True, el)
            if c == "/":
                return ("SelfClose", True, el)
        return ("RcLt", el) if c == "<" else ("RCDATA", el)
    if k == "TagOpen":
        if _alpha(c):
            return ("TagName", False, _low(c))
        if c == "/":
            return ("EndTagOpen",)
        if c in "!?":
            return ("Decl",)
        return st if c == "<" else ("Text",)
    if k == "EndTagOpen":
        if _alpha(c):
            return ("TagName", True, _low(c))
        return ("Text",) if c == ">" else ("Decl",)
    if k == "Decl":
        return ("Text",) if c == ">" else st
    cl, nm = st[1], st[2]
    if k == "TagName":
        if c in WS:
            return ("BeforeAttr", cl, nm)
        if c == "/":
            return ("SelfClose", cl, nm)
        return _after(cl, nm) if c == ">" else ("TagName", cl, nm + _low(c))
    if k == "BeforeAttr":
        return _before_attr(cl, nm, c)
    if k in ("AttrName", "AfterAttrName"):
        if c in WS:
            return ("AfterAttrName", cl, nm)
        if c == "/":
            return ("SelfClose", cl, nm)
        if c == "=":
            return ("BeforeVal", cl, nm)
        return _after(cl, nm) if c == ">" else ("AttrName", cl, nm)
    if k == "BeforeVal":
        if c in WS:
            return st
        if c == '"':
            return ("AttrValDQ", cl, nm)
        if c == "'":
            return ("AttrValSQ", cl, nm)
        return _after(cl, nm) if c == ">" else ("AttrValUnq", cl, nm)
    if k == "AttrValDQ":
        return ("BeforeAttr", cl, nm) if c == '"' else st
    if k == "AttrValSQ":
        return ("BeforeAttr", cl, nm) if c == "'" else st
    if k == "AttrValUnq":
        if c in WS:
            return ("BeforeAttr", cl, nm)
        return _after(cl, nm) if c == ">" else st
    if k == "SelfClose":
        return ("Text",) if c == ">" else _before_attr(cl, nm, c)
    raise AssertionError(st)


def pytok(st, text):
    for c in text:
        st = pystep(st, c)
    return st


def ctx_of(st):
    if st[0] == "Text":
        return "CText"
    if st[0] == "RCDATA":
        return "COther" if st[1] == "script" else "CRcdata"
    return "CAttrDQ" if st[0] == "AttrValDQ" else "COther"


def hole_ok(h):
    safe = h.ctx in ("CText", "CRcdata", "CAttrDQ")
    if h.cls == TAINTED:
        return h.esc and safe
    if h.cls == TOKEN:
        return safe
    return safe if h.esc else h.ctx == "CText"


def annotate(nodes, st, problems):
    """record the context of every hole; mirror of guarded_from (diagnostics
    only: the verdict is Coq's)"""
    for n in nodes:
        if isinstance(n, Lit):
            st = pytok(st, n.text)
        elif isinstance(n, Hole):
            n.ctx = ctx_of(st)
            if not hole_ok(n):
                problems.append(
                    "results.py:%d: %s%s expression `%s` in context %s" % (
                        n.line, "" if n.esc else "unescaped ", n.cls, n.src,
                        n.ctx))
        elif isinstance(n, Cond):
            s1 = annotate(n.a, st, problems)
            s2 = annotate(n.b, st, problems)
            if s1 != s2:
                problems.append("results.py:%d: branches of `%s` end in "
                                "different contexts" % (n.line, n.test))
            st = s1
        elif isinstance(n, Loop):
            s1 = annotate(n.body, st, problems)
            if s1 != st or pytok(st, n.sep) != st:
                problems.append("results.py:%d: a row over `%s` does not "
                                "return to its context" % (n.line, n.it))
    return st


# ----------------------------------------------------------------- translator
FMT = re.compile(r"%(?:(%)|(\.\d+)?([sdif]))")


class Fn:
    def __init__(self, tr, node):
        self.tr, self.node, self.name = tr, node, node.name
        self.resp = set()

    # -- classification of atomic expressions
    def atom(self, e):
        src = ast.unparse(e)
        if self.name + ":" + src in ATOMS:
            return ATOMS[self.name + ":" + src]
        if src in ATOMS:
            return ATOMS[src]
        if isinstance(e, ast.Attribute) and e.attr in ATTR_SUFFIX:
            return ATTR_SUFFIX[e.attr]
        return TAINTED

    def hole(self, e, cls=None, esc=False, src=None):
        return [Hole(cls or self.atom(e), esc, src or ast.unparse(e),
                     getattr(e, "lineno", 0))]

    def classify(self, e, env):
        return join_cls(classes_of(self.ir(e, env)))

    # -- expressions
    def ir(self, e, env):
        if isinstance(e, ast.Constant):
            if isinstance(e.value, str):
                return [Lit(e.value)]
            if e.value is None or isinstance(e.value, (int, float, bool)):
                return [Lit(str(e.value))]
            bad(e, "constant of unsupported type")
        if isinstance(e, ast.JoinedStr):
            out = []
            for part in e.values:
                if isinstance(part, ast.Constant):
                    out.append(Lit(part.value))
                elif isinstance(part, ast.FormattedValue) and \
                        part.conversion == -1 and part.format_spec is None:
                    out += self.ir(part.value, env)
                else:
                    bad(part, "f-string part with conversion/format spec")
            return out
        if isinstance(e, ast.Name):
            if e.id in env:
                return copy.deepcopy(env[e.id])
            return self.hole(e)
        if isinstance(e, ast.Attribute):
            return self.hole(e)
        if isinstance(e, ast.Subscript):
            key = ast.unparse(e)
            if key in env:
                return copy.deepcopy(env[key])
            if isinstance(e.slice, ast.Slice) or isinstance(
                    e.slice, (ast.Constant, ast.UnaryOp)):
                return self.hole(e, self.classify(e.value, env))
            return self.hole(e, TAINTED)
        if isinstance(e, ast.BinOp):
            return self.binop(e, env)
        if isinstance(e, ast.BoolOp):
            return self.hole(e, join_cls(self.classify(v, env)
                                         for v in e.values))
        if isinstance(e, ast.IfExp):
            return [Cond(self.tr.cond_id(e.test), ast.unparse(e.test),
                         self.ir(e.body, env), self.ir(e.orelse, env),
                         e.lineno)]
        if isinstance(e, ast.Call):
            return self.call(e, env)
        if isinstance(e, (ast.Tuple, ast.List, ast.Dict)):
            vals = e.values if isinstance(e, ast.Dict) else e.elts
            keys = [k for k in e.keys if k] if isinstance(e, ast.Dict) else []
            return self.hole(e, join_cls(self.classify(v, env)
                                         for v in list(vals) + keys))
        if isinstance(e, (ast.Compare, ast.UnaryOp)):
            return self.hole(e, TOKEN if isinstance(e, ast.Compare) else
                             self.classify(e.operand, env))
        bad(e, "expression not understood")

    def binop(self, e, env):
        if isinstance(e.op, ast.Add):
            return self.ir(e.left, env) + self.ir(e.right, env)
        if isinstance(e.op, ast.Mod):
            fmt = self.literal(e.left)
            if fmt is not None:
                return self.percent(e, fmt, env)
        # arithmetic: a number stays a number, literals stay literals
        both = [self.ir(e.left, env), self.ir(e.right, env)]
        cls = join_cls(c for part in both for c in classes_of(part))
        if isinstance(e.op, (ast.Mod, ast.Sub, ast.Mult, ast.FloorDiv)):
            return self.hole(e, cls if cls != TAINTED else TAINTED)
        bad(e, "binary operator not understood")

    def literal(self, e):
        """text of a literal format string, or None"""
        if isinstance(e, ast.Constant) and isinstance(e.value, str):
            return e.value
        if isinstance(e, ast.Call) and isinstance(e.func, ast.Name) and \
                e.func.id == "cleandoc" and len(e.args) == 1 and \
                not e.keywords and isinstance(e.args[0], ast.Constant) and \
                isinstance(e.args[0].value, str):
            return inspect.cleandoc(e.args[0].value)
        return None

    def percent(self, e, fmt, env):
        args = list(e.right.elts) if isinstance(e.right, ast.Tuple) \
            else [e.right]
        out, pos, k = [], 0, 0
        specs = [m for m in FMT.finditer(fmt) if not m.group(1)]
        if fmt.count("%") != 2 * sum(1 for m in FMT.finditer(fmt)
                                     if m.group(1)) + len(specs):
            bad(e, "format directive not understood")
        spread = len(args) == 1 and len(specs) > 1 and \
            not isinstance(e.right, ast.Tuple)
        if not spread and len(specs) != len(args):
            bad(e, "format directives and arguments differ in number")
        for m in FMT.finditer(fmt):
            out.append(Lit(fmt[pos:m.start()]))
            pos = m.end()
            if m.group(1):
                out.append(Lit("%"))
                continue
            arg = args[0] if spread else args[k]
            if m.group(3) == "s" and not spread:
                out += self.ir(arg, env)
            else:
                cls = TOKEN if m.group(3) in "dif" else self.classify(arg, env)
                out += self.hole(arg, cls, False, "%s#%d:%s" % (
                    ast.unparse(arg), k, m.group(0)))
            k += 1
        out.append(Lit(fmt[pos:]))
        return out

    def call(self, e, env):
        f = e.func
        fname = ast.unparse(f)
        if fname == "html_escape":
            if len(e.args) != 1 or e.keywords:
                bad(e, "html_escape call shape")
            inner = e.args[0]
            if isinstance(inner, ast.Call) and ast.unparse(inner.func) == \
                    "str" and len(inner.args) == 1 and not inner.keywords:
                inner = inner.args[0]
            return self.hole(inner, self.classify(inner, env), True)
        if fname == "str" and len(e.args) == 1 and not e.keywords:
            return self.ir(e.args[0], env)
        if self.literal(e) is not None:
            return [Lit(self.literal(e))]
        if isinstance(f, ast.Attribute) and f.attr == "join" and \
                isinstance(f.value, ast.Constant) and \
                isinstance(f.value.value, str) and len(e.args) == 1 \
                and not e.keywords:
            arg = e.args[0]
            if isinstance(arg, ast.Call) and ast.unparse(arg.func) == "tuple" \
                    and len(arg.args) == 1:
                arg = arg.args[0]
            if isinstance(arg, (ast.GeneratorExp, ast.ListComp)):
                return [self.comprehension(arg, f.value.value, env)]
            return self.hole(e, self.classify(arg, env))
        if isinstance(f, ast.Attribute) and f.attr in STR_METHODS:
            parts = [f.value] + list(e.args) + [k.value for k in e.keywords]
            return self.hole(e, join_cls(self.classify(p, env)
                                         for p in parts))
        if fname == "enumerate" and len(e.args) == 1:
            return self.hole(e, self.classify(e.args[0], env))
        if fname == "getattr" and len(e.args) in (2, 3) and \
                not e.keywords and isinstance(e.args[1], ast.Constant) and \
                isinstance(e.args[1].value, str):
            # getattr(x, 'name'[, default]) = x.name, or the default
            attr = ast.Attribute(value=e.args[0], attr=e.args[1].value,
                                 ctx=ast.Load())
            ast.copy_location(attr, e)
            classes = [self.classify(attr, env)]
            if len(e.args) == 3:
                classes.append(self.classify(e.args[2], env))
            return self.hole(e, join_cls(classes))
        if fname == "type" and len(e.args) == 1 and not e.keywords:
            return self.hole(e, self.classify(e.args[0], env))
        if fname in CALLS:
            return self.hole(e, CALLS[fname])
        return self.hole(e, TAINTED)

    def comprehension(self, g, sep, env):
        if len(g.generators) != 1 or g.generators[0].ifs or \
                g.generators[0].is_async:
            bad(g, "comprehension shape")
        gen = g.generators[0]
        env2 = dict(env)
        self.bind(gen.target, self.iter_classes(gen.iter, env), env2)
        return Loop(sep, self.ir(g.elt, env2), ast.unparse(gen.iter), g.lineno,
                    ast.unparse(gen.target))

    def iter_classes(self, it, env):
        src = self.name + ":" + ast.unparse(it)
        if src in ITERS:
            return ITERS[src]
        if isinstance(it, ast.Name) and it.id in env:
            return self.classify(it, env)
        if isinstance(it, ast.Call) and ast.unparse(it.func) == "enumerate" \
                and len(it.args) == 1:
            return (TOKEN, self.classify(it.args[0], env))
        if isinstance(it, (ast.Tuple, ast.List)) and it.elts and all(
                isinstance(x, ast.Tuple) and len(x.elts) == len(it.elts[0].elts)
                for x in it.elts):
            return tuple(join_cls(self.classify(x.elts[i], env)
                                  for x in it.elts)
                         for i in range(len(it.elts[0].elts)))
        return TAINTED

    def bind(self, target, classes, env):
        if isinstance(target, ast.Name):
            cls = classes if isinstance(classes, str) else \
                join_cls(self.flat(classes))
            env[target.id] = [Hole(cls, False, target.id, target.lineno)]
        elif isinstance(target, ast.Tuple):
            if isinstance(classes, str):
                classes = (classes,) * len(target.elts)
            if len(classes) != len(target.elts):
                classes = (TAINTED,) * len(target.elts)
            for t, c in zip(target.elts, classes):
                self.bind(t, c, env)
        else:
            bad(target, "loop/assignment target not understood")

    def flat(self, classes):
        for c in classes:
            if isinstance(c, str):
                yield c
            else:
                yield from self.flat(c)

    # -- statements
    def block(self, stmts, env):
        for s in stmts:
            status = self.stmt(s, env)
            if status != "next":
                return status
        return "next"

    def stmt(self, s, env):
        if isinstance(s, ast.Expr):
            return self.expr_stmt(s, env)
        if isinstance(s, ast.Assign):
            for target in s.targets:
                self.assign(target, s.value, env)
            return "next"
        if isinstance(s, ast.AugAssign):
            if not isinstance(s.op, ast.Add) or not isinstance(s.target,
                                                               ast.Name):
                bad(s, "augmented assignment not understood")
            old = env.get(s.target.id)
            if old is None:
                old = self.hole(s.target)
            env[s.target.id] = old + self.ir(s.value, env)
            return "next"
        if isinstance(s, ast.If):
            return self.if_stmt(s, env)
        if isinstance(s, ast.For):
            return self.for_stmt(s, env)
        if isinstance(s, ast.Return):
            env["<return>"] = self.returned(s.value, env)
            return "return"
        if isinstance(s, (ast.Raise, ast.Continue)):
            return "abort"
        if isinstance(s, ast.Pass):
            return "next"
        bad(s, "statement not understood")

    def expr_stmt(self, s, env):
        v = s.value
        if isinstance(v, ast.Constant):
            return "next"                      # docstring
        if isinstance(v, ast.Call) and isinstance(v.func, ast.Attribute):
            recv, attr = v.func.value, v.func.attr
            if isinstance(recv, ast.Name) and recv.id == "log":
                return "next"                  # logging does not reach content
            if isinstance(recv, ast.Name) and recv.id in self.resp and \
                    attr == "write" and len(v.args) == 1 and not v.keywords:
                env[recv.id] = env[recv.id] + self.ir(v.args[0], env)
                return "next"
            if attr in MUTATORS and isinstance(recv, (ast.Name, ast.Subscript)) \
                    and ast.unparse(recv).split("[")[0] not in self.resp:
                name = ast.unparse(recv).split("[")[0]
                if name in env and any(not isinstance(n, Hole)
                                       for n in env[name]):
                    bad(s, "mutation of a string-building variable")
                return "next"                  # list/dict bookkeeping
        bad(s, "expression statement not understood")

    def assign(self, target, value, env):
        if isinstance(target, ast.Name):
            if isinstance(value, ast.Call) and ast.unparse(value.func) == \
                    "Response":
                if value.args:
                    bad(value, "Response(...) with positional content")
                self.resp.add(target.id)
                env[target.id] = []
                return
            if isinstance(value, ast.Dict) and all(
                    isinstance(k, ast.Constant) for k in value.keys):
                for k, v in zip(value.keys, value.values):
                    env["%s[%r]" % (target.id, k.value)] = self.ir(v, env)
            env[target.id] = self.ir(value, env)
        elif isinstance(target, ast.Subscript):
            env[ast.unparse(target)] = self.ir(value, env)
        elif isinstance(target, ast.Tuple):
            if isinstance(value, ast.Tuple) and len(value.elts) == \
                    len(target.elts):
                vals = [self.ir(v, env) for v in value.elts]
                for t, v in zip(target.elts, vals):
                    if not isinstance(t, ast.Name):
                        bad(t, "tuple assignment target")
                    env[t.id] = v
            else:
                cls = self.classify(value, env)
                for t in target.elts:
                    if not isinstance(t, ast.Name):
                        bad(t, "tuple assignment target")
                    env[t.id] = [Hole(cls, False, "%s<-%s" % (
                        t.id, ast.unparse(value)), t.lineno)]
        else:
            bad(target, "assignment target not understood")

    def if_stmt(self, s, env):
        ea, eb = dict(env), dict(env)
        sa = self.block(s.body, ea)
        sb = self.block(s.orelse, eb)
        if "return" in (sa, sb):
            bad(s, "return inside if")
        if sa == "abort" and sb == "abort":
            return "abort"
        if sa == "abort" or sb == "abort":
            env.clear()
            env.update(eb if sa == "abort" else ea)
            return "next"
        k, test = self.tr.cond_id(s.test), ast.unparse(s.test)
        for v in list(dict.fromkeys(list(ea) + list(eb))):
            va, vb = ea.get(v), eb.get(v)
            if va == vb:
                env[v] = va
                continue
            undef = [Hole(TAINTED, False, "<undefined %s>" % v, s.lineno)]
            va = undef if va is None else va
            vb = undef if vb is None else vb
            base = env.get(v)
            if base is not None and va[:len(base)] == base and \
                    vb[:len(base)] == base:
                env[v] = base + [Cond(k, test, va[len(base):],
                                      vb[len(base):], s.lineno)]
            else:
                env[v] = [Cond(k, test, va, vb, s.lineno)]
        return "next"

    def for_stmt(self, s, env):
        if s.orelse:
            bad(s, "for/else")
        body_env = dict(env)
        self.bind(s.target, self.iter_classes(s.iter, env), body_env)
        status = self.block(s.body, body_env)
        if status == "return":
            bad(s, "return inside for")
        for v, old in list(env.items()):
            new = body_env.get(v)
            if new == old:
                continue
            if new is None or new[:len(old)] != old:
                bad(s, "loop rewrites `%s` instead of appending to it" % v)
            env[v] = old + [Loop("", new[len(old):], ast.unparse(s.iter),
                                 s.lineno, ast.unparse(s.target))]
        return "next"

    def returned(self, v, env):
        if isinstance(v, ast.Tuple) and v.elts:
            v = v.elts[0]
        if isinstance(v, ast.Call) and ast.unparse(v.func) == "Response" \
                and v.args:
            v = v.args[0]
        if isinstance(v, ast.Name) and v.id in env:
            return env[v.id]
        bad(v, "returned expression not understood")

    def run(self):
        env = {}
        status = self.block(self.node.body, env)
        if status != "return" or "<return>" not in env:
            bad(self.node, "function does not end in a return")
        return norm(env["<return>"])


class Translation:
    def __init__(self, repo):
        self.path = os.path.join(repo, "poorwsgi", "results.py")
        self.source = open(self.path, encoding="utf-8").read()
        self.sha = hashlib.sha256(self.source.encode()).hexdigest()
        self.conds = {"req.debug": 0}
        self.pages, self.problems, self.table = {}, {}, None
        tree = ast.parse(self.source)
        funcs = {n.name: n for n in tree.body
                 if isinstance(n, ast.FunctionDef)}
        self.escape_table(tree, funcs)
        for name in PAGES:
            if name not in funcs:
                raise TranslateError("page generator %s not found" % name)
            nodes = Fn(self, funcs[name]).run()
            probs = []
            end = annotate(nodes, ("Text",), probs)
            if end != ("Text",):
                probs.append("page does not end in text context")
            text = "".join(self.literals(nodes)).lower()
            if "<script" in text:
                raise TranslateError("%s: script element in a page" % name)
            self.pages[name] = nodes
            self.problems[name] = ["%s: %s" % (name, p) for p in probs]

    def cond_id(self, test):
        return self.conds.setdefault(ast.unparse(test), len(self.conds))

    def literals(self, nodes):
        for n in nodes:
            if isinstance(n, Lit):
                yield n.text
            elif isinstance(n, Cond):
                yield from self.literals(n.a)
                yield from self.literals(n.b)
            elif isinstance(n, Loop):
                yield n.sep
                yield from self.literals(n.body)

    def escape_table(self, tree, funcs):
        for n in tree.body:
            if isinstance(n, ast.Assign) and len(n.targets) == 1 and \
                    ast.unparse(n.targets[0]) == "HTML_ESCAPE_TABLE":
                if not isinstance(n.value, ast.Dict) or not all(
                        isinstance(x, ast.Constant) and isinstance(x.value, str)
                        for x in n.value.keys + n.value.values) or not all(
                        len(k.value) == 1 for k in n.value.keys):
                    bad(n, "HTML_ESCAPE_TABLE is not a literal char table")
                self.table = [(k.value, v.value) for k, v in
                              zip(n.value.keys, n.value.values)]
        if self.table is None:
            raise TranslateError("HTML_ESCAPE_TABLE not found")
        fn = funcs.get("html_escape")
        body = [s for s in (fn.body if fn else [])
                if not (isinstance(s, ast.Expr)
                        and isinstance(s.value, ast.Constant))]
        if fn is None or len(body) != 1 or ast.dump(body[0]) != \
                HTML_ESCAPE_BODY or [a.arg for a in fn.args.args] != ["text"]:
            bad(fn or tree, "html_escape is not "
                "''.join(HTML_ESCAPE_TABLE.get(c, c) for c in text)")

    # ------------------------------------------------------------- emission
    def holes(self, name):
        def walk(nodes):
            for n in nodes:
                if isinstance(n, Hole):
                    yield n
                elif isinstance(n, Cond):
                    yield from walk(n.a)
                    yield from walk(n.b)
                elif isinstance(n, Loop):
                    yield from walk(n.body)
        return list(walk(self.pages[name]))

    def coq(self):
        out = ["(* GENERATED by harness/py2pages.py from poorwsgi/results.py",
               "   sha256 %s -- do not edit, never commit *)" % self.sha,
               "From Coq Require Import ZArith List Bool.",
               "Require Import PW.lib.Val PW.model.Pages.",
               "Import ListNotations.", "Open Scope Z_scope.", "",
               "Definition gen_escape_table : list (Z * list Z) :=",
               "  [" + "; ".join("(%d, %s)" % (ord(k), zl(v))
                                 for k, v in self.table) + "].",
               "Lemma escape_table_tie : gen_escape_table = escape_table.",
               "Proof. reflexivity. Qed.", ""]
        for test, k in sorted(self.conds.items(), key=lambda kv: kv[1]):
            out.append("(* Cond %d : %s *)" % (k, comment(test)))
        for name in PAGES:
            out += ["", "Definition page_%s : page :=" % name,
                    "  " + term(self.pages[name]) + ".",
                    "Lemma page_%s_guarded : guarded page_%s = true." % (
                        name, name),
                    "Proof. vm_compute. reflexivity. Qed."]
        return "\n".join(out) + "\n"


def comment(text):
    return text.replace("(*", "( *").replace("*)", "* )").replace('"', "''")


def zl(text):
    return "[" + ";".join(str(ord(c)) for c in text) + "]"


def term(nodes):
    if not nodes:
        return "(Lit [])"
    parts = []
    for n in nodes:
        if isinstance(n, Lit):
            parts.append("(Lit %s)" % zl(n.text))
        elif isinstance(n, Hole):
            parts.append("(Hole %s %s %s)" % (
                n.cls, "true" if n.esc else "false", n.ctx))
        elif isinstance(n, Cond):
            parts.append("(Cond %d %s %s)" % (n.k, term(n.a), term(n.b)))
        else:
            parts.append("(Loop %s %s)" % (zl(n.sep), term(n.body)))
    out = parts[-1]
    for p in reversed(parts[:-1]):
        out = "(Cat %s\n   %s)" % (p, out)
    return out


# --------------------------------------------- valuations (correspondence side)
class Val:
    """valuation of a page: hole source text -> str, test source text -> bool,
    iterable source text -> list of row valuations (rows inherit)"""
    def __init__(self, holes=None, conds=None, loops=None, parent=None,
                 scope=None):
        self.h, self.c, self.l = holes or {}, conds or {}, loops or {}
        self.parent = parent
        self.scope = scope      # names for evaluating a source text itself

    def get(self, kind, key):
        v = self
        while v is not None:
            d = getattr(v, kind)
            if key in d:
                return d[key]
            v = v.parent
        # not listed: evaluate the source text of the hole / test in the
        # scope the harness supplied (the real objects of the request), so
        # that a rewording of an expression needs no new table entry
        v = self
        while v is not None:
            if v.scope is not None and kind in ("h", "c"):
                try:
                    return eval(key, {"__builtins__": {
                        "getattr": getattr, "type": type, "len": len,
                        "str": str, "hasattr": hasattr}}, dict(v.scope))
                except Exception:   # noqa
                    break
            v = v.parent
        raise KeyError("%s %r has no value in the valuation" % (kind, key))


def env_term(nodes, val):
    """Coq term of type env shaped like term(nodes)"""
    if not nodes:
        return "EUnit"
    parts = []
    for n in nodes:
        if isinstance(n, Lit):
            parts.append("EUnit")
        elif isinstance(n, Hole):
            parts.append("(EVal %s)" % zl(str(val.get("h", n.src))))
        elif isinstance(n, Cond):
            taken = bool(val.get("c", n.test))
            parts.append("(EBr %s %s)" % ("true" if taken else "false",
                                          env_term(n.a if taken else n.b, val)))
        else:
            rows = "EUnit"
            for row in reversed(val.get("l", n.it)):
                row.parent = val
                rows = "(EPair %s %s)" % (env_term(n.body, row), rows)
            parts.append(rows)
    out = parts[-1]
    for p in reversed(parts[:-1]):
        out = "(EPair %s %s)" % (p, out)
    return out


GEN = os.path.join(os.path.dirname(os.path.dirname(os.path.abspath(__file__))),
                   "coq", "gen", "PagesGen.v")


def remove_compiled():
    base = GEN[:-2]
    for ext in (".vo", ".vos", ".vok", ".glob"):
        if os.path.exists(base + ext):
            os.unlink(base + ext)


def regenerate(repo):
    """Translate and (re)write coq/gen/PagesGen.v.  Returns the Translation.
    On TranslateError the generated file and its compiled forms are removed
    (so nothing stale can discharge the obligations) and the error is
    re-raised."""
    os.makedirs(os.path.dirname(GEN), exist_ok=True)
    try:
        tr = Translation(repo)
        text = tr.coq()
    except (TranslateError, SyntaxError, OSError) as err:
        if os.path.exists(GEN):
            os.unlink(GEN)
        remove_compiled()
        raise TranslateError(str(err)) from err
    old = open(GEN, encoding="utf-8").read() if os.path.exists(GEN) else None
    if old != text:
        remove_compiled()
        with open(GEN, "w", encoding="utf-8") as f:
            f.write(text)
    return tr


if __name__ == "__main__":
    import sys
    t = regenerate(os.environ.get("VERIF_REPO", "/repo"))
    for page in PAGES:
        print("%-22s %3d holes  %s" % (page, len(t.holes(page)),
                                       "; ".join(t.problems[page]) or "ok"))
        if "-v" in sys.argv:
            for h in t.holes(page):
                print("    l.%-4d %-10s %-5s %-8s %s" % (
                    h.line, h.cls, "esc" if h.esc else "raw", h.ctx, h.src))
