"""Fail-closed translator from a small subset of Python (the fixed target list
below) to Gallina over coq/lib/Py.v.  It regenerates coq/gen/*.v from the
current source tree on every check run; the hand models are then proved
equal to the generated definitions (coq/proofs/*GenEq.v), so a change of the
translated code breaks a proof obligation.

Anything outside the supported subset raises Unsupported naming the node:
the obligation is then not discharged.

The translation is syntax directed:
  * every Python value is a [pv]; every operation is a function of Py.v
    returning [res pv]; evaluation order and short-circuiting are kept;
  * statements are translated in continuation-passing style with SSA
    renaming; an `if` gets a local join-point function over the variables
    assigned in its branches;
  * `for x in e:` / `while c:` become a Fixpoint (structural on the item
    list / on explicit fuel) that also contains the code after the loop;
  * `yield e` appends to an output list which is the function's result;
  * attribute reads/writes `self.x`, `obj.f` are variables named by the
    dotted text; constructors of the classes named in `inline` are inlined
    from their `__init__`/`__str__` source.
"""
import ast
import os
import re
import sys

REPO = os.environ.get("VERIF_REPO", "/repo")
VERIF = os.path.dirname(os.path.dirname(os.path.abspath(__file__)))
GEN = os.path.join(VERIF, "coq", "gen")


class Unsupported(Exception):
    def __init__(self, node, why=""):
        line = getattr(node, "lineno", "?")
        try:
            text = ast.unparse(node)[:80]
        except Exception:  # noqa
            text = type(node).__name__
        super().__init__("line %s: %s %s: %s" % (line, type(node).__name__,
                                                 why, text))


def zl(n):
    return "(%d)" % n if n < 0 else str(n)


def strlit(s):
    return "[" + ";".join(str(ord(c)) for c in s) + "]"


def mangle(name):
    return re.sub(r"[^A-Za-z0-9_]", "_", name).strip("_") or "v"


class Ctx:
    """one translated function"""
    def __init__(self, unit, name):
        self.unit = unit
        self.name = name
        self.counter = 0
        self.loops = []         # text of generated Fixpoints
        self.is_generator = False

    def fresh(self, base):
        self.counter += 1
        return "%s_%d" % (mangle(base), self.counter)


class Unit:
    """one generated file"""
    def __init__(self, consts=None, aliases=None, externs=None, inline=None,
                 callees=None, time_var=None):
        self.consts = consts or {}       # NAME -> int
        self.aliases = aliases or {}     # dotted read/write alias
        self.externs = externs or {}     # recognised external calls
        self.inline = inline or {}       # class name -> ClassDef
        self.callees = callees or {}     # name -> (gen name, params, defaults)
        self.time_var = time_var
        self.skip_names = set()
        self.streams = set()     # dotted names of file.read methods
        self.defs = []

    # ------------------------------------------------------------ expressions
    def dotted(self, node):
        if isinstance(node, ast.Name):
            return node.id
        if isinstance(node, ast.Attribute):
            base = self.dotted(node.value)
            if base is None:
                return None
            attr = node.attr
            return "%s.%s" % (base, attr)
        return None

    def expr(self, cx, env, node, k):
        """k: term (str) -> code (str).  Returns code of type res pv."""
        if isinstance(node, ast.Constant):
            v = node.value
            if v is None:
                return k("PNone")
            if isinstance(v, bool):
                return k("(PBool %s)" % ("true" if v else "false"))
            if isinstance(v, int):
                return k("(PInt %s)" % zl(v))
            if isinstance(v, str):
                return k("(PStr %s)" % strlit(v))
            if isinstance(v, bytes):
                return k("(PBytes [%s])" % ";".join(str(b) for b in v))
            raise Unsupported(node, "constant")
        name = self.dotted(node)
        if name is not None:
            name = self.aliases.get(name, name)
            if name in env:
                return k(env[name])
            if name in self.consts:
                return k("(PInt %s)" % zl(self.consts[name]))
            raise Unsupported(node, "unknown name %s" % name)
        if isinstance(node, ast.BinOp):
            if isinstance(node.op, ast.Mod) and \
                    isinstance(node.left, ast.Constant) and \
                    isinstance(node.left.value, str):
                return self.percent(cx, env, node, k)
            ops = {ast.Add: "padd", ast.Sub: "psub", ast.Mult: "pmul",
                   ast.Div: "pdiv"}
            fn = ops.get(type(node.op))
            if fn is None:
                raise Unsupported(node, "operator")
            return self.expr(cx, env, node.left, lambda a: self.expr(
                cx, env, node.right, lambda b: self.bindk(
                    cx, "%s %s %s" % (fn, a, b), k)))
        if isinstance(node, ast.UnaryOp) and isinstance(node.op, ast.Not):
            return self.expr(cx, env, node.operand, lambda a: self.bindk(
                cx, "pnot %s" % a, k))
        if isinstance(node, ast.UnaryOp) and isinstance(node.op, ast.USub) \
                and isinstance(node.operand, ast.Constant):
            return k("(PInt %s)" % zl(-node.operand.value))
        if isinstance(node, ast.Compare):
            if len(node.ops) != 1:
                raise Unsupported(node, "chained comparison")
            op, right = node.ops[0], node.comparators[0]
            if isinstance(op, (ast.Is, ast.IsNot)):
                if not (isinstance(right, ast.Constant)
                        and right.value is None):
                    raise Unsupported(node, "is")
                fn = "pis_none" if isinstance(op, ast.Is) else "pis_not_none"
                return self.expr(cx, env, node.left, lambda a: self.bindk(
                    cx, "%s %s" % (fn, a), k))
            fns = {ast.Eq: "peq", ast.NotEq: "pne", ast.Lt: "plt",
                   ast.LtE: "ple", ast.Gt: "pgt", ast.GtE: "pge",
                   ast.In: "pin", ast.NotIn: "pnot_in"}
            fn = fns.get(type(op))
            if fn is None:
                raise Unsupported(node, "comparison")
            return self.expr(cx, env, node.left, lambda a: self.expr(
                cx, env, right, lambda b: self.bindk(
                    cx, "%s %s %s" % (fn, a, b), k)))
        if isinstance(node, ast.BoolOp):
            return self.boolop(cx, env, node.op, node.values, k)
        if isinstance(node, ast.Tuple):
            return self.seq(cx, env, node.elts, lambda items: k(
                "(PTuple [%s])" % ";".join(items)))
        if isinstance(node, ast.List):
            return self.seq(cx, env, node.elts, lambda items: k(
                "(PList [%s])" % ";".join(items)))
        if isinstance(node, ast.Dict):
            pairs = [ast.Tuple(elts=[a, b], ctx=ast.Load())
                     for a, b in zip(node.keys, node.values)]
            return self.seq(cx, env, pairs, lambda items: k(
                "(PList [%s])" % ";".join(items)))
        if isinstance(node, ast.JoinedStr):
            parts = []
            for val in node.values:
                if isinstance(val, ast.Constant):
                    parts.append(val)
                elif isinstance(val, ast.FormattedValue) and \
                        val.conversion == -1 and val.format_spec is None:
                    parts.append(val.value)
                else:
                    raise Unsupported(val, "f-string part")
            return self.seq(cx, env, parts, lambda items: self.bindk(
                cx, "pfmt [%s]" % ";".join(items), k))
        if isinstance(node, ast.Subscript):
            return self.subscript(cx, env, node, k)
        if isinstance(node, ast.Call):
            return self.call(cx, env, node, k)
        raise Unsupported(node, "expression")

    def bindk(self, cx, term, k):
        var = cx.fresh("t")
        return "%s <- %s ;;\n%s" % (var, term, k(var))

    def seq(self, cx, env, nodes, k):
        def go(i, acc):
            if i == len(nodes):
                return k(acc)
            return self.expr(cx, env, nodes[i],
                             lambda a: go(i + 1, acc + [a]))
        return go(0, [])

    def boolop(self, cx, env, op, values, k):
        join = cx.fresh("j")
        arg = cx.fresh("b")

        def go(i):
            if i == len(values) - 1:
                return self.expr(cx, env, values[i],
                                 lambda a: "%s %s" % (join, a))
            cont = go(i + 1)
            if isinstance(op, ast.And):
                return self.expr(
                    cx, env, values[i], lambda a:
                    "if truthy %s then (%s) else %s %s" % (a, cont, join, a))
            return self.expr(
                cx, env, values[i], lambda a:
                "if truthy %s then %s %s else (%s)" % (a, join, a, cont))
        return "let %s := fun (%s : pv) => (%s) in\n%s" % (
            join, arg, k(arg), go(0))

    def percent(self, cx, env, node, k):
        fmt = node.left.value
        pieces = re.split(r"(%s|%d)", fmt)
        args = node.right.elts if isinstance(node.right, ast.Tuple) \
            else [node.right]
        nodes, ai = [], 0
        for piece in pieces:
            if piece in ("%s", "%d"):
                if ai >= len(args):
                    raise Unsupported(node, "format arity")
                nodes.append(args[ai])
                ai += 1
            elif piece:
                if "%" in piece.replace("%%", ""):
                    raise Unsupported(node, "format directive")
                nodes.append(ast.Constant(value=piece.replace("%%", "%")))
        if ai != len(args):
            raise Unsupported(node, "format arity")
        return self.seq(cx, env, nodes, lambda items: self.bindk(
            cx, "pfmt [%s]" % ";".join(items), k))

    def subscript(self, cx, env, node, k):
        sl = node.slice
        if isinstance(sl, ast.Slice):
            if sl.step is not None:
                raise Unsupported(node, "slice step")
            none = ast.Constant(value=None)
            return self.expr(cx, env, node.value, lambda v: self.expr(
                cx, env, sl.lower or none, lambda lo: self.expr(
                    cx, env, sl.upper or none, lambda hi: self.bindk(
                        cx, "pslice %s %s %s" % (v, lo, hi), k))))
        if isinstance(sl, ast.Constant) and isinstance(sl.value, int):
            return self.expr(cx, env, node.value, lambda v: self.bindk(
                cx, "pindex %s %s" % (v, zl(sl.value)), k))
        raise Unsupported(node, "subscript")

    def call(self, cx, env, node, k):
        fn = node.func
        fname = self.dotted(fn)
        is_ctor = bool(fname) and fname.split(".")[-1][:1].isupper()
        if node.keywords and fname not in self.callees and \
                fname not in self.inline and fname not in self.externs \
                and not is_ctor:
            raise Unsupported(node, "keywords")
        if fname in ("min", "max") and len(node.args) >= 2:
            op = "pmin2" if fname == "min" else "pmax2"

            def fold(items):
                def go(i, acc):
                    if i == len(items):
                        return k(acc)
                    return self.bindk(cx, "%s %s %s" % (op, acc, items[i]),
                                      lambda v: go(i + 1, v))
                return go(1, items[0])
            return self.seq(cx, env, node.args, fold)
        if isinstance(fn, ast.Attribute) and fn.attr == "find" and \
                len(node.args) == 3:
            return self.expr(cx, env, fn.value, lambda v: self.seq(
                cx, env, node.args, lambda it: self.bindk(
                    cx, "pfind %s %s %s %s" % (v, it[0], it[1], it[2]), k)))
        # x.endswith(c) / x.startswith(c) for a non-empty constant c is the
        # slice comparison x[-n:] == c / x[:n] == c (same term either way)
        if isinstance(fn, ast.Attribute) and \
                fn.attr in ("endswith", "startswith") and \
                len(node.args) == 1 and not node.keywords and \
                isinstance(node.args[0], ast.Constant) and \
                isinstance(node.args[0].value, (bytes, str)) and \
                len(node.args[0].value) > 0:
            size = len(node.args[0].value)
            if fn.attr == "endswith":
                sl = ast.Slice(lower=ast.UnaryOp(
                    op=ast.USub(), operand=ast.Constant(value=size)),
                    upper=None, step=None)
            else:
                sl = ast.Slice(lower=None, upper=ast.Constant(value=size),
                               step=None)
            cmp_ = ast.Compare(
                left=ast.Subscript(value=fn.value, slice=sl, ctx=ast.Load()),
                ops=[ast.Eq()], comparators=[node.args[0]])
            return self.expr(cx, env, ast.copy_location(cmp_, node), k)
        if fname == "len" and len(node.args) == 1:
            return self.expr(cx, env, node.args[0], lambda a: self.bindk(
                cx, "plen %s" % a, k))
        if fname == "int" and len(node.args) == 1:
            return self.expr(cx, env, node.args[0], lambda a: self.bindk(
                cx, "pint %s" % a, k))
        if fname == "tuple" and len(node.args) == 1:
            return self.expr(cx, env, node.args[0], k)
        if fname == "time" and not node.args and self.time_var:
            return k(env["__clock"])
        if fname == "str" and len(node.args) == 1:
            obj = self.dotted(node.args[0])
            if obj is not None and ("%s.__class__" % obj) in env:
                return self.inline_str(cx, env, obj, node, k)
            return self.expr(cx, env, node.args[0], lambda a: self.bindk(
                cx, "pfmt [%s]" % a, k))
        # hash(text.encode()).hexdigest()
        if isinstance(fn, ast.Attribute) and fn.attr == "hexdigest" and \
                isinstance(fn.value, ast.Call):
            inner = fn.value
            hname = self.dotted(inner.func)
            if hname in self.externs and len(inner.args) == 1:
                arg = inner.args[0]
                if isinstance(arg, ast.Call) and \
                        isinstance(arg.func, ast.Attribute) and \
                        arg.func.attr == "encode" and not arg.args:
                    return self.expr(
                        cx, env, arg.func.value, lambda a:
                        k("(PStr (%s (pstr %s)))" % (self.externs[hname], a)))
            raise Unsupported(node, "hash call shape")
        if fname in self.callees:
            gen, params, defaults = self.callees[fname]
            actual = list(node.args)
            kw = {w.arg: w.value for w in node.keywords}
            nodes = []
            for i, p in enumerate(params):
                if i < len(actual):
                    nodes.append(actual[i])
                elif p in kw:
                    nodes.append(kw[p])
                elif p in defaults:
                    nodes.append(defaults[p])
                else:
                    raise Unsupported(node, "missing argument %s" % p)
            extra = " " + env["__clock"] if self.time_var else ""
            return self.seq(cx, env, nodes, lambda items: self.bindk(
                cx, "%s %s%s" % (gen, " ".join(items), extra), k))
        if fname in self.externs and not isinstance(self.externs[fname], str):
            return self.externs[fname](self, cx, env, node, k)
        if is_ctor:
            # opaque constructor: (class name, positional..., keywords...)
            nodes = list(node.args) + [w.value for w in node.keywords]
            return self.seq(cx, env, nodes, lambda items: k(
                "(PTuple [%s])" % ";".join(
                    ["PStr %s" % strlit(fname.split(".")[-1])] + items)))
        raise Unsupported(node, "call")

    def inline_str(self, cx, env, obj, node, k):
        cls = self.inline[env["%s.__class__" % obj][1:]]
        meth = [n for n in cls.body if isinstance(n, ast.FunctionDef)
                and n.name == "__str__"]
        if len(meth) != 1 or len(meth[0].body) != 1 or \
                not isinstance(meth[0].body[0], ast.Return):
            raise Unsupported(node, "__str__ shape")
        sub = dict(env)
        for key, val in env.items():
            if key.startswith(obj + "."):
                sub["self." + key[len(obj) + 1:]] = val
        return self.expr(cx, sub, meth[0].body[0].value, k)

    # ------------------------------------------------------------ statements
    def assigned(self, stmts):
        out = []

        def tgt(t):
            if isinstance(t, ast.Tuple):
                for e in t.elts:
                    tgt(e)
            else:
                out.append(t)
        for st in stmts:
            for node in ast.walk(st):
                if isinstance(node, ast.Assign):
                    for t in node.targets:
                        tgt(t)
                elif isinstance(node, ast.AugAssign):
                    tgt(node.target)
                elif isinstance(node, (ast.Yield,)):
                    out.append(ast.Name(id="__out"))
                elif isinstance(node, ast.Delete):
                    out.extend(t.value for t in node.targets
                               if isinstance(t, ast.Subscript))
                elif isinstance(node, ast.Call) and \
                        self.dotted(node.func) in self.streams:
                    # a read changes the stream object and the read log
                    out.append(ast.Name(id="__log"))
                    out.append(node.func.value)
                elif isinstance(node, ast.Call) and \
                        isinstance(node.func, ast.Attribute) and \
                        node.func.attr in ("append", "add", "clear"):
                    out.append(node.func.value)
        return out

    def names_assigned(self, stmts):
        names = []
        for t in self.assigned(stmts):
            if isinstance(t, ast.Subscript):
                t = t.value
            name = self.dotted(t)
            if name is None:
                raise Unsupported(t, "assignment target")
            name = self.aliases.get(name, name)
            if name not in names:
                names.append(name)
        return names

    def assign(self, cx, env, target, term):
        """returns new env"""
        if isinstance(target, ast.Subscript):
            raise Unsupported(target, "subscript store")
        name = self.dotted(target)
        if name is None:
            raise Unsupported(target, "assignment target")
        name = self.aliases.get(name, name)
        env = dict(env)
        env[name] = term
        return env

    def block(self, cx, env, stmts, kend, loopk=None):
        """kend: env -> code, called at fall-through.
        loopk: (continue_k, ) inside loops."""
        if not stmts:
            return kend(env)
        st, rest = stmts[0], stmts[1:]

        def after(env2):
            return self.block(cx, env2, rest, kend, loopk)
        if isinstance(st, ast.Expr) and isinstance(st.value, ast.Constant):
            return after(env)                       # docstring
        if isinstance(st, ast.Expr) and isinstance(st.value, ast.Call):
            callee = self.dotted(st.value.func) or ""
            if callee.startswith("log."):
                return after(env)
            return self.effect_call(cx, env, st.value, after)
        if isinstance(st, ast.Expr) and isinstance(st.value, ast.Yield):
            cx.is_generator = True
            return self.expr(cx, env, st.value.value, lambda a: (
                lambda v: "%s <- pappend %s %s ;;\n%s" % (
                    v, env["__out"], a,
                    after(dict(env, __out=v))))(cx.fresh("out")))
        if isinstance(st, ast.Assign):
            if len(st.targets) == 1 and isinstance(st.targets[0], ast.Tuple):
                elts = st.targets[0].elts
                if len(elts) != 2:
                    raise Unsupported(st, "unpack arity")
                if isinstance(st.value, ast.Tuple) and \
                        len(st.value.elts) == 2:
                    return self.seq(cx, env, st.value.elts, lambda it: after(
                        self.assign(cx, self.assign(cx, env, elts[0], it[0]),
                                    elts[1], it[1])))
                a, b = cx.fresh("u"), cx.fresh("u")
                return self.expr(cx, env, st.value, lambda v: (
                    "pr <- punpack2 %s ;; let '(%s, %s) := pr in\n%s" % (
                        v, a, b, after(self.assign(
                            cx, self.assign(cx, env, elts[0], a),
                            elts[1], b)))))
            # x = y = e ; obj = Class(...)
            if isinstance(st.value, ast.Call) and \
                    self.dotted(st.value.func) in self.inline and \
                    len(st.targets) == 1:
                return self.construct(cx, env, st.targets[0], st.value,
                                      after)
            if len(st.targets) == 1 and \
                    isinstance(st.targets[0], ast.Subscript):
                sub = st.targets[0]
                return self.effect(cx, env, sub.value, "set",
                                   [sub.slice, st.value], after)
            if len(st.targets) == 1 and \
                    self.dotted(st.targets[0]) in self.skip_names:
                return after(env)

            if isinstance(st.value, ast.Call) and \
                    self.dotted(st.value.func) in self.streams and \
                    len(st.value.args) == 1 and len(st.targets) == 1:
                fobj = self.dotted(st.value.func).rsplit(".", 1)[0]
                data, fnew, lnew = cx.fresh("data"), cx.fresh("file"), \
                    cx.fresh("log")

                def after_read(arg):
                    env2 = self.assign(cx, env, st.targets[0], data)
                    env2[fobj] = fnew
                    env2["__log"] = lnew
                    return ("pr <- stream_read %s %s ;; "
                            "let '(%s, %s) := pr in\n"
                            "n_ <- plen %s ;;\n"
                            "%s <- pappend %s (PTuple [%s; n_]) ;;\n%s" % (
                                env[fobj], arg, data, fnew, data, lnew,
                                env["__log"], arg, after(env2)))
                return self.expr(cx, env, st.value.args[0], after_read)

            def bind_all(v):
                name = cx.fresh(self.dotted(st.targets[0]) or "x")
                env2 = env
                for t in st.targets:
                    env2 = self.assign(cx, env2, t, name)
                return "let %s := %s in\n%s" % (name, v, after(env2))
            return self.expr(cx, env, st.value, bind_all)
        if isinstance(st, ast.AugAssign):
            ops = {ast.Add: ast.Add(), ast.Sub: ast.Sub(),
                   ast.Mult: ast.Mult()}
            if type(st.op) not in ops:
                raise Unsupported(st, "augmented operator")
            load = ast.parse(ast.unparse(st.target), mode="eval").body
            node = ast.BinOp(left=load, op=st.op, right=st.value)
            ast.copy_location(node, st)
            return self.block(cx, env, [ast.Assign(
                targets=[st.target], value=node, lineno=st.lineno)] + rest,
                kend, loopk)
        if isinstance(st, ast.Return):
            if cx.is_generator or any(isinstance(n, ast.Yield) for n in
                                      ast.walk(cx.fundef)):
                return "Ok %s" % env["__out"]
            if st.value is None:
                if cx.result is not None:
                    return cx.result(env)
                return "Ok PNone"
            if cx.retwrap is not None:
                return self.expr(cx, env, st.value,
                                 lambda a: cx.retwrap(env, a))
            return self.expr(cx, env, st.value, lambda a: "Ok %s" % a)
        if isinstance(st, ast.Raise):
            exc = st.exc
            if isinstance(exc, ast.Call):
                cname = (self.dotted(exc.func) or "?").split(".")[-1]
                if exc.args:
                    return self.expr(
                        cx, env, exc.args[0], lambda a:
                        'Err (Raised "%s" %s)' % (cname, a))
                return 'Err (Raised "%s" PNone)' % cname
            raise Unsupported(st, "raise")
        if isinstance(st, ast.Continue):
            if loopk is None:
                raise Unsupported(st, "continue outside loop")
            return loopk(env)
        if isinstance(st, ast.Break):
            if cx.breakk is None:
                raise Unsupported(st, "break outside while")
            return cx.breakk(env)
        if isinstance(st, ast.While):
            return self.while_loop(cx, env, st, after)
        if isinstance(st, ast.Delete):
            if len(st.targets) == 1 and \
                    isinstance(st.targets[0], ast.Subscript):
                sub = st.targets[0]
                return self.effect(cx, env, sub.value, "del",
                                   [sub.slice], after)
            raise Unsupported(st, "del")
        if isinstance(st, ast.If):
            names = self.names_assigned(st.body + st.orelse)
            if rest or True:
                join = cx.fresh("k")
                params = [cx.fresh(n) for n in names]
                env_after = dict(env)
                for n, p in zip(names, params):
                    env_after[n] = p
                jcode = after(env_after)

                def jump(e):
                    return "%s %s" % (join, " ".join(
                        e.get(n, "PNone") for n in names)) if names \
                        else "%s tt" % join
                binder = " ".join("(%s : pv)" % p for p in params) \
                    if names else "(_ : unit)"
                body = self.block(cx, env, st.body, jump, loopk)
                orelse = self.block(cx, env, st.orelse, jump, loopk)
                return self.expr(
                    cx, env, st.test, lambda c:
                    "let %s := fun %s => (%s) in\nif truthy %s then (%s)\n"
                    "else (%s)" % (join, binder, jcode, c, body, orelse))
        if isinstance(st, ast.For):
            return self.for_loop(cx, env, st, after)
        raise Unsupported(st, "statement")

    def effect(self, cx, env, objnode, kind, argnodes, after):
        name = self.dotted(objnode)
        name = self.aliases.get(name, name)
        if name not in env:
            raise Unsupported(objnode, "effect on unknown object")
        new = cx.fresh(name)
        return self.seq(cx, env, argnodes, lambda items: (
            "%s <- pappend %s (PTuple [%s]) ;;\n%s" % (
                new, env[name], ";".join(
                    ["PStr %s" % strlit(kind)] + items),
                after(dict(env, **{name: new})))))

    def effect_call(self, cx, env, call, after):
        fn = call.func
        if isinstance(fn, ast.Attribute):
            objname = self.dotted(fn.value)
            objname = self.aliases.get(objname, objname)
            if fn.attr == "append" and len(call.args) == 1 and \
                    objname in env and not objname.endswith("headers"):
                new = cx.fresh(objname)
                return self.expr(cx, env, call.args[0], lambda a: (
                    "%s <- pappend %s %s ;;\n%s" % (
                        new, env[objname], a,
                        after(dict(env, **{objname: new})))))
            if fn.attr == "clear" and not call.args and objname in env:
                return after(dict(env, **{objname: "(PList [])"}))
            if fn.attr in ("add", "add_header") and objname in env:
                return self.effect(cx, env, fn.value, fn.attr, call.args,
                                   after)
            if objname == "self" and fn.attr in ("add_header",):
                return self.effect(
                    cx, env, ast.Attribute(value=fn.value, attr="__headers"),
                    fn.attr, call.args, after)
        raise Unsupported(call, "statement call")

    def construct(self, cx, env, target, call, after):
        cname = self.dotted(call.func)
        cls = self.inline[cname]
        init = [n for n in cls.body if isinstance(n, ast.FunctionDef)
                and n.name == "__init__"][0]
        params = [a.arg for a in init.args.args[1:]]
        defaults = dict(zip(params[len(params) - len(init.args.defaults):],
                            init.args.defaults))
        actual = dict(zip(params, call.args))
        actual.update({w.arg: w.value for w in call.keywords})
        obj = self.dotted(target)
        fields, nodes = [], []
        for st in init.body:
            if not (isinstance(st, ast.Assign) and len(st.targets) == 1 and
                    isinstance(st.targets[0], ast.Attribute) and
                    isinstance(st.value, ast.Name)):
                raise Unsupported(st, "constructor body")
            field, par = st.targets[0].attr, st.value.id
            node = actual.get(par, defaults.get(par))
            if node is None:
                raise Unsupported(call, "constructor argument %s" % par)
            fields.append("%s.%s" % (obj, field))
            nodes.append(node)

        def done(items):
            env2 = dict(env)
            env2["%s.__class__" % obj] = ":" + cname
            code = ""
            for field, item in zip(fields, items):
                var = cx.fresh(field)
                code += "let %s := %s in\n" % (var, item)
                env2[field] = var
            return code + after(env2)
        return self.seq(cx, env, nodes, done)

    def for_loop(self, cx, env, st, after):
        if st.orelse:
            raise Unsupported(st, "for-else")
        carried = [n for n in self.names_assigned(st.body)]
        if isinstance(st.target, ast.Tuple):
            tnames = [self.dotted(e) for e in st.target.elts]
            if len(tnames) != 2:
                raise Unsupported(st, "loop target arity")
        else:
            tnames = [self.dotted(st.target)]
        for n in tnames:
            if n in carried:
                carried.remove(n)
        free = [n for n in env if n not in carried
                and not n.endswith(".__class__")]
        lname = "%s_loop_%d" % (cx.name, len(cx.loops) + 1)
        item, restv = cx.fresh("item"), cx.fresh("rest")
        params = {n: cx.fresh(n) for n in free + carried}
        inner = dict(params)
        inner.update({n: v for n, v in env.items()
                      if n.endswith(".__class__")})

        def again(e):
            return "%s %s %s" % (lname, restv, " ".join(
                e.get(n, "PNone") for n in free + carried))
        if len(tnames) == 1:
            body_env = dict(inner, **{tnames[0]: item})
            body = self.block(cx, body_env, st.body, again, again)
        else:
            a, b = cx.fresh("u"), cx.fresh("u")
            body_env = dict(inner, **{tnames[0]: a, tnames[1]: b})
            body = "pr <- punpack2 %s ;; let '(%s, %s) := pr in\n%s" % (
                item, a, b, self.block(cx, body_env, st.body, again, again))
        done = after(dict(inner))
        sig = " ".join("(%s : pv)" % params[n] for n in free + carried)
        cx.loops.append(
            "Fixpoint %s (items : list pv) %s {struct items} : res pv :=\n"
            "  match items with\n  | [] => (%s)\n  | %s :: %s => (%s)\n  end."
            % (lname, sig, done, item, restv, body))
        return self.expr(cx, env, st.iter, lambda it: (
            "items <- piter %s ;;\n%s items %s" % (
                it, lname, " ".join(env.get(n, "PNone")
                                    for n in free + carried))))

    def while_loop(self, cx, env, st, after):
        """Fixpoint on explicit fuel; the test is evaluated first, one unit
        of fuel is used per execution of the body"""
        if st.orelse:
            raise Unsupported(st, "while-else")
        carried = self.names_assigned(st.body)
        if any(isinstance(n, ast.Call) and self.dotted(n.func) in self.streams
               for n in ast.walk(st)):
            for extra in ("__log",) + tuple(
                    m.rsplit(".", 1)[0] for m in self.streams):
                if extra not in carried:
                    carried.append(extra)
        free = [n for n in env if n not in carried
                and not n.endswith(".__class__")]
        lname = "%s_loop_%d" % (cx.name, len(cx.loops) + 1)
        params = {n: cx.fresh(n) for n in free + carried}
        inner = dict(params)
        inner.update({n: v for n, v in env.items()
                      if n.endswith(".__class__")})
        order = free + carried

        def again(e):
            return "%s fuel_ %s" % (lname, " ".join(
                e.get(n, "PNone") for n in order))
        exitn = cx.fresh("exit")

        def leave(e):
            return "%s %s" % (exitn, " ".join(
                e.get(n, "PNone") for n in order))
        saved = cx.breakk
        cx.breakk = leave
        body = self.block(cx, inner, st.body, again, again)
        cx.breakk = saved
        exit_params = {n: cx.fresh(n) for n in order}
        exit_env = dict(exit_params)
        exit_env.update({n: v for n, v in env.items()
                         if n.endswith(".__class__")})
        done = after(exit_env)
        sig = " ".join("(%s : pv)" % params[n] for n in order)
        esig = " ".join("(%s : pv)" % exit_params[n] for n in order)
        test = self.expr(
            cx, inner, st.test, lambda c:
            "if truthy %s then\n match fuel with\n | O => Err (Raised "
            "\"OutOfFuel\" PNone)\n | S fuel_ => (%s)\n end\nelse %s" % (
                c, body, leave(inner)))
        cx.loops.append(
            "Fixpoint %s (fuel : nat) %s {struct fuel} : res pv :=\n"
            "let %s := fun %s => (%s) in\n%s." % (
                lname, sig, exitn, esig, done, test))
        return "%s fuel %s" % (lname, " ".join(
            env.get(n, "PNone") for n in order))

    # ------------------------------------------------------------ functions
    def function(self, fundef, gen_name, params, extra_params=(),
                 init_env=None, body=None, result=None, retwrap=None,
                 fuel=False):
        cx = Ctx(self, gen_name)
        cx.fundef = fundef
        cx.result = result
        cx.retwrap = retwrap
        cx.breakk = None
        env = dict(init_env or {})
        for p in params:
            env[p] = mangle(p)
        if self.time_var:
            env["__clock"] = self.time_var
        is_gen = any(isinstance(n, ast.Yield) for n in ast.walk(fundef))
        if is_gen:
            env["__out"] = "(PList [])"
            cx.is_generator = True
        stmts = body if body is not None else fundef.body

        def end(e):
            if result is not None:
                return result(e)
            if is_gen:
                return "Ok %s" % e["__out"]
            return "Ok PNone"
        code = self.block(cx, env, stmts, end)
        sig = " ".join("(%s : pv)" % mangle(p) for p in params)
        sig += "".join(" (%s : pv)" % p for p in extra_params)
        if fuel:
            sig += " (fuel : nat)"
        text = "\n\n".join(cx.loops + [
            "Definition %s %s : res pv :=\n%s." % (gen_name, sig, code)])
        self.defs.append(text)
        return text

    def write(self, filename, header, section_vars=()):
        os.makedirs(GEN, exist_ok=True)
        out = ["(* GENERATED by harness/py2v.py from %s -- do not edit *)"
               % header,
               "From Coq Require Import ZArith List Bool String.",
               "Require Import PW.lib.Val PW.lib.Dec PW.lib.Py.",
               "Import ListNotations.", "Open Scope string_scope.",
               "Open Scope list_scope.", "Open Scope Z_scope.", ""]
        if section_vars:
            out.append("Section Gen.")
            for v, ty in section_vars:
                out.append("Variable %s : %s." % (v, ty))
        out += self.defs
        if section_vars:
            out.append("End Gen.")
        path = os.path.join(GEN, filename)
        text = "\n\n".join(out) + "\n"
        old = open(path).read() if os.path.exists(path) else None
        if old != text:
            with open(path, "w") as f:
                f.write(text)
        return path


def find_function(tree, name, cls=None):
    body = tree.body
    if cls:
        body = [n for n in tree.body if isinstance(n, ast.ClassDef)
                and n.name == cls][0].body
    return [n for n in body if isinstance(n, ast.FunctionDef)
            and n.name == name][0]


def parse(rel):
    return ast.parse(open(os.path.join(REPO, rel)).read())


def state_consts():
    consts = {}
    for node in parse("poorwsgi/state.py").body:
        if isinstance(node, ast.Assign) and len(node.targets) == 1 and \
                isinstance(node.targets[0], ast.Name) and \
                isinstance(node.value, ast.Constant) and \
                isinstance(node.value.value, int):
            consts[node.targets[0].id] = node.value.value
    return consts


# ---------------------------------------------------------------- targets
def gen_token():
    """session.get_token / check_token -> gen/TokenGen.v"""
    tree = parse("poorwsgi/session.py")
    get = find_function(tree, "get_token")
    chk = find_function(tree, "check_token")

    def sig(fun):
        params = [a.arg for a in fun.args.args]
        defaults = dict(zip(params[len(params) - len(fun.args.defaults):],
                            fun.args.defaults))
        return params, defaults
    gp, gd = sig(get)
    unit = Unit(externs={"sha256": "H"}, time_var="clock",
                callees={"get_token": ("gen_get_token", gp, gd)})
    unit.function(get, "gen_get_token", gp, extra_params=("clock",))
    cp, _ = sig(chk)
    unit.function(chk, "gen_check_token", cp, extra_params=("clock",))
    return unit.write("TokenGen.v", "poorwsgi/session.py get_token, "
                      "check_token", [("H", "list Z -> list Z")])


def find_if(fun, test_text):
    for node in ast.walk(fun):
        if isinstance(node, ast.If) and ast.unparse(node.test) == test_text:
            return node
    raise Unsupported(fun, "no `if %s`" % test_text)


def gen_range():
    """response.py: make_partial, the range block of __start_response__,
    GeneratorResponse.__range_generator__ -> gen/RangeGen.v"""
    tree = parse("poorwsgi/response.py")
    htree = parse("poorwsgi/headers.py")
    crange = [n for n in htree.body if isinstance(n, ast.ClassDef)
              and n.name == "ContentRange"][0]
    unit = Unit(consts=state_consts(),
                aliases={"self.content_length": "self._content_length",
                         "self.ranges": "self._ranges",
                         "self.status_code": "self.__status_code"},
                inline={"ContentRange": crange})
    unit.skip_names = {"stack_record"}
    # make_partial
    mp = find_function(tree, "make_partial", "BaseResponse")
    unit.function(
        mp, "gen_make_partial",
        ["self.__status_code", "self.__headers", "self._ranges",
         "self._units", "ranges", "units"],
        result=lambda e: "Ok (PTuple [%s;%s;%s])" % (
            e["self._units"], e["self.__headers"], e["self._ranges"]))
    # the range block
    sr = find_function(tree, "__start_response__", "BaseResponse")
    blk = find_if(sr, "self._ranges and self._units == 'bytes'")
    unit.function(
        sr, "gen_range_block",
        ["self._content_length", "self._ranges", "self.__headers",
         "self._start", "self._end", "self.__status_code"],
        body=blk.body,
        result=lambda e: "Ok (PTuple [%s;%s;%s;%s;%s])" % (
            e["self._start"], e["self._end"], e["self._content_length"],
            e["self.__status_code"], e["self.__headers"]))
    # the chunk generator
    rg = find_function(tree, "__range_generator__", "GeneratorResponse")
    unit.function(rg, "gen_range_generator",
                  ["self.__generator", "self._start", "self._end"])
    return unit.write("RangeGen.v", "poorwsgi/response.py make_partial, "
                      "__start_response__ range block, __range_generator__")


def gen_cached():
    """request.CachedInput.read / readline -> gen/CachedGen.v"""
    tree = parse("poorwsgi/request.py")
    unit = Unit(time_var="clock")
    unit.streams = {"self.__file.read"}
    state = ["self.__buffer", "self.__todo", "self.__file", "self.__timeout",
             "self.block_size"]

    def wrap(env, value):
        return "Ok (PTuple [%s;%s;%s;%s;%s])" % (
            value, env["self.__buffer"], env["self.__todo"],
            env["self.__file"], env["__log"])
    for name, fuel in (("read", False), ("readline", True)):
        fun = find_function(tree, name, "CachedInput")
        unit.function(fun, "gen_cached_" + name, state + ["size"],
                      extra_params=("clock",),
                      init_env={"__log": "(PList [])"}, retwrap=wrap,
                      fuel=fuel)
    return unit.write("CachedGen.v", "poorwsgi/request.py CachedInput.read, "
                      "readline")


TARGETS = {"token": gen_token, "range": gen_range, "cached": gen_cached}


OUTPUT = {"token": "TokenGen.v", "range": "RangeGen.v",
          "cached": "CachedGen.v"}


_PLUGINS_LOADED = []


def load_plugins():
    """further targets live in harness/py2v_<name>.py, each with a
    register(TARGETS, OUTPUT) function (kept apart so that one target's
    translator extensions cannot disturb another's generated text)"""
    if _PLUGINS_LOADED:
        return
    _PLUGINS_LOADED.append(True)
    import glob
    import importlib
    here = os.path.dirname(os.path.abspath(__file__))
    if here not in sys.path:
        sys.path.insert(0, here)
    for path in sorted(glob.glob(os.path.join(here, "py2v_*.py"))):
        mod = importlib.import_module(os.path.basename(path)[:-3])
        mod.register(TARGETS, OUTPUT)


def regenerate(names=None):
    """rewrite coq/gen/*.v from the current source; returns {target: error
    text or None}.  A target that cannot be translated loses its generated
    file, so every proof that depends on it stops compiling."""
    result = {}
    load_plugins()
    for name in names or sorted(TARGETS):
        try:
            TARGETS[name]()
            result[name] = None
        except (Unsupported, IndexError, KeyError, SyntaxError, OSError,
                AttributeError, TypeError, ValueError) as err:
            result[name] = "%s: %s" % (type(err).__name__, err)
            # nothing stale may discharge an obligation: the generated
            # source and every compiled form of it go away (dependants then
            # fail to load)
            base = os.path.join(GEN, OUTPUT[name])[:-2]
            for ext in (".v", ".vo", ".vos", ".vok", ".glob"):
                if os.path.exists(base + ext):
                    os.unlink(base + ext)
    return result


def main(argv):
    rc = 0
    for name, err in regenerate(argv or None).items():
        if err:
            print("UNSUPPORTED %s: %s" % (name, err))
            rc = 1
        else:
            print("generated %s" % name)
    return rc


if __name__ == "__main__":
    # run as the module `py2v` so that plugins share this module's classes
    sys.path.insert(0, os.path.dirname(os.path.abspath(__file__)))
    import py2v as _self
    sys.exit(_self.main(sys.argv[1:]))
