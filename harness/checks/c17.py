"""C17 a response depends only on its own request and the configuration:
obligations + correspondence of the debug_info table merge + state census +
history differential + deterministic interleavings (baton scheduler)."""
import io
import itertools
import os
import re
import shutil
import sys
import tempfile
import threading
import types

import implrun  # noqa: F401
from implrun import new_app, environ, call
from core import zlit, clist

IMPORTS = "Require Import PW.model.Isolation."
_local = threading.local()


# ------------------------------------------------------------------ scheduler
class Baton:
    """runs worker threads one at a time; workers give the baton back at
    switch points; the order is dictated by a schedule (list of worker ids)"""
    def __init__(self, nworkers):
        self.go = [threading.Event() for _ in range(nworkers)]
        self.back = threading.Event()
        self.done = [False] * nworkers
        self.stuck = False

    def point(self):
        idx = getattr(_local, "idx", None)
        if idx is None:
            return                      # solo run on the main thread
        self.back.set()
        if not self.go[idx].wait(20):
            self.stuck = True
            raise RuntimeError("scheduler stuck")
        self.go[idx].clear()

    def worker(self, idx, fun, out):
        _local.idx = idx
        _local.baton = self
        self.go[idx].wait(20)
        self.go[idx].clear()
        try:
            out[idx] = fun()
        finally:
            self.done[idx] = True
            _local.idx = None
            self.back.set()

    def run(self, funs, schedule):
        out = [None] * len(funs)
        threads = [threading.Thread(target=self.worker, args=(i, f, out),
                                    daemon=True)
                   for i, f in enumerate(funs)]
        for t in threads:
            t.start()
        order = list(schedule)
        while not all(self.done):
            idx = order.pop(0) if order else self.done.index(False)
            if self.done[idx]:
                continue
            self.back.clear()
            self.go[idx].set()
            if not self.back.wait(20):
                self.stuck = True
                break
        for t in threads:
            t.join(5)
        return out


def switch_point():
    baton = getattr(_local, "baton", None)
    if baton is not None and getattr(_local, "idx", None) is not None:
        baton.point()


# ------------------------------------------------------------------ apps
class KeyErr(KeyError):
    pass


def build_app(which, docroot):
    from poorwsgi.response import Response, GeneratorResponse, abort
    from poorwsgi.headers import parse_range
    from poorwsgi.digest import check_digest, hexdigest
    from poorwsgi.session import PoorSession
    app = new_app(debug=(which == "A"), secret_key="k" * 16,
                  document_root=docroot, document_index=(which == "B"))
    app.auth_type = "Digest"
    app.auth_map = {"R": {"u": hexdigest("u", "R", "pw")}}
    tag = which

    def rec(req, label):
        lst = req.environ.get("verif.rec")
        entry = (label, req.path, req.method, sorted(dict(req.args).items())
                 if hasattr(req, "args") else None, req.uri_rule)
        if lst is not None:
            req_lst = req._SimpleRequest__environ["verif.rec"]
            req_lst.append(entry)
        switch_point()

    @app.before_response()
    def before(req):
        rec(req, "before")

    @app.after_response()
    def after(req, res):
        rec(req, "after")
        return res

    # uneven hook tables (the debug page lines the two tables up)
    if which == "A":
        @app.after_response()
        def after2(req, res):
            rec(req, "after2")
            return res
    else:
        @app.before_response()
        def before2(req):
            rec(req, "before2")

    @app.route("/hit")
    def hit(req):
        rec(req, "hit-in")
        out = "hit-%s-%s" % (tag, req.args.getfirst("q", ""))
        rec(req, "hit-out")
        return out

    @app.route("/json")
    def json_(req):
        rec(req, "json")
        return {"app": tag, "q": req.args.getlist("q")}

    @app.route("/post", method=4)
    def post(req):
        rec(req, "post")
        return {"form": {k: req.form.getvalue(k) for k in req.form.keys()}
                if hasattr(req.form, "keys") else None,
                "json": req.json if isinstance(req.json, (dict, list))
                else None}

    @app.route("/abort403")
    def abort403(req):
        rec(req, "abort")
        abort(403)

    @app.route("/abort418")
    def abort418(req):
        abort(418)

    @app.route("/abort200")
    def abort200(req):
        abort(200)

    @app.route("/abort0")
    def abort0(req):
        abort(0)

    @app.route("/crash")
    def crash(req):
        rec(req, "crash")
        raise ValueError("boom-" + tag)

    @app.route("/keyerr")
    def keyerr(req):
        raise KeyErr("k")

    @app.route("/range")
    def range_(req):
        res = Response(b"0123456789" * 3)
        if "Range" in req.headers:
            res.make_partial(parse_range(req.headers["Range"])
                             .get("bytes", []))
        return res

    @app.route("/gen")
    def gen(req):
        def body():
            for i in range(3):
                rec(req, "chunk%d" % i)
                yield ("c%d-%s;" % (i, req.args.getfirst("q", ""))).encode()
        return GeneratorResponse(body())

    @app.route("/user/<name:word>/<n:int>")
    def user(req, name, n):
        rec(req, "user")
        return "%s:%d:%s" % (name, n, sorted(req.path_args.items()))

    # overlapping pattern routes: the more specific one registered first
    @app.route("/ov/<uid:int>")
    def ovint(req, uid):
        rec(req, "ovint")
        return "ovint-%d-%s" % (uid, req.uri_rule)

    @app.route("/ov/<name:word>")
    def ovword(req, name):
        rec(req, "ovword")
        return "ovword-%s-%s" % (name, req.uri_rule)

    # a handler that merges the query into whatever containers the request
    # offers (they belong to the request)
    @app.route("/merge", method=511)
    def merge(req):
        out = []
        for name in ("args", "form", "json", "cookies", "path_args"):
            cont = getattr(req, name, None)
            if isinstance(cont, dict):
                out.append((name, sorted((str(k), str(v))
                                         for k, v in cont.items())))
                cont["seen-" + req.query] = req.method
        return repr(out)

    @app.route("/cookie")
    def cookie(req):
        # a session with every on/off option of the class switched on
        import inspect
        opts = {name: True for name, par in inspect.signature(
            PoorSession.__init__).parameters.items()
            if par.default is False}
        sess = PoorSession(app.secret_key, **opts)
        sess.load(req.cookies)
        n = sess.data.get("n", 0) + 1
        sess.data["n"] = n
        res = Response("n=%d" % n)
        sess.header(res)
        return res

    # what cookies the client sent, by name (names that read like cookie
    # attributes included)
    @app.route("/cookienames")
    def cookienames(req):
        return repr(sorted(getattr(req.cookies, "keys", lambda: [])()))

    # answers built from a long-lived constant of the application
    @app.route("/jsonconst")
    def jsonconst(req):
        from poorwsgi.response import JSONResponse
        try:
            return JSONResponse(SERVICE, **{req.query or "q": 1})
        except RuntimeError:
            return JSONResponse(dict(SERVICE, **{req.query or "q": 1}))

    @app.route("/getonly", method=2)
    def getonly(req):
        rec(req, "getonly")
        return "getonly-%s" % tag

    @app.route("/odd299")
    def odd299(req):
        return "queued", "text/plain", None, 299   # not a registered code

    @app.route("/set299")
    def set299(req):
        res = Response("set")
        res.status_code = 299
        return res

    @app.route("/private")
    @check_digest("R")
    def private(req):
        return "private-%s" % req.user

    @app.route("/none")
    def none(req):
        return None

    if which == "A":
        @app.http_state(404)
        def nf(req, *_):
            return "A-404 %s" % req.path, "text/plain"

        @app.error_handler(KeyErr)
        def kerr(req, err):
            return "A-keyerr", "text/plain"

        # a status page that fails itself: with debug on (A) the 500 page
        # shows the traceback chain of this request, and only of this one
        @app.http_state(405)
        def crash405(req, *_):
            raise RuntimeError("405 page failed")
    else:
        @app.default(2)
        def default_get(req):
            return "B-default %s" % req.path
        # documented in-place configuration of B's own tables
        app.json_mime_types.append("application/vnd.verif+json")
        if "multipart/form-data" in app.form_mime_types:
            app.form_mime_types.remove("multipart/form-data")
        app.set_filter("vf", r"[a-c]+", str.upper)
    return app


SERVICE = {"service": "verif", "version": 1}

KINDS = {
    "cookienames": dict(path="/cookienames", headers={
        "Cookie": "theme=dark; partitioned=1; secure=x; httponly=y; lang=cs"}),
    "jsonconst1": dict(path="/jsonconst", query="k1"),
    "jsonconst2": dict(path="/jsonconst", query="k2"),
    "hit": dict(path="/hit", query="q=1"),
    "hit2": dict(path="/hit", query="q=two&q=3"),
    "json": dict(path="/json", query="q=a&q=b"),
    "head": dict(method="HEAD", path="/hit"),
    "405": dict(method="DELETE", path="/hit"),
    "404": dict(path="/nowhere"),
    "404b": dict(path="/nowhere/else", query="x=<1>"),
    "abort403": dict(path="/abort403"),
    "abort418": dict(path="/abort418"),
    "abort200": dict(path="/abort200"),
    "abort200b": dict(path="/abort200", query="again=1"),
    "abort0": dict(path="/abort0"),
    "crash": dict(path="/crash"),
    "keyerr": dict(path="/keyerr"),
    "form": dict(method="POST", path="/post", body=b"a=1&b=2&a=3",
                 content_type="application/x-www-form-urlencoded"),
    "jsonbody": dict(method="POST", path="/post", body=b'{"k": [1, 2]}',
                     content_type="application/json"),
    "badjson": dict(method="POST", path="/post", body=b"{bad",
                    content_type="application/json"),
    "vndjson": dict(method="POST", path="/post", body=b'{"k": 7}',
                    content_type="application/vnd.verif+json"),
    "multipart": dict(method="POST", path="/post",
                      body=b'--bb\r\nContent-Disposition: form-data; '
                      b'name="f"\r\n\r\nv\r\n--bb--\r\n',
                      content_type="multipart/form-data; boundary=bb"),
    "range": dict(path="/range", headers={"Range": "bytes=5-9"}),
    "range416": dict(path="/range", headers={"Range": "bytes=99-"}),
    "suffix": dict(path="/range", headers={"Range": "bytes=-4"}),
    "gen": dict(path="/gen", query="q=g"),
    "static": dict(path="/f.txt"),
    "static304": dict(path="/f.txt", headers={"If-None-Match": "x"}),
    "dir": dict(path="/sub"),
    "debug": dict(path="/debug-info"),
    "auth401": dict(path="/private"),
    "authbad": dict(path="/private",
                    headers={"Authorization": 'Digest username="u", x=1'}),
    "authok": dict(path="/private", headers={"User-Agent": "ua"},
                   digest=("00000001", "c1")),
    "authok2": dict(path="/private", headers={"User-Agent": "ua"},
                    digest=("00000001", "c1")),     # exact repeat
    "authnc": dict(path="/private", headers={"User-Agent": "ua"},
                   digest=("00000000", "c1")),      # lower nc, same cnonce
    # a per-request override of the debug flag stays with its request
    "debugenv": dict(path="/hit", query="q=1", extra={"poor_Debug": "On"}),
    "debugenv500": dict(path="/crash", extra={"poor_Debug": "On"}),
    "debugenvoff": dict(path="/debug-info", extra={"poor_Debug": "Off"}),
    # HEAD on a route registered for GET only
    "headgetonly": dict(method="HEAD", path="/getonly"),
    "getonly": dict(path="/getonly"),
    "odd299": dict(path="/odd299"),
    "set299": dict(path="/set299"),
    "ovword": dict(path="/ov/bob"),
    "ovint": dict(path="/ov/42"),
    "merge1": dict(path="/merge", query="q=1"),
    "merge2": dict(path="/merge", query="q=2"),
    "mergepost": dict(method="POST", path="/merge", query="p=1"),
    "mergenoargs": dict(method="PUT", path="/merge"),
    "user": dict(path="/user/bob/7"),
    "usermiss": dict(path="/user/bob/x"),
    "cookie": dict(path="/cookie"),
    "none": dict(path="/none"),
    "badlen": dict(path="/hit", content_length="abc"),
    "unknownmethod": dict(method="BREW", path="/hit"),
}
SWITCHY = ["hit", "json", "gen", "crash", "abort403", "form", "user", "404"]

_ADDR = re.compile(rb"0x[0-9a-fA-F]+")
_START = re.compile(rb"REQUEST_STARTTIME:</td><td>[^<]*")
_PID = re.compile(rb"os\.[pe][ug]id:</td><td>\d+")
_REC = re.compile(rb"verif\.rec:</td><td>.*?</td>", re.S)
_EXP = re.compile(r"expires=[^;]*")


def canon(ans):
    if ans.raised is not None:
        return ("RAISED", type(ans.raised).__name__)
    hdrs = []
    for k, v in ans.headers or []:
        if k in ("Date", "Last-Modified"):
            v = "<time>"
        if k == "Set-Cookie":
            v = _EXP.sub("expires=<time>", v)
        if k == "WWW-Authenticate":
            v = re.sub(r'nonce="[0-9a-f]+"', 'nonce="<n>"', v)
        hdrs.append((k, v))
    body = ans.body or b""
    body = _ADDR.sub(b"0xADDR", body)
    body = _START.sub(b"REQUEST_STARTTIME:</td><td><t>", body)
    body = _PID.sub(b"os.id", body)
    body = _REC.sub(b"verif.rec", body)
    body = re.sub(rb"\d\d-\w{3}-\d{4} \d\d:\d\d", b"<mtime>", body)
    body = re.sub(rb"verif_\d+_\d+", b"<appname>", body)
    return (ans.status, tuple(hdrs), body)


def digest_authorization(app, method, uri, agent, nc, cnonce):
    """a correct RFC 7616 header for user u of realm R (MD5-sess, auth),
    with the nonce the application issues at the frozen clock"""
    import hashlib
    from poorwsgi.session import get_token

    def md5(text):
        return hashlib.md5(text.encode()).hexdigest()
    nonce = get_token(app.secret_key, agent, timeout=app.auth_timeout)
    opaque = hashlib.sha256(b"example.org").hexdigest()
    ha1 = md5("%s:%s:%s" % (md5("u:R:pw"), nonce, cnonce))
    resp = md5("%s:%s:%s:%s:auth:%s" % (ha1, nonce, nc, cnonce,
                                        md5("%s:%s" % (method, uri))))
    return ('Digest username="u", realm="R", nonce="%s", uri="%s", '
            'algorithm=MD5-sess, response="%s", opaque="%s", qop=auth, '
            'nc=%s, cnonce="%s"' % (nonce, uri, resp, opaque, nc, cnonce))


def do_request(app, kind):
    kw = dict(KINDS[kind])
    dig = kw.pop("digest", None)
    if dig:
        kw["headers"] = dict(kw["headers"], Authorization=digest_authorization(
            app, kw.get("method", "GET"), kw["path"],
            kw["headers"]["User-Agent"], dig[0], dig[1]))
    env = environ(**kw)
    recs = []
    env["verif.rec"] = recs
    ans = call(app, env)
    return canon(ans), recs


def alone_in_child(which, kind, docroot):
    """the answer of one request on a fresh application in a fresh process
    state (fork; the parent has not handled any request yet)"""
    import pickle
    rfd, wfd = os.pipe()
    pid = os.fork()
    if pid == 0:
        code = 1
        try:
            os.close(rfd)
            data = pickle.dumps(do_request(build_app(which, docroot), kind))
            with os.fdopen(wfd, "wb") as out:
                out.write(data)
            code = 0
        finally:
            os._exit(code)
    os.close(wfd)
    with os.fdopen(rfd, "rb") as inp:
        data = inp.read()
    os.waitpid(pid, 0)
    return pickle.loads(data)


# ------------------------------------------------------------------ census
def _c(obj, depth, seen):
    oid = id(obj)
    if isinstance(obj, (str, bytes, int, float, bool, type(None))):
        return repr(obj)
    if depth > 6:
        return "<deep %s>" % type(obj).__name__
    if oid in seen:
        return "<cycle>"
    seen = seen | {oid}
    if isinstance(obj, dict):
        return "{" + ",".join(sorted("%s:%s" % (_c(k, depth + 1, seen),
                                                _c(v, depth + 1, seen))
                                     for k, v in list(obj.items()))) + "}"
    if isinstance(obj, (list, tuple)):
        return "[" + ",".join(_c(x, depth + 1, seen) for x in obj) + "]"
    if isinstance(obj, (set, frozenset)):
        return "{" + ",".join(sorted(_c(x, depth + 1, seen)
                                     for x in obj)) + "}"
    if isinstance(obj, types.ModuleType):
        return "<module %s>" % obj.__name__
    if isinstance(obj, (types.FunctionType, types.BuiltinFunctionType,
                        types.MethodType)):
        extra = _c(dict(getattr(obj, "__dict__", {})), depth + 1, seen) \
            if getattr(obj, "__dict__", None) else ""
        return "<fn %s %s>" % (getattr(obj, "__qualname__", "?"), extra)
    if isinstance(obj, type):
        if not obj.__module__.startswith("poorwsgi"):
            return "<class %s>" % obj.__qualname__
        data = {k: v for k, v in vars(obj).items()
                if not k.startswith("__") or k.endswith("__instances")
                if not isinstance(v, (types.FunctionType, property,
                                      staticmethod, classmethod))}
        return "<class %s %s>" % (obj.__qualname__, _c(data, depth + 1, seen))
    if hasattr(obj, "pattern") and hasattr(obj, "match"):
        return "<re %r>" % obj.pattern
    mod = type(obj).__module__
    if mod.startswith("poorwsgi") or mod.startswith("checks") \
            or mod == "collections":
        try:
            return "<%s %s>" % (type(obj).__name__,
                                _c(dict(vars(obj)), depth + 1, seen))
        except TypeError:
            pass
        if isinstance(obj, dict):
            return _c(dict(obj), depth + 1, seen)
    return "<%s>" % type(obj).__name__


def census(apps):
    import http.client
    snap = {}
    for name, mod in list(sys.modules.items()):
        if name == "poorwsgi" or name.startswith("poorwsgi."):
            for attr, val in list(vars(mod).items()):
                if attr.startswith("__") and attr != "__instances":
                    continue
                snap["%s.%s" % (name, attr)] = _c(val, 0, frozenset())
    snap["http.client.responses"] = _c(http.client.responses, 0, frozenset())
    # the interpreter-wide MIME table as a deployment configured it
    import mimetypes
    snap["mimetypes(.verif)"] = repr(mimetypes.guess_type("a.verif"))
    # other interpreter-wide settings a deployment may have made: warning
    # filters, the logging tree of the package, locale, recursion limit,
    # default socket timeout, the process environment
    import warnings
    import logging
    import locale
    import socket
    snap["warnings.filters"] = repr([(f[0], str(f[1]), f[2].__name__,
                                      str(f[3]), f[4])
                                     for f in warnings.filters])
    plog = logging.getLogger("poorwsgi")
    snap["logging(poorwsgi)"] = repr((plog.level, plog.propagate,
                                      plog.disabled, len(plog.handlers),
                                      logging.root.level,
                                      len(logging.root.handlers)))
    import http.cookies
    snap["http.cookies.Morsel"] = repr((
        sorted(http.cookies.Morsel._reserved.items()),
        sorted(http.cookies.Morsel._flags)))
    snap["verif.SERVICE"] = repr(sorted(SERVICE.items()))
    snap["locale"] = repr(locale.setlocale(locale.LC_ALL))
    snap["sys.limits"] = repr((sys.getrecursionlimit(),
                               socket.getdefaulttimeout(),
                               sorted(k for k in os.environ
                                      if k.startswith("poor"))))
    for i, app in enumerate(apps):
        for attr, val in list(vars(app).items()):
            snap["app%d.%s" % (i, attr)] = _c(val, 0, frozenset())
    return snap


def census_diff(a, b):
    return sorted(k for k in set(a) | set(b) if a.get(k) != b.get(k))


# ------------------------------------------------------------------ check
def run(ctx):
    import mimetypes
    mimetypes.add_type("text/x-verif", ".verif")    # start-up configuration
    import poorwsgi.results as results
    import poorwsgi.wsgi as pwsgi
    import poorwsgi.request as prequest
    import poorwsgi.session as psession
    ctx.check_obligations()
    rng = ctx.rng
    tmp = tempfile.mkdtemp(prefix="c17_", dir="/root/scratch")
    os.makedirs(os.path.join(tmp, "sub"))
    with open(os.path.join(tmp, "f.txt"), "w") as fil:
        fil.write("static-file")
    with open(os.path.join(tmp, "sub", "g.txt"), "w") as fil:
        fil.write("g")
    saved = (pwsgi.time, prequest.time, psession.time)
    frozen = lambda: 1790000000.0   # noqa: E731
    pwsgi.time = prequest.time = psession.time = frozen
    try:
        # ---------------- B. baselines: every request kind alone on a
        # freshly built application in a process that has served nothing
        # (forked from this one before any request was handled here)
        baseline = {}
        for which in ("A", "B"):
            for kind in KINDS:
                baseline[(which, kind)] = alone_in_child(which, kind, tmp)
        # ---------------- A. correspondence: debug_info's table merge
        cases = []
        captured = []
        real_hv = results.handlers_view

        def spy(handlers, sort=True):
            captured.append({k: dict(v) for k, v in handlers.items()})
            return real_hv(handlers, sort)
        results.handlers_view = spy
        try:
            for trial in range(12 if ctx.quick else 120):
                app = new_app(debug=True)
                user_fns = {}
                for code in rng.sample([400, 403, 404, 405, 418, 500, 503],
                                       rng.randint(0, 4)):
                    def fn(req, *a, **k):
                        return "u"
                    fn.__name__ = "user_%d_%d" % (trial, code)
                    user_fns[fn] = 100 + len(user_fns)
                    app.set_http_state(code, fn, rng.choice([2, 4, 6, 511]))
                ids = {}
                for code, table in results.default_states.items():
                    for m, h in table.items():
                        ids.setdefault(h, 1 + len(ids))
                ids.update(user_fns)
                before = {c: dict(t) for c, t in
                          results.default_states.items()}
                user_tab = {c: dict(t) for c, t in app.states.items()}
                captured.clear()
                call(app, environ(path="/debug-info"))
                if len(captured) < 4:
                    ctx.unproved("correspondence merge (handlers_view not "
                                 "called as expected)", {"calls": len(captured)})
                    break
                merged = captured[3]
                after = {c: dict(t) for c, t in
                         results.default_states.items()}

                def enc(tab):
                    return [[c, [[m, ids[h]] for m, h in t.items()]]
                            for c, t in tab.items()]
                heap, dterm, uterm, oid = [], [], [], 0
                for c, t in before.items():
                    oid += 1
                    heap.append("(%d,%s)" % (oid, clist(
                        "(%d,%d)" % (m, ids[h]) for m, h in t.items())))
                    dterm.append("(%d,%d)" % (c, oid))
                for c, t in user_tab.items():
                    oid += 1
                    heap.append("(%d,%s)" % (oid, clist(
                        "(%d,%d)" % (m, ids[h]) for m, h in t.items())))
                    uterm.append("(%d,%d)" % (c, oid))
                cases.append(("run_merge %s %s %s" % (
                    clist(heap), clist(dterm), clist(uterm)),
                    [enc(merged), enc(after)],
                    ["merge", sorted(user_tab)]))
                ctx.case(("merge", trial), bool(user_tab),
                         {"user_status_handlers": sorted(user_tab)})
                if before != after:
                    ctx.violation("debug-info-pollutes-default-states",
                                  {"user": sorted(user_tab)})
        finally:
            results.handlers_view = real_hv
        ctx.correspondence("merge", IMPORTS, cases, lambda p: p)

        # (baselines were computed above, each in a forked child)

        def compare(which, kind, got, where, history):
            want = baseline[(which, kind)]
            if got[0] != want[0]:
                ctx.violation("answer-depends-on-history", {
                    "where": where, "app": which, "request": kind,
                    "history": history, "status": got[0][0],
                    "alone": want[0][0],
                    "diff": "headers" if got[0][:2] != want[0][:2]
                    else "body"})
            elif got[1] != want[1]:
                ctx.violation("request-attributes-differ", {
                    "where": where, "app": which, "request": kind,
                    "history": history})

        # ---------------- C. histories with the census around every request
        kinds = list(KINDS)
        seqs = [(k,) for k in kinds]
        seqs += list(itertools.product(kinds, repeat=2))
        triples = list(itertools.product(kinds, repeat=3))
        seqs += rng.sample(triples, 300 if ctx.quick else 6000)
        if ctx.quick:
            seqs = seqs[:len(kinds)] + rng.sample(seqs[len(kinds):], 500)
        # ordered pairs on one application that every run includes
        must = [("cookie", "cookienames"), ("jsonconst1", "jsonconst2"),
                ("405", "405"), ("404", "405", "405"), ("ovword", "ovint"), ("ovint", "ovword", "ovint"),
                ("merge1", "merge2"), ("merge1", "mergepost"),
                ("mergepost", "mergenoargs"), ("mergenoargs", "merge2"),
                ("authok", "authok2"), ("usermiss", "user"),
                ("debugenv", "debug"), ("set299", "odd299")]
        seqs += must
        for seq in seqs:
            two = rng.random() < 0.4 and seq not in must
            apps = {"A": build_app("A", tmp)}
            if two:
                apps["B"] = build_app("B", tmp)
            hist = []
            for kind in seq:
                which = rng.choice(sorted(apps))
                snap0 = census(list(apps.values()))
                got = do_request(apps[which], kind)
                snap1 = census(list(apps.values()))
                hist.append("%s:%s" % (which, kind))
                diff = census_diff(snap0, snap1)
                ctx.case(("hist", tuple(hist)), len(hist) > 1,
                         {"history": list(hist)})
                ctx.count("history-len-%d" % len(hist))
                if diff:
                    ctx.violation("shared-state-written", {
                        "history": list(hist), "changed": diff[:6]})
                compare(which, kind, got, "history", list(hist))

        # ---------------- C2. configuring one application must not reach
        # another one (already built or built later) nor module state
        SENT = "verif-sentinel"

        def exposed(app):
            out = {}
            for name in dir(type(app)):
                if name.startswith("_") or not isinstance(
                        getattr(type(app), name, None), property):
                    continue
                try:
                    out[name] = getattr(app, name)
                except Exception:   # noqa
                    pass
            return out

        def poke(val):
            """in-place change of a container handed out by a property"""
            if isinstance(val, list):
                val.append(SENT)
            elif isinstance(val, set):
                val.add(SENT)
            elif isinstance(val, dict):
                for inner in list(val.values()):
                    if isinstance(inner, dict):
                        inner[987654] = SENT
                    elif isinstance(inner, list):
                        inner.append(SENT)
                val[SENT] = SENT
        for rnd in range(2 if ctx.quick else 6):
            first = build_app("A", tmp)
            pristine = {k: _c(v, 0, frozenset())
                        for k, v in exposed(first).items() if k != "name"}
            other = build_app("B", tmp)
            snap0 = census([first])
            poked = []
            for name, val in sorted(exposed(other).items()):
                if isinstance(val, (list, set, dict)):
                    poke(val)
                    poked.append(name)
            snap1 = census([first])
            diff = census_diff(snap0, snap1)
            ctx.case(("config-isolation", rnd), True,
                     {"poked_properties_of_other_application": poked})
            ctx.count("config-isolation")
            if diff:
                ctx.violation("configuring-one-application-changes-another", {
                    "poked": poked, "changed": diff[:6]})
            later = build_app("A", tmp)
            for name, val in exposed(later).items():
                if name != "name" and \
                        _c(val, 0, frozenset()) != pristine.get(name):
                    ctx.violation(
                        "configuring-one-application-changes-later-ones",
                        {"poked": poked, "property": name})
            for kind in (kinds if rnd == 0 else rng.sample(kinds, 8)):
                for app, label in ((first, "built-before"),
                                   (later, "built-after")):
                    compare("A", kind, do_request(app, kind),
                            "configuration", [label, poked])

        # ---------------- D. interleavings of in-flight requests
        pairs = list(itertools.combinations_with_replacement(SWITCHY, 2))
        if ctx.quick:
            pairs = rng.sample(pairs, 8)
        scheds2 = sorted(set(itertools.permutations([0] * 4 + [1] * 4)))
        for ka, kb in pairs:
            use = scheds2 if not ctx.quick else rng.sample(scheds2, 12)
            for sched in use:
                apps = {"A": build_app("A", tmp), "B": build_app("B", tmp)}
                wa, wb = rng.choice("AB"), rng.choice("AB")
                baton = Baton(2)
                snap0 = census(list(apps.values()))
                out = baton.run([lambda: do_request(apps[wa], ka),
                                 lambda: do_request(apps[wb], kb)], sched)
                snap1 = census(list(apps.values()))
                ctx.case(("il2", ka, kb, wa, wb, sched), True,
                         {"in_flight": [wa + ":" + ka, wb + ":" + kb],
                          "schedule": list(sched)})
                ctx.count("interleaving-2")
                if baton.stuck or None in out:
                    ctx.unproved("interleaving harness (scheduler stuck)",
                                 {"kinds": [ka, kb], "schedule": list(sched)})
                    continue
                if census_diff(snap0, snap1):
                    ctx.violation("shared-state-written", {
                        "in_flight": [ka, kb], "schedule": list(sched),
                        "changed": census_diff(snap0, snap1)[:6]})
                compare(wa, ka, out[0], "interleaving",
                        [ka, kb, list(sched)])
                compare(wb, kb, out[1], "interleaving",
                        [ka, kb, list(sched)])
        for _ in range(20 if ctx.quick else 400):
            ks = [rng.choice(SWITCHY) for _ in range(3)]
            sched = [0, 1, 2] * 4
            rng.shuffle(sched)
            apps = {"A": build_app("A", tmp), "B": build_app("B", tmp)}
            ws = [rng.choice("AB") for _ in range(3)]
            baton = Baton(3)
            out = baton.run([lambda i=i: do_request(apps[ws[i]], ks[i])
                             for i in range(3)], sched)
            ctx.case(("il3", tuple(ks), tuple(ws), tuple(sched)), True, None)
            ctx.count("interleaving-3")
            if baton.stuck or None in out:
                ctx.unproved("interleaving harness (scheduler stuck)",
                             {"kinds": ks, "schedule": sched})
                continue
            for i in range(3):
                compare(ws[i], ks[i], out[i], "interleaving", [ks, sched])
    finally:
        pwsgi.time, prequest.time, psession.time = saved
        shutil.rmtree(tmp, ignore_errors=True)
    return ctx.finish(
        "request pool of %d kinds (hits, 404/405, aborts, crashes, form/JSON "
        "bodies, ranges, streamed body, static file/304/directory, "
        "debug-info, digest failures, sessions, bad Content-Length) against "
        "application A (debug, custom 404 and exception handler) and B "
        "(uneven hook tables, own mime-type tables and filter) sharing the "
        "process: all histories of length 1-2 and sampled length 3, every "
        "container an Application property hands out poked on one "
        "application and the others (built before and after) compared, each answer compared with a fresh application's answer and the "
        "state census (module globals of poorwsgi.*, http.client.responses, "
        "every Application attribute) taken around every request; all "
        "interleavings of two in-flight requests with 4 switch points each "
        "(hooks, endpoint entry/exit, streamed chunks) and sampled three-way "
        "ones under a baton scheduler, clock frozen" % len(KINDS),
        assumptions=["preemption inside CPython/C code between switch points "
                     "is not explored",
                     "user handler state is the user's; the census covers "
                     "the executed paths only"])
