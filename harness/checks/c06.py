"""C06 Content-Length == bytes sent: obligations + correspondence of the
write-history model + monitor at the WSGI boundary."""
import io
import itertools
import os
import shutil
import tempfile

import implrun  # noqa: F401
from implrun import new_app, environ, call
from core import slit, optz, zlit, clist

IMPORTS = "Require Import PW.model.Range."
SCRATCH = "/root/scratch"
POOL = ["", "a", "Xy", "čř", "\U0001f600", b"\x00\xff", b"bytes", b""]


def enc(x):
    return x.encode("utf-8") if isinstance(x, str) else x


class RawStream(io.RawIOBase):
    """readable, not seekable, no fileno"""
    def __init__(self, data):
        self._b = io.BytesIO(data)

    def readable(self):
        return True

    def seekable(self):
        return False

    def readinto(self, buf):
        data = self._b.read(len(buf))
        buf[:len(data)] = data
        return len(data)


def run(ctx):
    from poorwsgi.response import Response, FileObjResponse, FileResponse, \
        GeneratorResponse, NoContentResponse, NotModifiedResponse, \
        JSONResponse, TextResponse, RedirectResponse, abort
    ctx.check_obligations()
    rng = ctx.rng
    cases = []
    tmpdir = tempfile.mkdtemp(prefix="c06_", dir=SCRATCH)
    cur = {}
    app = new_app()

    @app.route("/r", method=511)
    def handler(req):
        return cur["make"]()

    @app.after_response()
    def peek(req, res):
        # a hook that looks at the finished body (as response validators
        # do); .data is documented to leave the response as it was
        if cur.get("peek") and hasattr(res, "data"):
            cur["peeked"] = len(res.data)
        return res
    asked = {"n": 0}

    class UwsgiWrapper:
        """uWSGI's file wrapper: an object with a descriptor goes out by
        sendfile, whole and from offset 0; anything else in blocks"""
        def __init__(self, filelike, blksize=8192):
            self.filelike, self.blksize = filelike, blksize

        def __iter__(self):
            try:
                fd = self.filelike.fileno()
            except (AttributeError, OSError):
                return iter(lambda: self.filelike.read(self.blksize), b"")
            size = os.fstat(fd).st_size
            return iter([os.pread(fd, size, 0)] if size else [])

        def close(self):
            if hasattr(self.filelike, "close"):
                self.filelike.close()

    def check(label, known_size, sig, detail, expect_nobody=False,
              uwsgi=False):
        asked["n"] += 1
        method = ("GET", "HEAD", "POST", "GET", "PUT")[asked["n"] % 5]
        cur["peek"] = label != "fileobj-raw" and asked["n"] % 3 == 0
        env = environ(method=method, path="/r")
        if uwsgi:
            del env["SERVER_SOFTWARE"]
            env["uwsgi.version"] = b"2.0.21"
            env["wsgi.file_wrapper"] = UwsgiWrapper
        ans = call(app, env)
        detail = dict(detail, method=method, data_read_by_hook=cur["peek"])
        ctx.case(sig, True, dict(detail, kind=label, status=ans.status))
        ctx.count(label)
        if ans.raised or ans.iter_raised or len(ans.calls) != 1:
            ctx.violation("emission-failed", dict(detail, kind=label,
                                                  answer=ans.summary()))
            return ans
        body = ans.body
        cl = ans.header_all("Content-Length")
        bad = None
        if len(cl) > 1:
            bad = "several Content-Length headers %r" % cl
        elif cl:
            if not cl[0].isdigit() or int(cl[0]) != len(body):
                bad = "Content-Length %r but %d body bytes" % (cl[0],
                                                               len(body))
        elif known_size and body:
            bad = "no Content-Length for %d body bytes" % len(body)
        if expect_nobody and body:
            key = "body-on-204" if label == "user-204-304" else "nobody"
            ctx.violation(key, dict(detail, kind=label, status=ans.status,
                                    body_len=len(body)))
        # user-204-304: a body that is sent is the known finding body-on-204;
        # a body that is NOT sent must not be announced either
        if bad and (label != "user-204-304" or not body):
            ctx.violation("clen-mismatch", dict(detail, kind=label, what=bad,
                                                status=ans.status))
        return ans

    try:
        # ---- write histories (exhaustive up to 3/4 from the pool) + ranges
        maxlen = 3 if ctx.quick else 4
        inits = ["Hello", "čau \U0001f600", b"\x00\x01\x02", ""]
        ops_pool = POOL[:5] + [None]          # None = read .data
        hist = []
        for n in range(0, maxlen + 1):
            for seq in itertools.product(ops_pool, repeat=n):
                hist.append(seq)
        if ctx.quick:
            hist = hist[:60] + rng.sample(hist, 200)
        for _ in range(30 if ctx.quick else 4000):
            hist.append(tuple(rng.choice(POOL + [None])
                              for _ in range(rng.randint(5, 12))))
        for seq in hist:
            init = rng.choice(inits)
            L = len(enc(init)) + sum(len(enc(w)) for w in seq if w is not None)
            ranges = []
            if rng.random() < 0.5:
                ranges = [(rng.choice([None, 0, 1, L - 1, L, L + 1]),
                           rng.choice([None, 0, 1, L - 1, L, L + 1]))]
                if ranges[0] == (None, None) or \
                        any(v is not None and v < 0 for v in ranges[0]):
                    ranges = []

            def make(init=init, seq=seq, ranges=ranges):
                res = Response(init)
                for w in seq:
                    if w is None:
                        _ = res.data
                    else:
                        res.write(w)
                if ranges:
                    res.make_partial(ranges)
                return res
            cur["make"] = make
            ans = check("response", True, ("w", init, seq, tuple(ranges)),
                        {"init": repr(init), "ops": repr(seq),
                         "ranges": ranges})
            if ans.chunks is not None and len(ans.calls) == 1:
                term = "run_response %s %s %s" % (
                    slit(enc(init)),
                    clist("None" if w is None else "(Some %s)" % slit(enc(w))
                          for w in seq),
                    clist("(%s,%s)" % (optz(a), optz(b)) for a, b in ranges))
                cases.append((term, [ans.code, ans.header("Content-Range"),
                                     ans.header("Content-Length"), ans.body],
                              ["response", repr(init), repr(seq), ranges]))
        # ---- file objects at every offset
        for size in ([0, 1, 5] if ctx.quick else [0, 1, 2, 5, 9, 1500]):
            data = bytes(rng.randrange(256) for _ in range(size))
            path = os.path.join(tmpdir, "f%d.txt" % size)
            with open(path, "wb") as fil:
                fil.write(data)
            offsets = range(size + 1) if size < 20 else \
                [0, 1, size - 1, size]
            for off in offsets:
                for kind in ("bytesio", "realfile", "raw"):
                    def make(kind=kind, data=data, off=off, path=path):
                        if kind == "bytesio":
                            f = io.BytesIO(data)
                            f.seek(off)
                        elif kind == "realfile":
                            f = open(path, "rb")
                            f.seek(off)
                        else:
                            f = RawStream(data[off:])
                        return FileObjResponse(f)
                    cur["make"] = make
                    ans = check("fileobj-" + kind, kind != "raw",
                                (kind, size, off), {"size": size,
                                                    "offset": off})
                    if ans.body is not None and ans.body != data[off:]:
                        ctx.violation("file-body", {"kind": kind,
                                                    "size": size,
                                                    "offset": off})
            if size:
                cur["make"] = lambda path=path: FileResponse(path)
                check("fileresponse", True, ("path", size), {"size": size})
        # ---- partial answers: lengths the handler declared itself under
        # any spelling of the header name; files under a uWSGI-like server
        # (sendfile wrapper, which partial answers must not go through)
        big = bytes(rng.randrange(256) for _ in range(60))
        bigpath = os.path.join(tmpdir, "big.bin")
        with open(bigpath, "wb") as fil:
            fil.write(big)
        for _ in range(40 if ctx.quick else 600):
            kind = rng.choice(["buf", "gen", "fileobj", "path"])
            first = rng.choice([None, 0, 1, 10, 59])
            last = rng.choice([None, 0, 5, 30, 59, 80])
            if first is None and last in (None, 0):
                last = 7
            if first is not None and last is not None and last < first:
                last = None
            spell = rng.choice([None, "content-length", "CONTENT-LENGTH",
                                "Content-Length"])
            uwsgi = kind in ("fileobj", "path") and rng.random() < 0.6

            def make(kind=kind, first=first, last=last, spell=spell):
                if kind == "buf":
                    res = Response(big)
                elif kind == "gen":
                    res = GeneratorResponse(
                        iter([big[:7], big[7:8], big[8:40], big[40:]]),
                        content_length=len(big))
                elif kind == "fileobj":
                    res = FileObjResponse(open(bigpath, "rb"))
                else:
                    res = FileResponse(bigpath)
                if spell:
                    res.add_header(spell, str(len(big)))
                res.make_partial([(first, last)])
                return res
            cur["make"] = make
            check("partial-" + kind, True,
                  ("partial", kind, first, last, spell, uwsgi),
                  {"range": [first, last], "declared_as": spell,
                   "uwsgi": uwsgi}, uwsgi=uwsgi)
            # the same representation whole, with other headers set by the
            # handler (hop-by-hop and representation headers alike)
            extra_hdr = rng.choice([("Transfer-Encoding", "chunked"),
                                    ("transfer-encoding", "chunked"),
                                    ("Trailer", "Expires"),
                                    ("Content-Encoding", "identity"),
                                    ("Connection", "close"),
                                    ("Cache-Control", "no-store")])

            def make(kind=kind, extra_hdr=extra_hdr):
                if kind == "buf":
                    res = Response(big)
                elif kind == "gen":
                    res = GeneratorResponse(
                        iter([big[:7], big[7:8], big[8:40], big[40:]]),
                        content_length=len(big))
                elif kind == "fileobj":
                    res = FileObjResponse(open(bigpath, "rb"))
                else:
                    res = FileResponse(bigpath)
                res.add_header(*extra_hdr)
                return res
            cur["make"] = make
            check("with-header-" + kind, True,
                  ("with-header", kind, extra_hdr),
                  {"extra_header": list(extra_hdr)})
            continue
            cur["make"] = make
            check("partial-" + kind, True,
                  ("partial", kind, first, last, spell, uwsgi),
                  {"range": [first, last], "declared_as": spell,
                   "uwsgi": uwsgi}, uwsgi=uwsgi)
        # ---- generator with declared length
        for _ in range(20 if ctx.quick else 3000):
            chunks = [bytes(rng.randrange(256)
                            for _ in range(rng.choice([0, 1, 2, 7])))
                      for _ in range(rng.randint(0, 6))]
            total = sum(map(len, chunks))
            cur["make"] = lambda c=chunks, t=total: GeneratorResponse(
                iter(c), content_length=t)
            check("generator", True, ("gen", tuple(chunks)),
                  {"chunks": [len(c) for c in chunks]})
        # ---- other classes and status codes
        from http.client import responses
        codes = sorted(responses)
        for code in (codes if not ctx.quick else rng.sample(codes, 15)):
            if code in (204, 304) or code < 200:
                continue
            cur["make"] = lambda code=code: Response("x" * (code % 7),
                                                     status_code=code)
            check("status", True, ("status", code), {"code": code})
        cur["make"] = lambda: JSONResponse(items=list(range(5)), msg="čř")
        check("json", True, ("json",), {})
        cur["make"] = lambda: TextResponse("žluťoučký")
        check("text", True, ("text",), {})
        cur["make"] = lambda: RedirectResponse("/x", message="moved")
        check("redirect", True, ("redirect",), {})
        for data in ("", "abc", [], {}, {"a": [1, "ž"]}, ["x"], b"\x00"):
            cur["make"] = lambda data=data: data
            check("plain-return", True, ("ret", repr(data)),
                  {"value": repr(data)})
        # ---- PartialResponse: the handler did the cutting itself; the
        # data it hands in is the body, whatever Content-Range it declares
        from poorwsgi.response import PartialResponse
        for data in (b"0123456789", "\u010de\u0161tina", b""):
            size = len(enc(data))
            for rng_, units, full in (([(2, 5)], "bytes", size),
                                      ([(2, 5)], "bytes", "*"),
                                      ([(0, size - 1)], "bytes", size),
                                      ([(1, 3)], "blocks", 10),
                                      ([(2, 5)], "bytes", size + 7),
                                      ([(None, 3)], "bytes", size),
                                      ([(4, None)], "bytes", size),
                                      (None, None, None)):
                for writes in ((), (b"+tail",), ("\u20ac", b"")):
                    def make(data=data, rng_=rng_, units=units, full=full,
                             writes=writes):
                        res = PartialResponse(data)
                        for piece in writes:
                            res.write(piece)
                        if rng_ is not None:
                            total = full
                            if writes and full == size:
                                total = size + sum(len(enc(w))
                                                   for w in writes)
                            res.make_range(rng_, units, total)
                        return res
                    cur["make"] = make
                    check("partial-response", True,
                          ("PartialResponse", repr(data), repr(rng_), units,
                           repr(full), repr(writes)),
                          {"data": repr(data), "range": repr(rng_),
                           "units": units, "full": repr(full),
                           "writes": repr(writes)})
        # ---- equal header collections on answers of different sizes
        for hdrs in ((("X-Same", "1"),), [("X-Same", "1")], {"X-Same": "1"},
                     (("X-Same", "1"), ("Cache-Control", "no-cache"))):
            for size in (3, 10, 0, 7, 10000, 1):
                cur["make"] = lambda hdrs=hdrs, size=size: (
                    b"x" * size, "text/plain", hdrs)
                check("same-headers", True,
                      ("same-headers-tuple", repr(hdrs), size),
                      {"headers": repr(hdrs), "size": size})
                cur["make"] = lambda hdrs=hdrs, size=size: Response(
                    "y" * size, headers=hdrs)
                check("same-headers", True,
                      ("same-headers-response", repr(hdrs), size),
                      {"headers": repr(hdrs), "size": size})
        # ---- no body on 204/304/declined
        cur["make"] = lambda: NoContentResponse()
        check("nocontent", True, ("204",), {}, expect_nobody=True)
        cur["make"] = lambda: NotModifiedResponse(etag='"e"')
        check("notmodified", True, ("304",), {}, expect_nobody=True)
        cur["make"] = lambda: None
        check("none", True, ("none",), {}, expect_nobody=True)
        for code in (204, 304):
            cur["make"] = lambda code=code: Response(b"abc", status_code=code)
            check("user-204-304", True, ("user", code), {"code": code},
                  expect_nobody=True)

        def declined():
            abort(0)
        cur["make"] = declined
        ans = call(app, environ(path="/r"))
        ctx.case(("declined",), True, {"kind": "declined"})
        if ans.calls or ans.body:
            ctx.violation("declined-answers", {"answer": ans.summary()})
        # a request may be declined from any user callable the request
        # passes through, not only from the endpoint
        from poorwsgi.response import HTTPException

        def decline(*args, **kwargs):
            raise HTTPException(0)

        def boom(req):
            raise KeyError("k")
        # (not from an after hook: C03 asks for an error response when an
        # after hook fails, whatever it raised)
        for site in ("before", "error-handler", "status-handler", "default"):
            app3 = new_app()
            if site == "before":
                app3.add_before_response(decline)
                app3.set_route("/r", lambda req: "never")
            elif site == "error-handler":
                app3.set_route("/r", boom)
                app3.set_error_handler(KeyError, decline)
            elif site == "status-handler":
                app3.set_route("/r", lambda req: abort(404))
                app3.set_http_state(404, decline)
            else:
                app3.set_default(decline)
            ans = call(app3, environ(path="/r"))
            ctx.case(("declined", site), True, {"kind": "declined",
                                                "site": site})
            ctx.count("declined")
            if ans.raised is not None or ans.calls or ans.body:
                ctx.violation("declined-answers", {
                    "declined_in": site, "answer": ans.summary()})
        # aborting with a status that allows no body: whatever page answers
        # (the built-in one for 304, the 501 page for codes without a page),
        # an answer whose status is 1xx/204/304 carries no body bytes
        for code in (204, 304, 100, 101, 102, 103, 205):
            app3 = new_app()
            app3.set_route("/r", lambda req, code=code: abort(code), 511)
            for method in ("GET", "POST", "HEAD"):
                ans = call(app3, environ(method=method, path="/r"))
                ctx.case(("abort-nobody", code, method), True,
                         {"kind": "abort-nobody", "code": code,
                          "status": ans.status})
                ctx.count("abort-nobody")
                if ans.raised is not None or len(ans.calls) != 1:
                    ctx.violation("emission-failed", {
                        "kind": "abort-nobody", "code": code,
                        "answer": ans.summary()})
                    continue
                cl = ans.header_all("Content-Length")
                if (ans.code in (204, 304) or ans.code < 200) and (
                        ans.body or any(v != "0" for v in cl)):
                    ctx.violation("nobody", {
                        "kind": "abort-nobody", "abort": code,
                        "method": method, "status": ans.status,
                        "body_len": len(ans.body), "content_length": cl})
                elif cl and (not cl[0].isdigit() or
                             int(cl[0]) != len(ans.body)):
                    ctx.violation("clen-mismatch", {
                        "kind": "abort-nobody", "abort": code,
                        "status": ans.status, "content_length": cl,
                        "body_len": len(ans.body)})
        # ---- built-in pages for every path length
        app2 = new_app()
        for n in (range(0, 301, 7) if ctx.quick else range(0, 301)):
            path = "/" + "p" * n
            for method, extra in (("GET", {}), ("POST", {})):
                ans = call(app2, environ(method=method, path=path))
                ctx.case(("page", n, method), True, None)
                ctx.count("builtin-page")
                cl = ans.header("Content-Length")
                if ans.raised or cl is None or int(cl) != len(ans.body):
                    ctx.violation("clen-mismatch", {
                        "kind": "builtin-page", "path_len": n,
                        "answer": ans.summary()})
        # ---- files served from the document root, as a revalidating
        # client asks for them (validators copied from the first answer)
        app3 = new_app(document_root=tmpdir)
        for size in (0, 1, 5, 9000):
            name = "static_%d.bin" % size
            with open(os.path.join(tmpdir, name), "wb") as fil:
                fil.write(b"s" * size)
            first = call(app3, environ(path="/" + name))
            lm = first.header("Last-Modified") or ""
            etag = first.header("ETag") or '"x"'
            for hdrs in ({}, {"If-Modified-Since": lm},
                         {"If-Modified-Since": "Thu, 01 Jan 1970 00:00:00 "
                                               "GMT"},
                         {"If-None-Match": etag}, {"If-None-Match": "*"},
                         {"If-Modified-Since": lm, "If-None-Match": etag},
                         {"If-Unmodified-Since": lm}, {"If-Range": lm},
                         {"Cache-Control": "max-age=0"}):
                for method in ("GET", "HEAD"):
                    ans = call(app3, environ(method=method, path="/" + name,
                                             headers=hdrs))
                    det = {"kind": "static-file", "size": size,
                           "method": method, "request_headers": hdrs}
                    ctx.case(("static", size, method, repr(hdrs)), True, det)
                    ctx.count("static-conditional")
                    cl = ans.header_all("Content-Length")
                    if ans.raised or ans.iter_raised or len(cl) > 1 or \
                            (cl and (not cl[0].isdigit() or
                                     int(cl[0]) != len(ans.body))) or \
                            (not cl and ans.body) or \
                            (ans.code in (204, 304) and ans.body):
                        ctx.violation("clen-mismatch", dict(
                            det, answer=ans.summary()))
        ctx.correspondence("clen", IMPORTS, cases, lambda p: p)
    finally:
        shutil.rmtree(tmpdir, ignore_errors=True)
    return ctx.finish(
        "write histories: all sequences up to length %d over a 6-element "
        "pool (str/bytes/multi-byte/.data read) plus random long ones, each "
        "with a random range; file objects (BytesIO, real file, non-seekable "
        "raw stream) at every offset; generators with declared length; every "
        "status code; partial answers with handler-declared lengths in four "
        "spellings and files under a uWSGI-like sendfile wrapper; no-body "
        "classes; built-in 404 pages for path lengths "
        "0..300; request methods GET/HEAD/POST/PUT in rotation, every third "
        "response read through .data by an after hook before it is sent; "
        "distinct by full case tuple" % maxlen,
        assumptions=["a non-seekable stream without fileno has unknown size "
                     "and is outside 'size known'",
                     "what uWSGI does with a file object positioned beyond "
                     "its beginning is not emulated"])
