"""C12 static serving never leaves the document root.

obligations  : coq/props/C12.v
correspondence
  (a) model normpath  vs  CPython posixpath.normpath on the property's grid
      (paths generated on both sides in the same order);
  (b) model serve_request vs the real Application on a sandbox tree: outcome
      class, the name given to path.exists, the name opened / listed, the
      listing rows.
monitor (written from the property text, independent of the model)
  no token of a file outside the root in any body; no open/listdir audit
  event inside the sandbox but outside the root; file bytes exact,
  Content-Length = size, only when the method number is GET/HEAD; directories
  -> listing of exactly the visible entries when indexing is on, else 403.
"""
import html
import itertools
import os
import threading
import posixpath
import re
import shutil
import sys
import tempfile
import zlib
import time

import implrun  # noqa: F401  (sets sys.path)
from implrun import new_app, environ, call
from core import Exn, slit, blit

SEGS = ['', '.', '..', 'a', 'sub', '..x', '_private', '%2e%2e', '\x00', 'é']
JOINERS = ('/', '//')
KNOWN_OTHER = ["POST", "PUT", "DELETE", "TRACE", "OPTIONS", "CONNECT", "PATCH"]
UNKNOWN = ["BREW", "get", ""]        # mapped to GET by design (see C02)
ALL_METHODS = ["GET", "HEAD"] + KNOWN_OTHER + UNKNOWN
SCRATCH = "/root/scratch"


# ------------------------------------------------------------------ audit
class Audit:
    """records file-system opens / directory reads while [on]"""
    def __init__(self):
        self.on = False
        self.events = []
        self.installed = False

    def hook(self, event, args):
        if not self.on:
            return
        if event == "open":
            kind = "open"
        elif event in ("os.listdir", "os.scandir"):
            kind = "listdir"
        else:
            return
        target = args[0] if args else None
        if isinstance(target, bytes):
            target = os.fsdecode(target)
        if isinstance(target, str):
            self.events.append((kind, target))

    def install(self):
        if not self.installed:
            sys.addaudithook(self.hook)
            self.installed = True


AUDIT = Audit()


class Proxy:
    """module stand-in: records/overrides some functions, delegates the rest"""
    def __init__(self, real, **over):
        self.__dict__["_real"] = real
        self.__dict__.update(over)

    def __getattr__(self, name):
        return getattr(self._real, name)


# ---------------------------------------------------------------- sandbox
class Tree:
    def __init__(self, rng):
        self.top = os.path.realpath(tempfile.mkdtemp(prefix="c12_",
                                                     dir=SCRATCH))
        self.root = self.top + "/root"
        self.files = {}          # real path -> content
        self.unreadable = set()
        self.rng = rng
        self.fifo = None
        self._build()

    def _file(self, path, tag, size=0, empty=False):
        os.makedirs(os.path.dirname(path), exist_ok=True)
        data = b"" if empty else (
            "C12TOK-%s-%016x." % (tag, self.rng.getrandbits(64))).encode()
        if size:
            data += bytes(self.rng.getrandbits(8) for _ in range(size))
        with open(path, "wb") as fil:
            fil.write(data)
        self.files[path] = data

    def _build(self):
        top, root = self.top, self.root
        # inside the root
        self._file(root + "/a", "in-a")
        self._file(root + "/in.txt", "in-in")
        self._file(root + "/big.bin", "in-big", size=70000)
        self._file(root + "/empty.txt", "", empty=True)
        self._file(root + "/.hid", "in-dothid")
        self._file(root + "/..hid", "in-dotdothid")
        self._file(root + "/b~", "in-backup")
        self._file(root + "/locked", "in-locked")
        self._file(root + "/sub/n.txt", "in-sub-n")
        self._file(root + "/sub/a", "in-sub-a")
        self._file(root + "/sub/.hidden", "in-sub-hidden")
        self._file(root + "/sub/..hid2", "in-sub-dotdothid")
        self._file(root + "/sub/back~", "in-sub-backup")
        self._file(root + "/sub/locked.txt", "in-sub-locked")
        self._file(root + "/sub/sub/deep.txt", "in-deep")
        self._file(root + "/sub/sub/a", "in-deep-a")
        self._file(root + "/é/e.txt", "in-eacute")
        self._file(root + "/..x/inner.txt", "in-dotdotx")
        self._file(root + "/_private/inner2.txt", "in-private")
        self._file(root + "/%2e%2e/pct.txt", "in-pct")
        self._file(root + "/lockdir/l.txt", "in-lockdir")
        os.makedirs(root + "/emptydir")
        try:
            os.mkfifo(root + "/pipe")
            self.fifo = root + "/pipe"
        except OSError:
            self.fifo = None
        # outside: parent level, siblings extending the root's name, mirrors
        self._file(top + "/s.txt", "OUT-parent")
        self._file(top + "/in.txt", "OUT-mirror-in")
        self._file(top + "/a", "OUT-mirror-a")
        self._file(top + "/sub/n.txt", "OUT-mirror-sub")
        self._file(top + "/root..x/q.txt", "OUT-dotdotx")
        self._file(top + "/root..x/inner.txt", "OUT-dotdotx-inner")
        self._file(top + "/root_private/p.txt", "OUT-private")
        self._file(top + "/root_private/inner2.txt", "OUT-private-inner")
        self._file(top + "/root.txt", "OUT-rootfile")
        self._file(top + "/rootsub/n.txt", "OUT-rootsub")
        self._file(top + "/other/o.txt", "OUT-other")
        self._file(top + "/other/in.txt", "OUT-other-in")
        self.unreadable = {root + "/locked", root + "/sub/locked.txt",
                           root + "/lockdir"}
        for path in self.unreadable:
            os.chmod(path, 0)

    def inside(self, real):
        return real == self.root or real.startswith(self.root + "/")

    def in_sandbox(self, real):
        return real == self.top or real.startswith(self.top + "/")

    def outside_tokens(self):
        return [(p, d) for p, d in self.files.items()
                if d and not self.inside(p)]

    def inside_tokens(self):
        return [(p, d[:40]) for p, d in self.files.items()
                if d and self.inside(p)]

    def remove(self):
        for path in self.unreadable:
            try:
                os.chmod(path, 0o700)
            except OSError:
                pass
        shutil.rmtree(self.top, ignore_errors=True)


def decode_path(wire):
    """request path of a WSGI PATH_INFO (PEP 3333: latin-1 carrying the
    bytes; UTF-8 when they are UTF-8)"""
    try:
        return wire.encode("iso-8859-1").decode("utf-8")
    except UnicodeError:
        return wire


def to_wire(text):
    try:
        return text.encode("utf-8").decode("iso-8859-1")
    except UnicodeError:
        return text


def resolve_real(path, cwd):
    """real absolute location of a name used by the implementation"""
    if "\x00" in path:
        return None
    try:
        return os.path.realpath(os.path.join(cwd, path))
    except (OSError, ValueError):
        return None


ROW = re.compile(r'<tr><td><a href="([^"]*)">(.*?)</a></td>')


def listing_rows(body):
    text = body.decode("utf-8", "replace")
    return [html.unescape(m.group(2)) for m in ROW.finditer(text)]


# ------------------------------------------------------------------ paths
def grid_tails(k):
    if k == 0:
        return [""]
    sub = grid_tails(k - 1)
    return [j + s + t for j in JOINERS for s in SEGS for t in sub]


def grid_prefixes(nseg):
    """lead x s1 (x joiner x s)*"""
    out = []
    for lead in ("", "/"):
        for combo in itertools.product(SEGS, repeat=nseg):
            for js in itertools.product(JOINERS, repeat=nseg - 1):
                text = lead + combo[0]
                for j, seg in zip(js, combo[1:]):
                    text += j + seg
                out.append(text)
    return out


def grid_paths(nmax):
    seen = set()
    for n in range(1, nmax + 1):
        for text in grid_prefixes(n):
            seen.add(text)
    return sorted(seen)


def core_paths(tree):
    top, root = tree.top, tree.root
    return [
        "/", "", "/in.txt", "in.txt", "/a", "a", "/sub", "/sub/", "sub",
        "/sub/n.txt", "/sub/sub/deep.txt", "/sub/../in.txt", "/sub/./n.txt",
        "//sub//n.txt", "/é/e.txt", "/é", "/..x/inner.txt", "..x/q.txt",
        "..x/inner.txt", "_private/p.txt", "/_private/inner2.txt",
        "_private/inner2.txt", "/../s.txt", "../s.txt",
        "/../root_private/p.txt", "../root..x/q.txt", "/sub/../../s.txt",
        "/sub/../../in.txt", "/../in.txt", "/../a", "/../sub/n.txt",
        "/../../../../../../../../etc/passwd", "/.hid", "/..hid", "/b~",
        "/locked", "/lockdir", "/lockdir/", "/lockdir/l.txt", "/pipe",
        "/empty.txt", "/emptydir", "/big.bin", "/%2e%2e/pct.txt",
        "/%2e%2e/s.txt", "/%2e%2e/%2e%2e/s.txt", "/..%2fs.txt",
        "/in.txt\x00", "/\x00/../in.txt", "/in.txt\x00/../../s.txt",
        "/debug-info", "debug-info", "/in.txt/", "/in.txt/.", "/in.txt/..",
        "/sub/..", "/sub/../..", "//", "///in.txt", "////", top + "/s.txt",
        root + "/in.txt", "/" + root + "/../s.txt", "/..x", "/_private",
        ".", "..", "/.", "/..", "/...", "/.../in.txt", "\\..\\s.txt",
        "/..\\s.txt", "/sub/..hid2", "/sub/.hidden", "/sub/back~",
        "/sub/locked.txt", "/sub/a", "/sub/sub", "/sub/sub/a",
        "/sub/sub/../../in.txt", ".txt", "/root.txt", "/../root.txt",
        "sub/n.txt", "/../rootsub/n.txt", "../other/o.txt", "/other/o.txt",
        "/%2e%2e", "/é/../é/e.txt", "/é/../../s.txt", "/sub/sub/sub",
    ]


def hostile_paths(tree, rng, count):
    alphabet = ["/", "/", "//", ".", "..", "...", "\x00", "a", "sub",
                "in.txt", "\\", "%2e", "%2f", "%00", "é", "€",
                "\U0001f600", " ", "~", "root_private", "root..x", "s.txt",
                "_private", "..x", "p.txt", "q.txt", "\n", "\r", "?", "#",
                ":", tree.top, tree.root, "etc", "passwd", "x" * 300]
    out = []
    for _ in range(count):
        n = rng.randint(1, 9)
        out.append("".join(rng.choice(alphabet) for _ in range(n)))
    for depth in (1, 2, 3, 7, 40):
        for tail in ("s.txt", "root_private/p.txt", "root..x/q.txt",
                     "etc/passwd", "in.txt"):
            out.append("/" + "../" * depth + tail)
            out.append("../" * depth + tail)
            out.append("/sub/" + "../" * depth + tail)
            out.append("/" + "..//" * depth + tail)
            out.append("/" + "./../" * depth + tail)
    return out


# --------------------------------------------------------------- configs
class Config:
    def __init__(self, name, attr_root, attr_index, env_root=None,
                 env_index=None, debug=False):
        self.name = name
        self.attr_root, self.attr_index = attr_root, attr_index
        self.env_root, self.env_index, self.debug = env_root, env_index, debug
        self.app = None
        self.seen = {}

    # what the configuration means (documentation of poor_DocumentRoot /
    # poor_DocumentIndex): used by the monitor only
    def effective_root(self):
        return self.attr_root if self.env_root is None else self.env_root

    def effective_index(self):
        if self.env_index:
            return self.env_index.lower() == "on"
        return self.attr_index

    def describe(self):
        return {"config": self.name, "document_root": self.attr_root,
                "document_index": self.attr_index,
                "poor_DocumentRoot": self.env_root,
                "poor_DocumentIndex": self.env_index, "debug": self.debug}


def make_configs(tree):
    ab, rel = tree.root, "root"
    other = tree.top + "/other"
    cfgs = [
        Config("abs-index", ab, True),
        Config("abs-noindex", ab, False),
        Config("abs-slash-index", ab + "/", True),
        Config("rel-index", rel, True),
        Config("rel-slash-envindex", rel + "/", False, env_index="On"),
        Config("env-abs-over-other", other, True, env_root=ab),
        Config("env-rel-slash-envoff", "", True, env_root=rel + "/",
               env_index="off"),
        Config("abs-debug-envindex", ab, False, env_index="oN", debug=True),
        Config("dotrel-noindex-debug", "./" + rel, False, debug=True),
        Config("no-root", "", True),
        Config("env-empty-root", ab, True, env_root=""),
        Config("env-empty-index", ab, True, env_index=""),
        Config("env-yes-index", ab + "/", True, env_index="yes"),
        # document_index never assigned: the default is off
        Config("abs-index-untouched", ab, False),
        Config("rel-index-untouched-envon", rel, False, env_index="ON"),
    ]
    for cfg in cfgs:
        app = new_app(document_root=cfg.attr_root, debug=cfg.debug)
        if "untouched" not in cfg.name:
            app.document_index = cfg.attr_index

        def capture(req, seen=cfg.seen):
            seen["path"] = req.path
        app.add_before_response(capture)
        if len(cfg.name) % 2:
            # a hook that looks at the finished body before it is sent (an
            # ETag / validator hook); .data leaves the response as it was
            def peek(req, res):
                if hasattr(res, "data"):
                    len(res.data)
                return res
            app.add_after_response(peek)
        cfg.app = app
    return cfgs


# ------------------------------------------------------ file system table
def fs_tables(tree, readable):
    """what exists/isfile/isdir/access/listdir report for the names the
    application can build under a root string R, as suffixes after R:
    '/' + clean relative name, and directory + '/' + entry (entries of
    os.listdir and '..').  Suffixes do not depend on R."""
    nodes, dirs = {}, {}

    def node(real):
        if not os.path.lexists(real):
            return "Missing"
        rd = blit(readable(real))
        if os.path.isfile(real):
            return "File %s" % rd
        if os.path.isdir(real):
            return "Dir %s" % rd
        return "Other %s" % rd

    for real, subdirs, names in os.walk(tree.root):
        relp = real[len(tree.root):]              # '' or '/sub/...'
        dkey = relp or "/"
        nodes.setdefault(dkey, node(real))
        entries = os.listdir(real)
        dirs[dkey] = entries
        for item in entries + [".."]:
            target = os.path.normpath(real + "/" + item)
            nodes.setdefault(dkey + "/" + item, node(target))
            if item != "..":
                nodes.setdefault(relp + "/" + item, node(target))
    return nodes, dirs


# compact Coq literals: printable ASCII as a Coq string, NUL and e-acute
# through two stand-in bytes (decoded by [dc] in the case-file header)
DC = ("Definition dc (s : string) : list Z :=\n"
      "  map (fun c => if c =? 1 then 0 else if c =? 2 then 233 else c) "
      "(s2l s).\n")


def lit(text):
    if all(32 <= ord(c) < 127 or c in "\x00\xe9" for c in text):
        return '(dc "%s"%%string)' % text.replace("\x00", "\x01").replace(
            "\xe9", "\x02").replace('"', '""')
    return slit(text)


SEG_IX = {seg: i for i, seg in enumerate(SEGS)}


def seg_lit(result):
    """a grid result written as leading slashes + indices into SEGS (the
    model's [seg_path] rebuilds the string); literal when it is not one"""
    init = len(result) - len(result.lstrip("/"))
    rest = result[init:]
    parts = rest.split("/") if rest else []
    if all(part in SEG_IX for part in parts):
        return "(seg_path SEGS %d [%s])" % (
            init, ";".join(str(SEG_IX[part]) for part in parts))
    return lit(result)


def coq_tables(nodes, dirs):
    tline = ";\n  ".join("(%s, %s)" % (lit(k), v) for k, v in nodes.items())
    dline = ";\n  ".join("(%s, [%s])" % (lit(k), ";".join(lit(i) for i in v))
                         for k, v in dirs.items())
    return ("Definition REL : list (list Z * node) := [\n  %s].\n"
            "Definition RELD : list (list Z * list (list Z)) := [\n  %s].\n"
            "Definition T (r : list Z) := "
            "map (fun kn => (r ++ fst kn, snd kn)) REL.\n"
            "Definition D (r : list Z) := "
            "map (fun kn => (r ++ fst kn, snd kn)) RELD.\n"
            % (tline, dline))


def spread(cases, shard=400):
    """deal the cases round-robin over the shards coq_eval will cut, so
    that runs of heavy cases do not end up in one Coq process"""
    nshard = max(1, -(-len(cases) // shard))
    return [cases[i] for i in sorted(range(len(cases)),
                                     key=lambda i: (i % nshard, i))]


def opt(text):
    return "None" if text is None else "(Some %s)" % text


# -------------------------------------------------------------------- run
def run(ctx):
    marks = [("start", time.time())]
    ctx.check_obligations()
    marks.append(("obligations", time.time()))

    # assumption of the model's [is_on]: only o, O, n, N lower() to o / n
    odd = [c for c in range(sys.maxunicode + 1)
           if any(x in "on" for x in chr(c).lower())
           and chr(c) not in "oOnN"]
    if odd:
        ctx.unproved("assumption: str.lower() == 'on' only for ASCII o/n",
                     {"code_points": odd[:10]})

    # ------------------------------------------- (a) normpath on the grid
    if ctx.quick:
        plan = [(1, 0), (1, 1), (2, 1), (3, 1)]     # (prefix segments, k)
    else:
        plan = [(1, 0), (1, 1), (2, 1), (3, 1), (3, 2)]
    header = ("Require Import PW.model.StaticPath.\n"
              "Import ListNotations.\nOpen Scope Z_scope.\n" + DC +
              "Definition SEGS : list (list Z) := [%s].\n"
              % ";".join(slit(s) for s in SEGS))
    cases = []
    for nseg, k in plan:
        tails = grid_tails(k)
        for prefix in grid_prefixes(nseg):
            results = [posixpath.normpath(prefix + t) for t in tails]
            table = sorted(set(results))
            where = {r: i for i, r in enumerate(table)}
            expected = "(Vpick [%s] [%s])" % (
                ";".join(seg_lit(r) for r in table),
                ";".join(str(where[r]) for r in results))
            cases.append(("run_grid %s SEGS %d" % (lit(prefix), k),
                          expected, ("normpath-grid", prefix, k)))
            ctx.count("normpath paths", len(tails))
            ctx.count("normpath grid %d segments" % (nseg + k), len(tails))
            for t in tails[:: max(1, len(tails) // 4)]:
                ctx.case(("np", prefix + t), True)
    hostile_np = ["", "/", "//", "///", "////a", "//a/..", "//..", "a/..",
                  "../..", "../a/../..", "a/b/../../..", "./.", "/./.",
                  "//./a", "\x00", "/\x00/..", "a\x00b/../c", "é/../ü",
                  "\U0001f600/./..", ".../..", "..a/..", "a/.../..",
                  "/" * 50 + "a", "a" + "/.." * 50, "/a" * 50 + "/.." * 49]
    for _ in range(200 if ctx.quick else 3000):
        n = ctx.rng.randint(0, 12)
        hostile_np.append("".join(ctx.rng.choice(
            ["/", "/", ".", "..", "a", "b", "\x00", "é", "/.", "/.."])
            for _ in range(n)))
    for text in hostile_np:
        cases.append(("run_normpath %s" % slit(text), posixpath.normpath(text),
                      ("normpath", text)))
        ctx.count("normpath hostile")
        ctx.case(("np", text), True)
    ctx.correspondence("normpath", header, spread(cases),
                       lambda p: [repr(x) for x in p])
    marks.append(("normpath correspondence", time.time()))
    ctx.samples.append({"normpath": "/sub//../..x/./a",
                        "cpython": posixpath.normpath("/sub//../..x/./a")})

    # --------------------------------------- (b) the application end to end
    from poorwsgi import wsgi, results, response
    AUDIT.install()
    tree = Tree(ctx.rng)
    cwd0 = os.getcwd()
    real_access = os.access
    probed = []

    def readable(real):
        return real_access(real, os.R_OK) and real not in tree.unreadable

    def fake_access(name, mode, *args, **kwargs):
        okay = real_access(name, mode, *args, **kwargs)
        if okay and mode & os.R_OK:
            real = resolve_real(name, os.getcwd())
            if real in tree.unreadable:
                return False
        return okay

    def rec_exists(name):
        probed.append(name)
        return os.path.exists(name)

    saved = (wsgi.path, wsgi.access, response.access, results.os)
    wsgi.path = Proxy(os.path, exists=rec_exists)
    wsgi.access = fake_access
    response.access = fake_access
    results.os = Proxy(os, access=fake_access)
    # the server here is not uWSGI: poor_ variables of the PROCESS
    # environment must have no say (only the request environ and the
    # application attributes do); point them at the place outside the root
    saved_env = {k: os.environ.get(k)
                 for k in ("poor_DocumentRoot", "poor_DocumentIndex")}
    os.environ["poor_DocumentRoot"] = tree.top
    os.environ["poor_DocumentIndex"] = "On"
    try:
        os.chdir(tree.top)
        cfgs = make_configs(tree)
        strings = sorted({x for c in cfgs for x in (c.attr_root, c.env_root)
                          if x})
        name_of = {x: "S%d" % i for i, x in enumerate(strings)}
        name_of[""] = "[]"
        header = ("Require Import PW.model.StaticPath.\n"
                  "Import ListNotations.\nOpen Scope Z_scope.\n" + DC)
        for text in strings:
            header += "Definition %s : list Z := %s.\n" % (name_of[text],
                                                           slit(text))
        header += coq_tables(*fs_tables(tree, readable))
        header += "Definition SEGS : list (list Z) := [%s].\n" % ";".join(
            slit(seg) for seg in SEGS)

        def vs(text, eff):
            """(VS text), written relative to the effective root string"""
            if eff and text.startswith(eff):
                return "(VS (%s ++ %s))" % (name_of[eff], lit(text[len(eff):]))
            return "(VS %s)" % lit(text)
        out_tokens = tree.outside_tokens()
        in_tokens = tree.inside_tokens()

        # ---------------- request plan
        # singles: (config, method, path text); groups: (config, method,
        # prefix, k) = the requests prefix + t for t in grid_tails(k)
        singles, groups = [], []
        by_name = {c.name: c for c in cfgs}
        main_cfg = by_name["abs-index"]
        core = core_paths(tree)
        for cfg in cfgs:
            full = cfg.name in ("abs-index", "env-abs-over-other",
                                "abs-debug-envindex") or not ctx.quick
            for method in (ALL_METHODS if full else
                           ["GET", "HEAD", "POST", "BREW"]):
                for text in core:
                    singles.append((cfg, method, text))
        # the grid, exhaustively on the main configuration
        for text in grid_prefixes(1) + grid_prefixes(2):
            singles.append((main_cfg, "GET", text))
        for prefix in grid_prefixes(2):
            groups.append((main_cfg, "GET", prefix, 1))           # 3 segments
        if not ctx.quick:
            for prefix in grid_prefixes(3):
                groups.append((main_cfg, "GET", prefix, 1))       # 4 segments
            for cfg in cfgs[1::3]:
                for prefix in grid_prefixes(2):
                    groups.append((cfg, ctx.rng.choice(["GET", "HEAD"]),
                                   prefix, 1))
        # sampled longer paths over every configuration and method
        nmax = 4 if ctx.quick else 5
        for _ in range(4000 if ctx.quick else 30000):
            n = ctx.rng.randint(2, nmax)
            text = ctx.rng.choice(["", "/"]) + ctx.rng.choice(SEGS)
            for _ in range(n - 1):
                text += ctx.rng.choice(JOINERS) + ctx.rng.choice(SEGS)
            method = "GET" if ctx.rng.random() < 0.6 else \
                ctx.rng.choice(ALL_METHODS)
            singles.append((ctx.rng.choice(cfgs), method, text))
        for text in hostile_paths(tree, ctx.rng, 800 if ctx.quick else 8000):
            method = "GET" if ctx.rng.random() < 0.7 else \
                ctx.rng.choice(ALL_METHODS)
            singles.append((ctx.rng.choice(cfgs), method, text))

        def model_args(cfg):
            eff = cfg.effective_root()
            return "(T %s) (D %s) %s %s %s %s %s" % (
                name_of[eff], name_of[eff],
                opt(None if cfg.env_root is None else name_of[cfg.env_root]),
                name_of[cfg.attr_root],
                opt(None if cfg.env_index is None else slit(cfg.env_index)),
                blit(cfg.attr_index), blit(cfg.debug))

        def one(cfg, method, text):
            """one request: runs the monitor, returns (model term, expected V
            text, replay, request path seen by the application)"""
            wire = to_wire(text)
            extra = {}
            if cfg.env_root is not None:
                extra["poor_DocumentRoot"] = cfg.env_root
            if cfg.env_index is not None:
                extra["poor_DocumentIndex"] = cfg.env_index
            # headers by which proxies and forms ask for another method:
            # the gate is the request method the server reports
            hdrs = {}
            pick = zlib.crc32(("%s %s" % (method, text)).encode(
                "utf-8", "surrogatepass")) % 8
            if method not in ("GET", "HEAD") and pick < 3:
                hdrs[("X-HTTP-Method-Override", "X-Method-Override",
                      "X-HTTP-Method")[pick]] = ("GET", "HEAD", "get")[pick]
            env = environ(method=method, path=wire, extra=extra,
                          headers=hdrs)
            cfg.seen.clear()
            del probed[:]
            AUDIT.events = []
            AUDIT.on = True
            try:
                box = []
                worker = threading.Thread(
                    target=lambda: box.append(call(cfg.app, env)),
                    daemon=True)
                worker.start()
                worker.join(4)
                if not box:
                    # e.g. a named pipe opened for reading: the request
                    # never returns; release the reader and go on
                    ctx.violation("request-never-returns", dict(
                        cfg.describe(), REQUEST_METHOD=method,
                        PATH_INFO=wire))
                    if tree.fifo:
                        try:
                            fd = os.open(tree.fifo,
                                         os.O_WRONLY | os.O_NONBLOCK)
                            os.close(fd)
                        except OSError:
                            pass
                    worker.join(5)
                    if not box:
                        raise RuntimeError("request still blocked: %r %r"
                                           % (method, wire))
                ans = box[0]
            finally:
                AUDIT.on = False
            events = []
            for kind, name in AUDIT.events:
                real = resolve_real(name, tree.top)
                if real and (tree.in_sandbox(real) or real == "/etc/passwd"):
                    events.append((kind, name, real))
            req_path = cfg.seen.get("path", decode_path(wire))
            body = ans.body or b""
            replay = dict(cfg.describe(), REQUEST_METHOD=method,
                          PATH_INFO=wire, status=ans.status,
                          request_headers=hdrs)

            # ---- correspondence case
            opens = [e for e in events if e[0] == "open"]
            lists = [e for e in events if e[0] == "listdir"]
            if ans.raised or ans.iter_raised:
                outcome = [Exn("raised")]
            elif ans.code == 200 and opens:
                outcome = [Exn("file"), opens[0][1]]
            elif ans.code == 200 and lists:
                outcome = [Exn("listing"), lists[0][1], listing_rows(body)]
            elif ans.code == 200 and b"Poor Wsgi Debug info" in body:
                outcome = [Exn("debug")]
            elif ans.code == 403:
                outcome = [Exn("forbidden")]
            elif ans.code == 404:
                outcome = [Exn("default")]
            elif ans.code == 500:
                outcome = [Exn("error")]
            else:
                outcome = [Exn("other")]
            eff = cfg.effective_root()
            term = "run_serve %s %s %s" % (model_args(cfg), lit(method),
                                           lit(req_path))
            # rendered here (core runs as __main__, its Exn class is not
            # ours); same shape as to_v([[Exn(kind), ...], probed-or-None])
            parts = ['VX "%s"' % outcome[0].name]
            if len(outcome) > 1:
                parts.append(vs(outcome[1], eff))
            if len(outcome) > 2:
                parts.append("(VL [%s])" % ";".join(
                    "(VS %s)" % lit(row) for row in outcome[2]))
            expected = "(VL [(VL [%s]); %s])" % (
                "; ".join(parts), vs(probed[0], eff) if probed else "VN")
            ctx.count("config " + cfg.name)
            ctx.count("method " + (method if method in ("GET", "HEAD")
                                   else "other-known" if method in KNOWN_OTHER
                                   else "unknown-token"))

            # ---- monitor
            gate = method not in KNOWN_OTHER      # method number GET or HEAD
            root_real = resolve_real(eff, tree.top) if eff else None
            if ans.raised or ans.iter_raised:
                ctx.violation("raised", replay)
            for path, data in out_tokens:
                if data[:40] in body:
                    ctx.violation("outside-file-disclosed",
                                  dict(replay, file=path))
            for kind, name, real in events:
                if root_real is None or not (
                        real == root_real or real.startswith(root_real + "/")):
                    ctx.violation("outside-file-opened",
                                  dict(replay, event=kind, name=name))
            # expected location: remove dot segments (RFC 3986 5.2.4), empty
            # segments dropped, never above the root
            mon_path = decode_path(wire)
            stack = []
            for seg in mon_path.split("/"):
                if seg in ("", "."):
                    continue
                if seg == "..":
                    if stack:
                        stack.pop()
                    continue
                stack.append(seg)
            kind = "none"
            loc = None
            if root_real is not None and gate:
                loc = root_real + "".join("/" + s for s in stack)
                if "\x00" in loc or not os.path.lexists(loc):
                    kind = "missing"
                elif os.path.isfile(loc):
                    kind = "file" if readable(loc) else "file-unreadable"
                elif os.path.isdir(loc):
                    kind = "dir" if readable(loc) else "dir-unreadable"
                else:
                    kind = "other"
            served = [p for p, tok in in_tokens if tok in body]
            if kind == "file":
                data = tree.files.get(loc)
                # C06: Content-Length is emitted whenever the size is
                # positive; for size 0 it may be absent or "0"
                length = ans.header("Content-Length")
                good = ans.code == 200 and \
                    (length == str(len(data)) or (not data and length is None)) \
                    and (body == data or (method == "HEAD" and body == b"")) \
                    and [e[2] for e in opens] == [loc]
                if not good:
                    ctx.violation("file-not-exact", dict(
                        replay, file=loc, size=len(data),
                        content_length=ans.header("Content-Length"),
                        body=body[:60].decode("latin-1"),
                        opened=[e[1] for e in opens]))
            else:
                if served or opens:
                    ctx.violation(
                        "file-content-without-file" if gate
                        else "file-served-for-non-get-head",
                        dict(replay, tokens_of=served,
                             opened=[e[1] for e in opens]))
            if kind == "dir":
                if cfg.effective_index():
                    names = os.listdir(loc)
                    if stack:
                        names.append("..")
                    want = sorted(
                        n + ("/" if os.path.isdir(loc + "/" + n) else "")
                        for n in names
                        if (not n.startswith(".") or n == "..")
                        and not n.endswith("~")
                        and readable(os.path.normpath(loc + "/" + n)))
                    got = sorted(listing_rows(body))
                    if ans.code != 200 or not lists:
                        ctx.violation("dir-not-listed", dict(replay, dir=loc))
                    elif got != want:
                        ctx.violation("listing-wrong-entries", dict(
                            replay, dir=loc, rows=got, visible=want))
                elif ans.code != 403 or lists:
                    ctx.violation("dir-not-403", dict(replay, dir=loc))
            else:
                if lists:
                    ctx.violation("listing-without-directory",
                                  dict(replay, listed=[e[1] for e in lists]))
                if kind in ("dir-unreadable", "file-unreadable", "other") \
                        and ans.code != 403:
                    ctx.violation("unservable-not-403", dict(replay, at=loc))
                if kind in ("missing", "none") and ans.code == 200 and \
                        b"Poor Wsgi Debug info" not in body:
                    ctx.violation("answer-200-for-nothing", replay)
            special = (kind not in ("missing", "none")
                       or ".." in mon_path or not mon_path.startswith("/")
                       or "//" in mon_path or "\x00" in mon_path
                       or method not in ("GET", "HEAD"))
            ctx.case((cfg.name, method, wire), special,
                     dict(replay, kind=kind) if kind in ("file", "dir")
                     and ".." in mon_path else None)
            ctx.count("target " + kind)
            return term, expected, replay, req_path

        cases = []
        for cfg, method, text in singles:
            term, expected, replay, _ = one(cfg, method, text)
            cases.append((term, expected, replay))
        for cfg, method, prefix, k in groups:
            table, where, idx, okay = [], {}, [], True
            for tail in grid_tails(k):
                term, expected, replay, seen = one(cfg, method, prefix + tail)
                if seen != prefix + tail:        # never for grid segments
                    okay = False
                    cases.append((term, expected, replay))
                if expected not in where:
                    where[expected] = len(table)
                    table.append(expected)
                idx.append(where[expected])
            if okay:
                cases.append((
                    "run_serve_grid %s %s %s SEGS %d" % (
                        model_args(cfg), lit(method), lit(prefix), k),
                    "(Vpickv [%s] [%s])" % (";".join(table),
                                            ";".join(map(str, idx))),
                    dict(cfg.describe(), REQUEST_METHOD=method,
                         PATH_INFO_prefix=to_wire(prefix), grid_tail_segments=k)))
        marks.append(("application runs + monitor", time.time()))
        ctx.correspondence("serve", header, spread(cases), lambda p: p)
        marks.append(("serve correspondence", time.time()))
    finally:
        wsgi.path, wsgi.access, response.access, results.os = saved
        for key, val in saved_env.items():
            if val is None:
                os.environ.pop(key, None)
            else:
                os.environ[key] = val
        os.chdir(cwd0)
        tree.remove()
    ctx.notes.append("phase seconds: " + ", ".join(
        "%s %.1f" % (name, t - marks[i][1])
        for i, (name, t) in enumerate(marks[1:])))
    return ctx.finish(
        "normpath: every path of the property's grid (segments %r, joiners "
        "'/' and '//', with/without leading slash, up to %d segments) "
        "generated identically in Python and Coq, plus random hostile "
        "strings; serve: every configuration (root abs/relative, trailing "
        "slash, attribute/poor_DocumentRoot, index attribute/"
        "poor_DocumentIndex, debug, no root) x hand-written attack/existing "
        "paths x methods, all grid paths of <= %d segments on the main "
        "configuration, sampled longer grid paths and random hostile paths "
        "on random configurations; a case is distinct by (config, method, "
        "PATH_INFO); non-trivial = hits something that exists, or has '..', "
        "'//', NUL, no leading slash, or a method other than GET/HEAD"
        % (SEGS, 4 if ctx.quick else 5, 3 if ctx.quick else 4),
        assumptions=[
            "lexical confinement only (as the property says): symbolic links "
            "and races between the checks and open() are outside the model",
            "fs/listdir are arbitrary functions in the theorems; os.listdir "
            "returns no empty name (hypothesis of "
            "C12_listing_visible_entries)",
            "the model starts where no user route matched; req.path is the "
            "model input (the latin-1/UTF-8 re-decoding of PATH_INFO is "
            "outside the model, the theorems hold for every path)",
            "unknown REQUEST_METHOD tokens count as GET (method_number, by "
            "design, C02); 'only GET or HEAD' is read on the method number",
            "unreadable files are simulated by rebinding os.access in "
            "poorwsgi.wsgi/response/results (the check runs as root, for "
            "whom mode 000 files are readable)",
            "FileResponse body/Content-Length (file_exact) is checked by the "
            "monitor on the implementation, not proved (belongs to C06)",
        ])
