"""C16 auth tokens: obligations + correspondence (model vs session.py with a
controlled clock and an identity hash) + monitor with the real hash."""
import itertools
from fractions import Fraction

import implrun  # noqa: F401  (sets sys.path)
from core import Exn, slit, optz, zlit

IMPORTS = "Require Import PW.model.Token."
TIMEOUTS = [1, 2, 3, 5, 7, 60, 300]
POOL = ["", "s", "secret", "ab", "a", "bc", "c", "None", None, "klíč",
        "\U0001f600", "0", "12"]


class FakeHash:
    def __init__(self, data):
        self.data = data

    def hexdigest(self):
        return self.data.decode("utf-8")


class Clock:
    def __init__(self):
        self.us = 0

    def __call__(self):
        return self.us / 1e6


def instants(T, quick):
    """microsecond instants on the property's grid for timeout T"""
    out = set()
    step = Fraction(T, 2 if quick else 4)
    shifts = (0,) if quick else (0, 1, -1)
    k = 0
    while k * step <= 4 * T:
        base = int(k * step * 1000000)
        for sh in shifts:
            if base + sh >= 0:
                out.add(base + sh)
        k += 1
    for epoch in (2 ** 31, 1790000000):
        base = (epoch // T) * T * 1000000
        for off in (0, 1, -1, T * 500000, T * 1000000 - 1, T * 1000000,
                    2 * T * 1000000 - 1, 2 * T * 1000000):
            out.add(base + off)
    return sorted(out)


def run(ctx):
    from poorwsgi import session
    ctx.check_obligations()
    clock = Clock()
    real_time, real_sha = session.time, session.sha256
    session.time = clock

    def issue(secret, client, timeout, t_us):
        clock.us = t_us
        try:
            return session.get_token(secret, client, timeout)
        except ZeroDivisionError:
            return Exn("ZeroDivisionError")

    def verify(token, secret, client, timeout, t_us):
        clock.us = t_us
        try:
            return bool(session.check_token(token, secret, client, timeout))
        except ZeroDivisionError:
            return Exn("ZeroDivisionError")

    cases = []
    try:
        # ---------------- correspondence with the identity hash
        session.sha256 = FakeHash
        pairs = [("s", "c"), ("", ""), ("klíč", "\U0001f600"),
                 (None, "None")]
        for T in TIMEOUTS:
            ts = instants(T, ctx.quick)
            if ctx.quick:
                ts = ts[::2] + ts[-6:]
            for (s, c) in (pairs[:1] if ctx.quick else pairs[:2]):
                for t0 in ts:
                    tok = issue(s, c, T, t0)
                    cases.append((
                        "run_get %s %s %s %s" % (slit(str(s)), slit(str(c)),
                                                 optz(T), zlit(t0)),
                        tok, ("get", s, c, T, t0)))
                    for t1 in ts:
                        if t1 < t0:
                            continue
                        res = verify(tok, s, c, T, t1)
                        cases.append((
                            "run_verify %s %s %s %s %s %s %s" % (
                                slit(str(s)), slit(str(c)), slit(str(s)),
                                slit(str(c)), optz(T), zlit(t0), zlit(t1)),
                            res, ("verify", s, c, s, c, T, t0, t1)))
                        ctx.count("T=%d" % T)
        # no timeout and cross pairs
        for T in (None, 0):
            for (s, c), (s2, c2) in itertools.product(
                    itertools.product(POOL[:7], POOL[:7]), repeat=2):
                if ctx.quick and ctx.rng.random() > 0.2:
                    continue
                tok = issue(s, c, T, 5000000)
                res = tok if isinstance(tok, Exn) else \
                    verify(tok, s2, c2, T, 123456789000000)
                cases.append((
                    "run_verify %s %s %s %s %s 5000000 123456789000000" % (
                        slit(str(s)), slit(str(c)), slit(str(s2)),
                        slit(str(c2)), optz(T)),
                    res, ("verify", s, c, s2, c2, T, 5000000,
                          123456789000000)))
                ctx.count("T=%r" % (T,))
        ctx.correspondence("token", IMPORTS, cases, lambda p: list(p))
        for term, exp, payload in cases:
            ctx.case(payload, True, {"case": list(payload),
                                     "impl": repr(exp)[:80]})

        # ---------------- the one grid point before the epoch: 0 shifted
        # by -1e-6 (int() truncates towards zero there, floor would not)
        for T in (1, 60):
            t0, t1 = -1, 2 * T * 1000000 - 1      # t1 - t0 = 2T exactly
            tok = issue("s", "c", T, t0)
            res = verify(tok, "s", "c", T, t1)
            ctx.case(("before-epoch", T), True, {"T": T, "t0_us": t0,
                                                 "t1_us": t1})
            if res is not False:
                ctx.violation("negative-clock-window-truncation", {
                    "T": T, "t0_us": t0, "t1_us": t1, "verified": repr(res),
                    "expected": "False (t1 - t0 = 2T)"})

        # ---------------- monitor: the property itself, real SHA-256
        session.sha256 = real_sha
        for T in TIMEOUTS:
            ts = instants(T, ctx.quick)
            for t0 in ts:
                tok = issue("secret", "agent", T, t0)
                if isinstance(tok, Exn):
                    ctx.violation("raises", {"T": T, "t0": t0})
                    continue
                for t1 in ts:
                    if t1 < t0:
                        continue
                    got = verify(tok, "secret", "agent", T, t1)
                    w0, w1 = t0 // (T * 10 ** 6), t1 // (T * 10 ** 6)
                    want = w1 in (w0, w0 + 1)
                    ctx.case(("mon", T, t0, t1))
                    if got is not want:
                        ctx.violation("window", {
                            "T": T, "t0_us": t0, "t1_us": t1, "got": repr(got),
                            "want": want})
        for T in (None, 0, 60):
            for (s, c), (s2, c2) in itertools.product(
                    itertools.product(POOL, POOL), repeat=2):
                if ctx.quick and ctx.rng.random() > 0.1:
                    continue
                tok = issue(s, c, T, 60 * 10 ** 6)
                got = tok if isinstance(tok, Exn) else \
                    verify(tok, s2, c2, T, 61 * 10 ** 6)
                ctx.case(("cross", T, s, c, s2, c2))
                if isinstance(got, Exn):
                    ctx.violation("raises", {"T": T, "pair": [s, c]})
                elif (s, c) == (s2, c2):
                    if got is not True:
                        ctx.violation("same-pair-rejected",
                                      {"T": T, "pair": [s, c]})
                elif got:
                    # accepted under a different pair
                    if str(s) + str(c) == str(s2) + str(c2) or \
                            (str(s) == str(s2) and str(c) == str(c2)):
                        ctx.violation(
                            "secret-client-concatenation-ambiguous",
                            {"T": T, "issued": [s, c], "checked": [s2, c2]})
                    else:
                        ctx.violation("foreign-pair-accepted", {
                            "T": T, "issued": [s, c], "checked": [s2, c2]})
        # ---------------- tokens as the framework itself issues them (the
        # nonce of a 401 answer), for every order in which the settings are
        # assigned and every secret incl. the empty one and an override
        import re as _re
        from implrun import new_app, environ, call
        from poorwsgi import digest
        session.sha256 = real_sha
        for T, secret, order, via_env in itertools.product(
                (None, 0, 60, "default"), ("k" * 8, "", "0"),
                ("timeout-first", "type-first"), (False, True)):
            app = new_app(secret_key="app-level" if via_env else secret)
            steps = [("auth_timeout", T), ("auth_type", "Digest")]
            if order == "type-first":
                steps.reverse()
            for name, value in steps:
                if value != "default":
                    setattr(app, name, value)
            app.auth_map = {"R": {}}
            app.set_route("/p", digest.check_digest("R")(lambda req: "in"))
            extra = {"poor_SecretKey": secret} if via_env else None
            clock.us = 1000 * 10 ** 6
            ans = call(app, environ(path="/p", headers={"User-Agent": "ua"},
                                    extra=extra))
            found = _re.search(r'nonce="([^"]*)"',
                               ans.header("WWW-Authenticate") or "")
            det = {"auth_timeout": T, "secret": secret, "order": order,
                   "secret_from_environ": via_env, "status": ans.status}
            ctx.case(("issued-by-401", T, secret, order, via_env), True, det)
            ctx.count("issued-by-401")
            if ans.code != 401 or not found:
                ctx.violation("no-token-issued", det)
                continue
            eff = 300 if T == "default" else T
            for dt, want in ((1, True), (10 ** 6, not eff),
                             ((eff or 1) * 2, not eff)):
                got = verify(found.group(1), secret, "ua", eff,
                             (1000 + dt) * 10 ** 6)
                if got is not want:
                    ctx.violation("issued-token-window", dict(
                        det, seconds_later=dt, verifies=repr(got),
                        expected=want))
    finally:
        session.time, session.sha256 = real_time, real_sha
    return ctx.finish(
        "grid of the property: T in {1,2,3,5,7,60,300}, t0<=t1 on step T/4 "
        "(quick: T/2) over [0,4T] shifted by 0,+-1us plus epochs near 2^31 "
        "and 1.79e9; secret/client pool pairs with T in {None,0,60}; a case "
        "is distinct by its (T,t0,t1,secret,client) tuple; all are "
        "non-trivial (each exercises issue+verify)",
        assumptions=[
            "SHA-256 is injective on the formatted texts (hypothesis "
            "'injective H' of the theorems)",
            "IEEE rounding of time()/timeout is outside the model; grid "
            "points are >= 1us from window edges"])
