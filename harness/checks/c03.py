"""C03 hooks: obligations + correspondence on hook configurations + a trace
oracle written from the property text."""
import functools
import itertools

import implrun  # noqa: F401
import dispatch_common as dc

RESP_OK = ("base", 201, None, "text/plain", "replaced")
BEFORE_BEH = [("ret", ("none",)), ("abort", 403), ("abort", 418),
              ("abort", 599),         # a code without a reason phrase
              ("abortresp", ("base", 200, None, "text/plain", "stopped")),
              ("throw", 1), ("exit",), ("throw", 11), ("meddle",)]
AFTER_BEH = [("pass",), ("ret", ("resp", RESP_OK)), ("abort", 404),
             ("abort", 599),
             ("abortresp", ("base", 200, None, "text/plain", "after-abort")),
             ("throw", 3), ("ret", ("none",)), ("ret", ("obj",))]
ENDPOINT_BEH = [("ret", ("str", "ok")), ("ret", ("none",)), ("ret", ("obj",)),
                ("abort", 403), ("abort", 0), ("throw", 5), ("throw", 6),
                ("abort", 420), ("abort", 409),
                ("abortresp", ("base", 202, None, "text/plain", "ar")),
                ("throw", 1), ("throw", 3), ("conn",), ("throw", 11),
                ("throw", 12),
                ("ret", ("resp", ("nocontent", 204, None)))]
LEAVES = ["endpoint", "pattern", "default", "404", "405", "debug", "pre",
          "file", "dir", "403", "debugroot"]
ENDPOINT_LEAVES = ("endpoint", "pattern", "default")


def raising(b):
    return b[0] in dc.FAILING


def oracle(ctx, sc, ans, trace):
    detail = {"scenario": sc.describe(), "trace": trace,
              "status": ans.status}
    bidx = [t[1] for t in trace if t[0] == "B"]
    aev = [t for t in trace if t[0] == "A"]
    aidx = [t[1] for t in aev]
    epos = [i for i, t in enumerate(trace) if t[0] == "E"]
    dispatched = sc.construct is None and sc.leaf[0] != "pre"
    # --- before hooks
    first_stop = next((i for i, b in enumerate(sc.before) if raising(b)),
                      None)
    want_b = []
    if dispatched:
        want_b = list(range(len(sc.before) if first_stop is None
                            else first_stop + 1))
    if bidx != want_b:
        ctx.violation("before-hooks-order", dict(detail, want=want_b))
    runs_endpoint = dispatched and first_stop is None and \
        sc.leaf[0] in ENDPOINT_LEAVES
    # the hook can already see the chosen endpoint on the request
    for rule, handler in getattr(sc, "seen", []):
        if sc.leaf[0] not in ENDPOINT_LEAVES:
            break                       # 404/405/403/built-in: no endpoint
        if rule is None:
            ctx.violation("hook-ran-before-endpoint-was-chosen", detail)
            break
        if handler != "endpoint":
            ctx.violation("hook-cannot-see-endpoint",
                          dict(detail, seen_handler=handler))
            break
    # ... and so can the after hooks, whatever a before hook assigned
    if dispatched and sc.leaf[0] in ENDPOINT_LEAVES:
        for handler in getattr(sc, "seen_after", []):
            if handler != "endpoint":
                ctx.violation("after-hook-sees-another-endpoint",
                              dict(detail, seen_handler=handler))
                break
    if len(epos) != (1 if runs_endpoint else 0):
        ctx.violation("endpoint-ran-wrongly", detail)
    if epos:
        last_b = max([i for i, t in enumerate(trace) if t[0] == "B"],
                     default=-1)
        if epos[0] < last_b:
            ctx.violation("endpoint-before-hook", detail)
    # --- after hooks
    if aidx != list(range(len(aidx))):
        ctx.violation("after-hooks-order", detail)
    no_answer = len(ans.calls) == 0
    first_fail = next((i for i, b in enumerate(sc.after)
                       if raising(b) or b == ("ret", ("obj",))), None)
    reaches_after = not (no_answer and not aidx)
    if reaches_after:
        want_n = len(sc.after) if first_fail is None else first_fail + 1
        if len(aidx) != want_n:
            ctx.violation("after-hooks-count", dict(detail, want=want_n))
        # chaining of what each hook receives
        for i in range(1, len(aev)):
            prev = sc.after[i - 1]
            if prev == ("pass",) and aev[i][2] != aev[i - 1][2]:
                ctx.violation("after-chain-broken", detail)
            if prev == ("ret", ("resp", RESP_OK)) and aev[i][2] != 201:
                ctx.violation("after-chain-broken", detail)
            if prev == ("ret", ("none",)) and aev[i][2] != 204:
                ctx.violation("after-chain-broken", detail)
        if first_fail is None and sc.after and ans.calls:
            last = sc.after[-1]
            want = {("pass",): aev[-1][2] if aev else None,
                    ("ret", ("resp", RESP_OK)): 201,
                    ("ret", ("none",)): 204}.get(last)
            if want is not None and ans.code != want:
                ctx.violation("client-did-not-get-last-result",
                              dict(detail, want=want))
        if first_fail is not None and ans.calls and not sc.ehandlers \
                and not sc.shandlers:
            if ans.code < 400:
                ctx.violation("after-failure-not-error", detail)


def run(ctx):
    ctx.check_obligations()
    rng = ctx.rng
    scenarios = []
    hooks_b = [()] + [(b,) for b in BEFORE_BEH] + \
        list(itertools.product(BEFORE_BEH, repeat=2))
    hooks_a = [()] + [(a,) for a in AFTER_BEH] + \
        list(itertools.product(AFTER_BEH, repeat=2))
    full = list(itertools.product(hooks_b, hooks_a, ENDPOINT_BEH, LEAVES))
    take = rng.sample(full, 1200 if ctx.quick else 30000) \
        if len(full) > 30000 or ctx.quick else full
    for hb, ha, eb, leaf in take:
        lf = (leaf, eb) if leaf in ENDPOINT_LEAVES else \
            ("pre", rng.choice([2, 4, 4, 5])) if leaf == "pre" else (leaf,)
        with_handlers = rng.random() < 0.25
        scenarios.append(dc.Scenario(
            before=hb, after=ha, leaf=lf,
            debug=(leaf in ("debug", "debugroot")),
            method=rng.choice(["GET", "POST", "HEAD"] + (
                ["OPTIONS", "OPTIONS", "DELETE", "TRACE"]
                if leaf in ("405", "404") else []))
            if leaf not in ("file", "dir", "403", "debugroot")
            else rng.choice(["GET", "HEAD"]),
            shandlers={(403, 2): ("ret", ("str", "u403"))}
            if with_handlers else None,
            ehandlers=[(1, {2: ("ret", ("str", "ubase"))})]
            if with_handlers else ()))
    # three-hook lists
    for _ in range(200 if ctx.quick else 3000):
        scenarios.append(dc.Scenario(
            before=[rng.choice(BEFORE_BEH[:1] * 3 + BEFORE_BEH)
                    for _ in range(3)],
            after=[rng.choice(AFTER_BEH[:1] * 3 + AFTER_BEH)
                   for _ in range(3)],
            leaf=(rng.choice(ENDPOINT_LEAVES), rng.choice(ENDPOINT_BEH))))
    for sc, ans, trace in dc.run_scenarios(ctx, "hooks", scenarios):
        ctx.case(sc.describe(), bool(sc.before or sc.after),
                 {"scenario": sc.describe(), "trace": trace})
        ctx.count("b%d/a%d/%s" % (len(sc.before), len(sc.after), sc.leaf[0]))
        oracle(ctx, sc, ans, trace)
    # the hook tables are the same for every request of an application:
    # whatever was served before (the debug page lines the two tables up),
    # the next request runs each hook once, in order, around the endpoint
    from implrun import new_app, environ, call
    for nb, na in ((1, 3), (0, 1), (3, 1), (2, 2)):
        for first in ("/debug-info", "/x", "/nowhere"):
            trace = []
            app = new_app(debug=True)
            for i in range(nb):
                app.add_before_response(
                    lambda req, i=i: trace.append(("B", i)))
            for i in range(na):
                def after(req, res, i=i):
                    trace.append(("A", i))
                    return res
                app.add_after_response(after)

            def endpoint(req):
                trace.append(("E",))
                return "ok"
            app.set_route("/x", endpoint)
            call(app, environ(path=first))
            del trace[:]
            ans = call(app, environ(path="/x"))
            want = [("B", i) for i in range(nb)] + [("E",)] + \
                [("A", i) for i in range(na)]
            ctx.case(("sequence", nb, na, first), True,
                     {"before": nb, "after": na, "first_request": first})
            ctx.count("second-request")
            if trace != want or ans.code != 200:
                ctx.violation("hooks-differ-on-second-request", {
                    "before_hooks": nb, "after_hooks": na,
                    "first_request": first, "trace": trace,
                    "status": ans.status})
    # a hook may change what the chosen endpoint needs (house keeping that
    # removes the file about to be served, a route table edited in flight):
    # whatever the endpoint then does, no hook runs a second time
    import os
    import shutil
    import tempfile
    root = tempfile.mkdtemp(prefix="c03root", dir="/root/scratch")
    try:
        for nb, with_default, meth in itertools.product(
                (1, 2, 3), (False, True), ("GET", "HEAD")):
            fname = os.path.join(root, "f.txt")
            with open(fname, "w") as fil:
                fil.write("content")
            trace = []
            app = new_app(document_root=root)

            def before(req, i=0):
                trace.append(("B", i))
                if i == 0 and os.path.exists(fname):
                    os.unlink(fname)
            for i in range(nb):
                app.add_before_response(functools.partial(before, i=i))

            def after(req, res):
                trace.append(("A", 0))
                return res
            app.add_after_response(after)
            if with_default:
                def default(req):
                    trace.append(("E",))
                    return "default"
                app.set_default(default)
            ans = call(app, environ(method=meth, path="/f.txt"))
            ctx.case(("endpoint-undermined", nb, with_default, meth), True,
                     {"before_hooks": nb, "default": with_default})
            ctx.count("endpoint-undermined")
            befores = [t for t in trace if t[0] == "B"]
            if befores != [("B", i) for i in range(nb)] or \
                    trace.count(("A", 0)) != 1 or ans.raised is not None \
                    or trace[-1] != ("A", 0):
                ctx.violation("hook-count-when-file-vanishes", {
                    "before_hooks": nb, "default_handler": with_default,
                    "method": meth, "trace": trace, "status": ans.status})
    finally:
        shutil.rmtree(root, ignore_errors=True)
    return ctx.finish(
        "product of 0-2 before hooks x 0-2 after hooks (6/7 behaviours each) "
        "x 12 endpoint behaviours x request kinds {static hit, pattern hit, "
        "default handler, 404, 405, debug page with and without document "
        "root, static file, directory listing, directory 403, converter "
        "failure} (quick: seeded sample), with/without user "
        "status and exception handlers, plus random 3-hook lists; every user "
        "callable records itself in a trace; non-trivial = at least one hook",
        assumptions=["static file / directory leaves are exercised by C12; "
                     "the model treats them as the same LValue leaf"])
