"""C18 header codecs: obligations + correspondence (model vs headers.py /
wsgiref._formatparam on generated and malformed inputs) + monitor
(parse(render(x)) == x and totality on the implementation, with oracles that
do not use the model: an own RFC 9110 writer, email.utils for dates)."""
import calendar
import email.utils
import itertools
import re
import time
import unicodedata

import implrun  # noqa: F401  (sets sys.path)
from core import slit, zlit, clist, blit

IMPORTS = "Require Import PW.model.HeaderCodec."
MAX_TIME = 253402300800
# case class of the monitor: a parameter value ending in a backslash that is
# followed by a further parameter does not read back.  (A known finding until
# _parseparam was repaired -- it counted quotes instead of scanning; the key
# is kept, the class is an ordinary violation.)
KNOWN_KEY = "param-backslash-before-next-param"

# plain decimal grammar of the float installed for the correspondence runs
FLOAT_RE = re.compile(r"[+-]?([0-9]+(\.[0-9]*)?|\.[0-9]+)([eE][+-]?[0-9]+)?")


class Tok:
    """q-value that remembers its text (result of the installed float)"""
    def __init__(self, text):
        self.text = text


def fake_float(text):
    if isinstance(text, str) and FLOAT_RE.fullmatch(text.strip()):
        return Tok(text)
    raise ValueError("could not convert string to float")


def real_float_ok(text):
    try:
        float(text)
        return True
    except ValueError:
        return False


class Exn:
    """an exception outcome (class name only)"""
    def __init__(self, name):
        self.name = name

    def __repr__(self):
        return "Exn(%s)" % self.name

    def __eq__(self, other):
        return isinstance(other, Exn) and other.name == self.name

    def __hash__(self):
        return hash(self.name)


# ------------------------------------------------------------ Coq literals
def zexpr(n):
    """Z term for n; Coq reads numerals of thousands of digits very slowly,
    so long ones are written by Horner's rule over 100-digit chunks"""
    if -10 ** 120 < n < 10 ** 120:
        return zlit(n)
    text = str(n)
    head = len(text) % 100 or 100
    term = text[:head]
    for k in range(head, len(text), 100):
        term = "(%s * 10^100 + %d)" % (term, int(text[k:k + 100]))
    return term


def optz(x):
    return "None" if x is None else "(Some %s)" % zexpr(x)


def tov(obj):
    """expected value as a term of type V (same shapes as core.to_v)"""
    if isinstance(obj, Exn):
        return '(VX "%s")' % obj.name
    if obj is None:
        return "VN"
    if isinstance(obj, bool):
        return "(VB %s)" % blit(obj)
    if isinstance(obj, int):
        return "(VZ %s)" % zexpr(obj)
    if isinstance(obj, str):
        return "(VS %s)" % slit(obj)
    if isinstance(obj, (list, tuple)):
        return "(VL %s)" % clist(tov(x) for x in obj)
    if isinstance(obj, dict):
        return "(VL %s)" % clist(tov((k, v)) for k, v in obj.items())
    raise TypeError("cannot render %r" % (obj,))


def ostr(s):
    return "None" if s is None else "(Some %s)" % slit(s)


def ranges_lit(rs):
    return clist("(%s, %s)" % (optz(a), optz(b)) for a, b in rs)


def kwargs_lit(items):
    return clist("(%s, %s)" % (slit(k), ostr(v)) for k, v in items)


def nego_lit(items):
    out = []
    for it in items:
        if len(it) == 1:
            out.append("(%s, None)" % slit(it[0]))
        else:
            out.append("(%s, Some (Some %s))" % (slit(it[0]),
                                                  slit(str(it[1]))))
    return clist(out)


# ------------------------------------------------------------ model domain
def has_foreign_digit(s):
    """\\d / int() also take non-ASCII decimal digits; the model does not"""
    return any(ord(c) > 127 and unicodedata.category(c) == "Nd" for c in s)


def lower_in_model(s):
    """lower() is modelled for Latin-1; above it must be the identity"""
    return all(ord(c) < 256 or c.lower() == c for c in s)


def spread(cases, shard=400):
    """order the cases so that the few expensive ones (thousands of
    characters) land in different shards of core.coq_eval"""
    heavy = [c for c in cases if len(c[0]) + len(c[1]) > 4000]
    light = [c for c in cases if len(c[0]) + len(c[1]) <= 4000]
    count = max(1, -(-len(cases) // shard))
    buckets = [[] for _ in range(count)]
    for k, case in enumerate(heavy):
        buckets[k % count].append(case)
    pos = 0
    for bucket in buckets:
        take = max(0, shard - len(bucket))
        bucket.extend(light[pos:pos + take])
        pos += take
    buckets[-1].extend(light[pos:])
    return [case for bucket in buckets for case in bucket]


def correspond(ctx, name, cases):
    start = time.time()
    ctx.correspondence(name, IMPORTS, spread(
        [(term, tov(exp), pay) for term, exp, pay in cases]), list)
    ctx.extra.setdefault("phase_seconds", {})["coq:" + name] = \
        round(time.time() - start, 1)


def outcome(fun, *args, **kwargs):
    try:
        return fun(*args, **kwargs)
    except Exception as err:  # noqa: the observable is the class name
        return Exn(type(err).__name__)


# ------------------------------------------------------------- generators
INT_POOL = [0, 1, 9, 10, 99, 499, 500, 9500, 2 ** 31 - 1, 2 ** 31, 2 ** 32,
            2 ** 53, 2 ** 63 - 1, 2 ** 63, 2 ** 64, 10 ** 30, 10 ** 100]
UNITS = ["bytes", "units", "chunks", "", "b y", "klíč", "a-b,c"]

def gen_int(rng):
    kind = rng.random()
    if kind < 0.6:
        return rng.choice(INT_POOL)
    if kind < 0.8:
        return rng.randrange(0, 2 ** 63 + 1)
    return rng.randrange(0, 10 ** rng.randrange(1, 60))


def gen_huge(rng):
    """up to CPython's 4300-digit limit (the model needs ~1 s for each)"""
    return 10 ** rng.choice([4298, 4299]) + rng.randrange(0, 1000)


def gen_range(rng):
    kind = rng.randrange(3)
    if kind == 0:
        return (gen_int(rng), gen_int(rng))
    if kind == 1:
        return (gen_int(rng), None)
    return (None, gen_int(rng))


def write_ranges(units, rs):
    """RFC 9110 ranges-specifier, written here (not by the model)"""
    return units + "=" + ",".join(
        ("" if a is None else str(a)) + "-" + ("" if b is None else str(b))
        for a, b in rs)


def rand_text(rng, alphabet, maxlen):
    return "".join(rng.choice(alphabet)
                   for _ in range(rng.randrange(0, maxlen + 1)))


def rand_unicode(rng, maxlen):
    out = []
    for _ in range(rng.randrange(0, maxlen + 1)):
        kind = rng.random()
        if kind < 0.5:
            c = rng.randrange(32, 127)
        elif kind < 0.7:
            c = rng.randrange(0, 256)
        elif kind < 0.9:
            c = rng.randrange(256, 0x3000)
        else:
            c = rng.randrange(0x3000, 0x110000)
        if 0xD800 <= c <= 0xDFFF:
            c = 0xFFFD
        out.append(chr(c))
    return "".join(out)


RANGE_MALFORMED = [
    "", "=", "==", "a=b=c", "-", "invalid", "invalid=a-b", "bytes=",
    "bytes=-", "bytes=--", "bytes=,", "bytes=,,,", "bytes=1-2-3,,4",
    "bytes=12a3-,--5-6,7", "bytes=0-499", "bytes=0-1,1-2,1-,-5", "=-", "=1-",
    "bytes= 1 - 2 ", "bytes=1-2, 3-4", "bytes=007-0008", "bytes=1",
    "bytes=1,2", "bytes=-1--2", "bytes=1-\n2", "bytes=" + "1" * 4300 + "-",
    "bytes=" + "1" * 4301 + "-", "bytes=-" + "0" * 4301,
    "bytes=5-," + "9" * 5000 + "-1", "bytes=" + "-," * 300,
    "bytes=" + "1-2," * 200, "x=" + "-" * 500, "é=1-2", "bytes=1-2é",
]
DATE_SPECIAL = [
    0, 1, 59, 60, 3599, 3600, 86399, 86400, 68169600 - 1, 68169600,
    68256000, 951782399, 951782400, 951868800, 946684799, 946684800,
    2 ** 31 - 1, 2 ** 31, 2 ** 32, 4107542399, 4107542400, 4102444800 - 1,
    4102444800, 4107456000, 13574563200 - 1, 13574563200, 13569465600,
    13574649600, 253402300799, 253402214400, 253370764800,
    MAX_TIME - 86400 * 366, 951782400 + 86400 * 146097,
]
NAMES = ["gzip", "*", "text/html", "text/html;level=1", "identity", "a b",
         "klíč", "x;q", "q=1", ";q", "br", "*/*", "a;b=c", "x y z",
         "de-DE", "utf-8"]
NEGO_MALFORMED = [
    "", ",", ",,", ";q=", ";q=;q=", "a;q=1;q=2, b;q=, ;q=0.5,c;q=x",
    "gzip;q=1.0, identity;q=0.5, *;q=0", "a;q= 0.5 ,b;q=.5,c;q=5.,d;q=.",
    "a;q=1e3,b;q=1e,c;q=e3,d;q=+1,e;q=-0.0,f;q=+-1,g;q=1.2.3",
    "a;q=0.5;level=1", "a ;q=0.5", "a; q=0.5", "a;Q=0.5", " ; q = 1 ",
    "a;q=1 e3", "a;q= 0.5 ", ";q" * 50, ";q=" * 200, "," * 2000,
    "a;q=0.1," * 300,
]
PARAM_ALPHA = ["a", "B", " ", ";", '"', "\\", "=", ",", "é", "ř",
               # characters whose UTF-8 bytes, read as Latin-1, are "white
               # space" or "line ends" to str methods (0x85 NEL, 0xA0 NBSP,
               # 0x1C-0x1F): Å = C3 85, à = C3 A0, х = D1 85, ą = C4 85
               "\u00c5", "\u00e0", "\u0445", "\u0105", "\u2028", "_",
               # code points with a canonical (de)composition: a value comes
               # back as given, not normalised (e + combining acute, ANGSTROM
               # SIGN, OHM SIGN, a Hangul syllable, a ligature)
               "e\u0301", "\u212b", "\u2126", "\ud55c", "\ufb01"]
PARAM_MALFORMED = [
    "", ";", ";;;", " ", " ; ; ", '"', '""', '"""', 'a="', 'a="b;c', "=", "==",
    ";=;=", 'x; a="\\\\"; b="c"', 'x; a="\\"; b="c"', 'form-data; a="x\\\\"',
    'text/html; charset=latin-1', 'text/plain', 'a;b;c', 'A; B=C; b=d',
    'x; n="a\\"b\\\\c;d"', 'x;n=";";m=1', "x; ÉTÉ=Á", "x;a=\"",
    'x; a="b" ; A = "c"', "x;a==b", 'x;a="b"c"', 'x;a= " b " ', "x; =v",
    'x;a="\\', "x;a=\\\"", ";" * 3000, '";' * 400, '\\";' * 300,
    'a="b";' * 150, '"' + ";" * 700, "x; a=" + "\\" * 500 + '"',
]


def gen_param_value(rng, maxlen=5):
    return "".join(rng.choice(PARAM_ALPHA)
                   for _ in range(rng.randrange(1, maxlen + 1)))


PARAM_KEYS = ["a", "filename", "fname", "charset", "file_name", "b", "x-y",
              "q", "boundary"]
# ends of a value that matter to a splitter: backslashes (rendered doubled,
# so the closing quote follows a backslash), quotes (rendered as backslash
# quote), and their mixtures, with ';' and blanks around
PARAM_TAILS = ["\\", "\\\\", "\\\\\\", '"', '\\"', '"\\', '\\\\"', '"\\\\',
               ';\\', '\\;', '; \\', '";', ';"', '"; b="', '\\"; b="c', " \\",
               "\\ ", '""', '"\\"', "=\\", ",\\"]


def gen_backslash_dict(rng):
    """2..4 parameters; every value but (perhaps) the last one ends in a
    backslash / quote mixture, so the next parameter follows it directly"""
    keys = rng.sample(PARAM_KEYS, rng.randrange(2, 5))
    out = {}
    for pos, key in enumerate(keys):
        body = rand_text(rng, PARAM_ALPHA, 3)
        if pos < len(keys) - 1 or rng.random() < 0.5:
            out[key] = body + rng.choice(PARAM_TAILS)
        else:
            out[key] = body + rng.choice(["x", "b", "é"])
    return out


def mutate_date(rng, text):
    """variations on which strptime and the strict reader agree"""
    kind = rng.randrange(10)
    days = ["Sun", "Mon", "Tue", "Wed", "Thu", "Fri", "Sat"]
    if kind == 0:
        return rng.choice(days) + text[3:]
    if kind == 1:
        return rng.choice(["Xyz", "Th", "Thur", ""]) + text[3:]
    if kind == 2:
        return text[:5] + rng.choice(["00", "29", "30", "31", "32", "99"]) \
            + text[7:]
    if kind == 3:
        return text[:8] + rng.choice(["Feb", "Apr", "Jun", "Sep", "Nov",
                                      "Foo", "Ja", "January"]) + text[11:]
    if kind == 4:
        return text[:17] + rng.choice(["24", "23", "99"]) + text[19:]
    if kind == 5:
        pos = rng.choice([20, 23])
        return text[:pos] + rng.choice(["60", "61", "59", "99"]) \
            + text[pos + 2:]
    if kind == 6:
        return text + rng.choice(["x", "0", "T"])
    if kind == 7:
        return text[:rng.randrange(0, len(text))]
    if kind == 8:
        pos = rng.choice([5, 6, 12, 13, 14, 15, 17, 18, 20, 21, 23, 24])
        return text[:pos] + rng.choice("aZ-:") + text[pos + 1:]
    return text[:12] + rng.choice(["0000", "0001", "0999", "1000"]) + text[16:]


# ==========================================================================
def run(ctx):
    from poorwsgi import headers as H
    rng = ctx.rng
    quick = ctx.quick
    start = time.time()
    ctx.check_obligations()
    ctx.extra.setdefault("phase_seconds", {})["obligations"] = \
        round(time.time() - start, 1)

    # ------------------------------------------------------------ ranges
    cases = []
    sets = [[]]
    for _ in range(150 if quick else 2500):
        sets.append([gen_range(rng) for _ in range(rng.randrange(1, 6))])
    for n in INT_POOL:
        sets += [[(n, n)], [(n, None)], [(None, n)]]
    sets.append([(10 ** 4299, None)])
    sets.append([(0, 10 ** 4300 - 1)])
    for _ in range(3 if quick else 40):
        sets.append([(gen_huge(rng), rng.choice([None, gen_huge(rng)])),
                     gen_range(rng)])
    sets.append([(10 ** 4300, None)])            # beyond the int<->str limit
    for rs in sets:
        units = rng.choice(UNITS)
        over = any(x is not None and x >= 10 ** 4300 for r in rs for x in r)
        if over:
            text = units + "=" + "1" + "0" * 4300 + "-"
        else:
            text = write_ranges(units, rs)
            # (the model's dec divides by 10 bit by bit: 4300-digit numbers
            # are only parsed, not rendered, by the model)
            if all(x is None or x < 10 ** 200 for r in rs for x in r):
                cases.append(("run_render_ranges %s %s" % (
                    slit(units), ranges_lit(rs)), text,
                    ("render_ranges", units, len(rs))))
        got = outcome(H.parse_range, text)
        cases.append(("run_parse_range %s" % slit(text), got,
                      ("parse_range", text[:200])))
        ctx.count("range:valid")
        # monitor: exactly the pairs written
        ctx.case(("range", text[:300]), True,
                 {"codec": "range", "text": text[:80]})
        want = {} if over else {units: [tuple(r) for r in rs]}
        if "=" in units:
            want = {}
        if got != want:
            ctx.violation("range-roundtrip", {
                "text": text[:300], "got": repr(got)[:300]})
        small = all(x is None or x < 10 ** 200 for r in rs for x in r)
        if rs and small and "=" not in units and rng.random() < 0.3:
            # RFC 9110 list syntax: blanks around ',' and leading zeros
            sep = rng.choice([", ", " ,", " , ", ",\t", ",,", ", ,"])
            pad = rng.choice(["", "0", "000"])
            text = units + "=" + sep.join(
                ("" if a is None else pad + str(a)) + "-" +
                ("" if b is None else pad + str(b)) for a, b in rs)
            got = outcome(H.parse_range, text)
            ctx.count("range:valid with OWS / zeros")
            ctx.case(("range", text[:300]), True)
            cases.append(("run_parse_range %s" % slit(text), got,
                          ("parse_range", text[:200])))
            if got != want:
                ctx.violation("range-roundtrip-ows", {
                    "text": text[:300], "got": repr(got)[:300]})
    malformed = list(RANGE_MALFORMED)
    for _ in range(400 if quick else 6000):
        kind = rng.random()
        if kind < 0.6:
            malformed.append(rand_text(rng, "0123456789--,,== ab", 24))
        elif kind < 0.8:
            malformed.append("bytes=" + rand_text(rng, "0123456789-,", 30))
        else:
            malformed.append(rand_unicode(rng, 20))
    malformed += ["bytes=٣-٤", "٣=١-", "b=1۲-3"]
    for text in malformed:
        got = outcome(H.parse_range, text)
        ctx.case(("range-any", text[:300]), True)
        if isinstance(got, Exn) or not isinstance(got, dict):
            ctx.violation("parse_range-raises", {"text": text[:300],
                                                 "got": repr(got)})
        if has_foreign_digit(text):
            ctx.count("range:non-ascii-digit (monitor only)")
            continue
        ctx.count("range:malformed")
        cases.append(("run_parse_range %s" % slit(text), got,
                      ("parse_range", text[:200])))
        part = text.split("=")[-1]
        if quick and len(part) > 1500:
            continue
        cases.append(("run_findall %s" % slit(part),
                      [list(m) for m in H.RE_BYTES_RANGE.findall(part)],
                      ("findall", part[:200])))
    for _ in range(20 if quick else 200):
        a, b = gen_int(rng), gen_int(rng)
        full = rng.choice([None, gen_int(rng)])
        units = rng.choice(UNITS)
        text = str(H.ContentRange(a, b, "*" if full is None else full, units))
        cases.append(("run_content_range %s %s %s %s" % (
            slit(units), zexpr(a), zexpr(b), optz(full)), text,
            ("content_range", text[:100])))
    correspond(ctx, "range", cases)

    # ------------------------------------------------------------- dates
    cases = []
    stamps = set(DATE_SPECIAL)
    for year in (1970, 1972, 1999, 2000, 2001, 2038, 2099, 2100, 2101, 2399,
                 2400, 2401, 4000, 9996, 9999):
        for mon, day in ((1, 1), (2, 28), (3, 1), (12, 31), (2, 29)):
            try:
                base = calendar.timegm((year, mon, day, 0, 0, 0))
            except ValueError:
                continue
            if (mon, day) == (2, 29) and not calendar.isleap(year):
                continue
            stamps.update((base, base - 1, base + 86399))
    for _ in range(400 if quick else 8000):
        stamps.add(rng.randrange(0, MAX_TIME))
    for _ in range(100 if quick else 1000):
        stamps.add(rng.randrange(0, 2 ** 32))
    stamps = sorted(t for t in stamps if 0 <= t < MAX_TIME)
    for t in stamps:
        text = outcome(H.time_to_http, t)
        cases.append(("run_time_to_http %s" % zlit(t), text,
                      ("time_to_http", t)))
        ctx.count("date:valid")
        ctx.case(("date", t), True, {"codec": "date", "t": t,
                                     "text": repr(text)})
        if isinstance(text, Exn):
            ctx.violation("time_to_http-raises", {"t": t, "got": repr(text)})
            continue
        back = outcome(H.http_to_time, text)
        cases.append(("run_http_to_time %s" % slit(text), back,
                      ("http_to_time", text)))
        # monitor: round trip, and an independent writer/reader
        if back != t:
            ctx.violation("date-roundtrip", {"t": t, "text": text,
                                             "back": repr(back)})
        if text != email.utils.formatdate(t, usegmt=True):
            ctx.violation("date-not-imf-fixdate", {
                "t": t, "text": text,
                "oracle": email.utils.formatdate(t, usegmt=True)})
        if calendar.timegm(email.utils.parsedate(text)) != t:
            ctx.violation("date-roundtrip", {"t": t, "text": text,
                                             "oracle": "email.utils"})
    for t in (MAX_TIME, MAX_TIME + 1, MAX_TIME + 86400, 2 * MAX_TIME,
              -1, -86400, -86401, -2208988800, -30610224000,
              -62135596800 - 1, -62135596800 - 86400 * 400):
        cases.append(("run_time_to_http %s" % zlit(t),
                      outcome(H.time_to_http, t), ("time_to_http", t)))
        ctx.count("date:outside 1970..9999")
    for t in rng.sample(stamps, 300 if quick else 3000):
        text = mutate_date(rng, H.time_to_http(t))
        cases.append(("run_http_to_time %s" % slit(text),
                      outcome(H.http_to_time, text), ("http_to_time", text)))
        ctx.count("date:mutated")
    correspond(ctx, "date", cases)

    # ------------------------------------------------------- negotiation
    cases = []
    lists = []
    for _ in range(300 if quick else 5000):
        items = []
        for _ in range(rng.randrange(1, 7)):
            name = rng.choice(NAMES)
            kind = rng.randrange(4)
            if kind == 0:
                items.append((name,))
            elif kind == 1:
                items.append((name, rng.choice([0, 1, 1.0, 0.0, 0.5])))
            else:
                items.append((name, round(rng.random(),
                                          rng.randrange(1, 4))))
        lists.append(items)
    real = H.__dict__.get("float")
    try:
        for items in lists:
            text = H.render_negotiation(items)
            cases.append(("run_render_nego %s" % nego_lit(items), text,
                          ("render_negotiation", repr(items)[:200])))
            # monitor with the real float
            got = outcome(H.parse_negotiation, text)
            want = [(it[0], float(it[1]) if len(it) > 1 else 1.0)
                    for it in items]
            ctx.count("nego:valid")
            ctx.case(("nego", text), True, {"codec": "negotiation",
                                            "text": text})
            if got != want:
                ctx.violation("negotiation-roundtrip", {
                    "items": repr(items), "text": text, "got": repr(got)})
            # what a caller does with a parsed list (sort by quality, pop
            # the best) stays with that caller
            if isinstance(got, list) and got:
                got.sort(key=lambda it: (-it[1], it[0]))
                got.pop()
                again = outcome(H.parse_negotiation, text)
                if again != want:
                    ctx.violation("negotiation-parse-depends-on-history", {
                        "items": repr(items), "text": text,
                        "second_parse": repr(again)})
            hdr = H.Headers()
            hdr.add_header("Accept", items)
            if hdr["Accept"] != H.Headers.iso88591(text):
                ctx.violation("negotiation-add_header", {
                    "items": repr(items), "stored": hdr["Accept"]})
        # the empty list: written as '' which reads as one nameless item
        # (recorded, not judged: the quantifier's lists have items)
        empty = outcome(H.parse_negotiation, H.render_negotiation([]))
        ctx.count("nego:empty list")
        if empty != []:
            ctx.notes.append(
                "parse_negotiation(render_negotiation([])) = %r, not []; "
                "see C18_negotiation_roundtrip_empty_refuted" % (empty,))
        texts = [H.render_negotiation(items) for items in lists]
        texts += NEGO_MALFORMED
        for _ in range(400 if quick else 6000):
            kind = rng.random()
            if kind < 0.6:
                texts.append(rand_text(
                    rng, ",,;;qq== ..0123456789e+-axé", 30))
            elif kind < 0.8:
                texts.append(", ".join(
                    rng.choice(NAMES) + rng.choice(["", ";q=", ";q", "; q="])
                    + rand_text(rng, " .0159e+-", 6)
                    for _ in range(rng.randrange(1, 5))))
            else:
                texts.append(rand_unicode(rng, 20))
        for text in texts:
            got = outcome(H.parse_negotiation, text)
            ctx.case(("nego-any", text[:300]), True)
            if isinstance(got, Exn) or not isinstance(got, list):
                ctx.violation("parse_negotiation-raises", {
                    "text": text[:300], "got": repr(got)})
        # correspondence with the installed float
        H.float = fake_float
        for text in texts:
            for tok in text.split(","):
                for part in tok.split(";q=")[1:2]:
                    if all(c in "0123456789+-.eE \t" for c in part) and \
                            bool(FLOAT_RE.fullmatch(part.strip())) != \
                            real_float_ok(part):
                        ctx.unproved("installed float differs from float()",
                                     {"text": part})
            got = outcome(H.parse_negotiation, text)
            if not isinstance(got, Exn):
                got = [(name, q.text if isinstance(q, Tok) else None)
                       for name, q in got]
            cases.append(("run_parse_nego %s" % slit(text), got,
                          ("parse_negotiation", text[:200])))
            ctx.count("nego:parsed")
    finally:
        if real is None:
            H.__dict__.pop("float", None)
        else:
            H.float = real
    correspond(ctx, "nego", cases)

    # -------------------------------------------------------- parameters
    cases = []
    dicts = []
    small = ["".join(p) for n in (1, 2, 3)
             for p in itertools.product(PARAM_ALPHA[:9], repeat=n)]
    if quick:
        for val in rng.sample(small, 150):
            dicts.append({"a": val})
        for _ in range(150):
            dicts.append({"a": rng.choice(small[:90]),
                          "filename": rng.choice(small[:90])})
    else:
        for val in small:
            dicts.append({"a": val})
        for v1, v2 in itertools.product(small[:90], repeat=2):
            dicts.append({"a": v1, "filename": v2})
    for _ in range(500 if quick else 8000):
        keys = rng.sample(PARAM_KEYS, rng.randrange(1, 5))
        dicts.append({k: gen_param_value(rng) for k in keys})
    for _ in range(300 if quick else 5000):
        dicts.append(gen_backslash_dict(rng))
    for tail in PARAM_TAILS:                # every tail in front of a parameter
        dicts.append({"a": "x" + tail, "filename": "b"})
        dicts.append({"a": tail, "filename": tail, "b": "c" + tail})
    dicts.append({"a": "x\\", "filename": "b"})   # witness of the old finding
    dicts.append({"a": "x\\"})
    dicts.append({"a": "b", "filename": "x\\"})
    dicts.append({"a": "trail\\", "filename": "f.txt", "b": "\\", "q": "\\\\"})
    rendered = []
    for params in dicts:
        main = rng.choice(["form-data", "attachment", "text/html", "x y", ""])
        hdr = H.Headers()
        got = outcome(hdr.add_header, "Content-Disposition", main, **params)
        ctx.count("param:dict of %d" % len(params))
        if isinstance(got, Exn):
            ctx.violation("add_header-raises", {"main": main,
                                                "params": params})
            continue
        stored = hdr["Content-Disposition"]
        rendered.append(stored)
        cases.append(("run_add_header %s %s" % (
            ostr(H.Headers.iso88591(main)),
            kwargs_lit((H.Headers.iso88591(k), H.Headers.iso88591(v))
                       for k, v in params.items())), stored,
            ("add_header", main, repr(params)[:200])))
        # monitor: what a client reads back
        text = H.Headers.utf8(stored)
        rendered.append(text)
        back = outcome(H.parse_header, text)
        want = (main, {k.replace("_", "-").lower(): v
                       for k, v in params.items()})
        ctx.case(("param", main, tuple(params.items())), True,
                 {"codec": "param", "params": params, "stored": stored})
        vals = list(params.values())
        if any(v.endswith("\\") for v in vals[:-1]):
            ctx.count("param:backslash in front of a further parameter")
        if back != want:
            if any(v.endswith("\\") for v in vals[:-1]):
                ctx.violation(KNOWN_KEY, {"main": main, "params": params,
                                          "stored": stored,
                                          "got": repr(back)})
            else:
                ctx.violation("param-roundtrip", {
                    "main": main, "params": params, "stored": stored,
                    "got": repr(back)})
    hdr = H.Headers()
    hdr.add_header("X-Flag", "v", flag=None, empty="", under_score="1")
    cases.append(("run_add_header (Some [118]) %s" % kwargs_lit(
        [("flag", None), ("empty", ""), ("under_score", "1")]),
        hdr["X-Flag"], ("add_header", "flags")))
    cases.append(("run_add_header None []",
                  outcome(H.Headers().add_header, "X"), ("add_header", "-")))
    for _ in range(100 if quick else 1000):
        par = rng.choice(PARAM_KEYS)
        val = rng.choice([None, "", gen_param_value(rng),
                          rand_text(rng, "abc-_.09", 5)])
        quote = rng.choice([0, 1])
        cases.append(("run_formatparam %s %s %s" % (slit(par), ostr(val),
                                                    blit(quote)),
                      H._formatparam(par, val, quote),
                      ("_formatparam", par, val, quote)))
    texts = rendered + PARAM_MALFORMED
    for _ in range(600 if quick else 10000):
        kind = rng.random()
        if kind < 0.55:
            texts.append(rand_text(rng, PARAM_ALPHA, 16))
        elif kind < 0.8:
            texts.append("x" + "".join(
                rng.choice(["; ", ";", " ;"]) + rng.choice(PARAM_KEYS)
                + rng.choice(["=", " = ", ""])
                + rng.choice(['"', "", '\\"']) + rand_text(rng, PARAM_ALPHA, 6)
                + rng.choice(['"', "", '\\"', '\\\\"'])
                for _ in range(rng.randrange(0, 5))))
        else:
            texts.append(rand_unicode(rng, 24))
    for text in texts:
        got = outcome(H.parse_header, text)
        ctx.case(("param-any", text[:300]), True)
        ok = isinstance(got, tuple) and len(got) == 2 and \
            isinstance(got[0], str) and isinstance(got[1], dict)
        if not ok:
            ctx.violation("parse_header-raises", {"text": text[:300],
                                                  "got": repr(got)})
        if not lower_in_model(text):
            ctx.count("param:cased above U+00FF (monitor only)")
            continue
        ctx.count("param:parsed")
        cases.append(("run_parse_header %s" % slit(text), got,
                      ("parse_header", text[:200])))
        if len(text) < 200:
            cases.append(("run_parseparam %s" % slit(text),
                          outcome(lambda s: list(H._parseparam(s)), text),
                          ("_parseparam", text[:200])))
    correspond(ctx, "param", cases)

    return ctx.finish(
        "ranges: sets of 0..5 first-last/first-/-suffix items over an integer "
        "pool (0..2^64, 10^30, 10^100, 4300-digit numbers, one beyond the "
        "limit) and random integers, written by the harness's own RFC 9110 "
        "writer; dates: calendar corner seconds (leap days, year, century, "
        "400-year-era boundaries 1970..9999) plus uniform random; "
        "negotiation: 1..6 items from a name pool with q absent / int / "
        "1-3 decimals; parameters: all values of length <=3 over "
        "{a,B,space,;,\",\\,=,comma,e-acute} (quick: a sample), pairs of "
        "those, random dicts of 1..4 entries incl. non-Latin-1 text, dicts "
        "of 2..4 entries whose values end in backslash / quote mixtures in "
        "front of further parameters; each "
        "parser also gets a malformed stream (literal corner strings, "
        "random strings over the separators, arbitrary Unicode, thousands "
        "of separators). A case is distinct by its codec and input text; "
        "all are non-trivial (each is rendered and parsed or parsed).",
        assumptions=[
            "strftime/strptime of CPython in the C locale are trusted; the "
            "model is the strict reader of what strftime writes (variations "
            "strptime also accepts are not compared)",
            "float(str(q)) == q, str(q) has no ',' or ';', float() raises "
            "only ValueError (Section hypotheses); the correspondence runs "
            "parse_negotiation with an installed float of the plain decimal "
            "grammar that keeps its text",
            "regex \\d and int() are modelled for ASCII digits; inputs with "
            "other Unicode decimal digits are checked by the monitor only",
            "str.lower() is modelled for U+0000..U+00FF; inputs with cased "
            "letters above are checked by the monitor only",
            "CPython's int<->str digit limit is the default 4300",
            "Headers.iso88591/utf8 transcoding is outside the model (the "
            "monitor applies it as a client would)"])
