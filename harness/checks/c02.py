"""C02 routing: obligations + correspondence + monitor.

Correspondence (model vs /repo, same inputs):
  filters  the built-in filter table of the model = app.filters of a fresh
           Application (table tie);
  regex    the model of Python's re (parser, derivative acceptor, backtracking
           matcher with captures) against CPython's re on patterns x texts,
           and "fails closed" on syntax outside the subset;
  tables   after a sequence of set_filter / set_route / set_regular_route /
           set_default calls: pattern texts, group counts, per-method
           (handler, converters, rule) in table order, outcome of every call;
  bridge   re.compile of the generated pattern text = the structured
           expression the theorems speak about (also proved: compile_bridge);
  select   for every probe (method token, PATH_INFO): status, uri_rule and
           uri_handler seen by a before hook, which handler ran, its
           positional arguments and req.path_args.
Monitor: RefRouter, written from the property text: own scanner of
<name:filter> groups, per-segment re.fullmatch over every split of the path,
documented precedence; judges which endpoint ran, its arguments, status."""
import itertools
import os
import re
import shutil
import unicodedata
import uuid

import implrun  # noqa: F401  (sets sys.path)
from implrun import new_app, environ, call
from core import Exn, slit, clist, blit

IMPORTS = "Require Import PW.model.Regex PW.model.Routing."

BITS = [1, 2, 4, 8, 16, 32, 64, 128, 256]
METHODS = ["HEAD", "GET", "POST", "PUT", "DELETE", "TRACE", "OPTIONS",
           "CONNECT", "PATCH"]
MBIT = dict(zip(METHODS, BITS))
UNKNOWN = ["FOO", "get", "", "GETX", "Post"]
UUID1 = "12345678-1234-1234-1234-123456789abc"
UUID2 = "ABCDEF01-aaaa-BBBB-0000-0123456789Ab"


class Tag:
    def __init__(self, ident, text):
        self.ident, self.text = ident, text


def tagger(ident):
    def conv(text):
        return Tag(ident, text)
    conv.tag_id = ident
    return conv


TAG7 = tagger(7)
CONVS = {"int": int, "float": float, "str": str, "UUID": uuid.UUID,
         "tag7": TAG7}


def conv_term(name):
    return {"int": "CInt", "float": "CFloat", "str": "CStr",
            "UUID": "CUuid", "tag7": "(CTag 7)"}[name]


def conv_view(fun):
    if hasattr(fun, "tag_id"):
        return [Exn("tag"), fun.tag_id]
    return Exn({int: "int", float: "float", str: "str",
                uuid.UUID: "UUID"}[fun])


def canon(val):
    """what a handler received, as the model encodes it"""
    if val is None or isinstance(val, (str, int)) and \
            not isinstance(val, bool):
        return val
    if isinstance(val, float):
        num, den = val.as_integer_ratio()
        return [Exn("float"), num, den]
    if isinstance(val, uuid.UUID):
        return [Exn("uuid"), val.int]
    if isinstance(val, Tag):
        return [Exn("tag"), val.ident, val.text]
    return Exn("other:%s" % type(val).__name__)


# ------------------------------------------------------------------- pools
# user filters: name -> (set_filter name, regex, converter name)
UFILTERS = {
    "slug": ("slug", r"[a-z0-9-]+", "str"),
    "uint": (":uint", r"\d+", "int"),
    "tag": ("tag", r"[A-Z][a-z]*", "tag7"),
    "num": ("num", r"\w+", "int"),          # converter may raise
    "fl": ("fl", r"[0-9.]+", "float"),      # converter may raise
    "any": ("any", r".+", "str"),           # crosses segments
    "int": ("int", r"[0-9]{2}", "str"),     # overrides a built-in
    "re:x": (":re:x", r"xx", "tag7"),       # shadows an inline expression
}

# (route text, user filters needed, sample paths)
STATIC = ["/", "/a", "/a/b", "/A", "/a/", "/é", "/b-c", "/a/b/c", "/x1",
          "/ž/é", "/i/10", "/debug-info", "/f.txt", "/d",
          # the same letter precomposed and as base + combining mark: two
          # different paths
          "/kav\u00e1rna", "/cafe\u0301"]
GROUP = [
    ("/a/<n>", [], ["/a/b", "/a/é", "/a/10"]),
    ("/<n>", [], ["/a", "/ž"]),
    ("/i/<n:int>", [], ["/i/10", "/i/-5", "/i/007"]),
    ("/a/<n:int>", [], ["/a/10"]),
    ("/f/<x:float>", [], ["/f/1.5", "/f/-5", "/f/0.1", "/f/10.25"]),
    ("/f/<x:float>/<y:int>", [], ["/f/1.5/3", "/f/2/-4"]),
    ("/w/<w:word>", [], ["/w/ab", "/w/é_1", "/w/ž", "/w/e\u0301"]),
    ("/h/<h:hex>", [], ["/h/0Af", "/h/ff"]),
    ("/u/<u:uuid>", [], ["/u/" + UUID1, "/u/" + UUID2]),
    ("/r/<v:re:[A-Z]+>", [], ["/r/ABC", "/r/A"]),
    ("/r/<v:re:\\S+>", [], ["/r/ab", "/r/a/b"]),
    ("/r/<v:re:[a-c]{2}>", [], ["/r/ab", "/r/cc"]),
    ("/r/<v:re:\\D\\w>", [], ["/r/ab", "/r/-é"]),
    ("/r/<v:re:a|b>", [], ["/r/a", "/r/b"]),
    ("/r/<v:Re:[A-Z][a-z]?>", [], ["/r/Ab", "/r/A"]),
    ("/r/<v:re:x>", [], ["/r/x"]),
    ("/r/<v:re:>", [], ["/r/None"]),
    ("/<a>/<b>", [], ["/a/b", "/é/ž"]),
    ("/a/<n>/c", [], ["/a/b/c", "/a/10/c"]),
    ("/é/<n:word>", [], ["/é/ab", "/é/ž"]),
    ("/p-<n:int>", [], ["/p-10", "/p--5"]),
    ("/<n:INT>", [], ["/10"]),
    ("/a/<n:re:[^/]+>", [], ["/a/b"]),           # same pattern as /a/<n>
    ("/s/<s:slug>", ["slug"], ["/s/b-c", "/s/x1"]),
    ("/q/<q:uint>", ["uint"], ["/q/10"]),
    ("/t/<t:tag>", ["tag"], ["/t/Ab", "/t/A"]),
    ("/n/<n:num>", ["num"], ["/n/10", "/n/ab"]),
    ("/g/<g:fl>", ["fl"], ["/g/1.5", "/g/1.5.2", "/g/."]),
    ("/y/<y:any>", ["any"], ["/y/a", "/y/a/b"]),
    ("/i/<n:int>", ["int"], ["/i/10"]),
    ("/r/<v:re:x>", ["re:x"], ["/r/xx", "/r/x"]),
    ("/x/<n:nofilter>", [], ["/x/a"]),           # RuntimeError
    ("/<a>/<a>", [], ["/a/a"]),                  # re.error: name twice
    ("/<1>", [], ["/a"]),                        # re.error: bad name
    # literal text is regex syntax for the code: outside compile_route
    ("/a.b/<n>", [], ["/a.b/x", "/aXb/x"]),
    ("/v(1|2)/<n:int>", [], ["/v1/10", "/v2/3", "/v(1|2)/3"]),
    ("/s+/<n>", [], ["/s/a", "/sss/a", "/s+/a"]),
    ("/<n:re:a$>", [], ["/a"]),                  # anchor inside a filter
]
NOBRIDGE = {"/x/<n:nofilter>", "/<a>/<a>", "/<1>", "/a.b/<n>",
            "/v(1|2)/<n:int>", "/s+/<n>", "/<n:re:a$>"}

# directed tables (every order is run): the clauses of the property
DIRECTED = [
    # static path wins even when only other methods are registered (405)
    [("route", "/a/b", 4), ("route", "/a/<n>", 3), ("regular", r"/a/\w+", 511)],
    # overlapping patterns: registration order decides
    [("route", "/a/<n>", 3), ("route", "/a/<n:int>", 3),
     ("route", "/<a>/<b>", 3), ("regular", r"/a", 3)],
    # a matching pattern without the method is passed over
    [("route", "/a/<n>", 4), ("route", "/<a>/<b>", 2), ("regular", r"/a/.*", 16)],
    # re-registration for further methods keeps the first position
    [("route", "/a/<n>", 2), ("route", "/<a>/<b>", 6), ("route", "/a/<n>", 4)],
    [("route", "/a/<n>", 2), ("regular", r"/a/(?P<n>[^/]+)\Z", 4),
     ("route", "/a/<n:re:[^/]+>", 256), ("route", "/<a>/<b>", 511)],
    # prefix semantics of raw routes against anchored group routes
    [("regular", r"/i/\d+", 3), ("route", "/i/<n:int>", 3),
     ("regular", r"/i/\d+$", 4), ("route", "/i/10", 16)],
    # converters by name with inner groups, inline expressions, case
    [("route", "/f/<x:float>/<y:int>", 3), ("route", "/r/<v:re:[A-Z]+>", 3),
     ("route", "/r/<v:re:\\S+>", 3), ("route", "/u/<u:uuid>", 3)],
]
DIRECTED_PATHS = ["/a/b", "/a/x", "/a/10", "/a", "/ab", "/a/", "/a/b/c",
                  "/i/10", "/i/10\n", "/i/10x", "/i/x", "/f/1.5/3", "/f/2/x",
                  "/r/ABC", "/r/abc", "/r/a b", "/r/ab", "/u/" + UUID1,
                  "/u/" + UUID1.upper(), "/é/ž", "/A/B"]
RAW = [
    (r"/u/\w+", ["/u/ab", "/u/ab/cd", "/u/é"]),
    (r"/raw/(\d+)", ["/raw/10", "/raw/10x"]),
    (r"/raw/(?P<id>\d+)/(?P<rest>.*)", ["/raw/10/", "/raw/10/a/b"]),
    (r"/a", ["/a", "/ab", "/a/b"]),
    (r"/a$", ["/a", "/a\n"]),
    (r"/a/b\Z", ["/a/b"]),
    (r"/(a|b)/c", ["/a/c", "/b/c"]),
    (r"/opt/(x)?(y)", ["/opt/xy", "/opt/y"]),
    (r"/é+", ["/é", "/ééé"]),
    (r"/(?:a|ab)(c|bcd)(d*)", ["/abcd"]),
    (r"/i/(?P<n>-?\d+)\Z", ["/i/10"]),           # same pattern as /i/<n:int>
    (r"/[^/]+/b", ["/a/b", "/é/b"]),
    (r"", ["/anything"]),
]
SEGS = ["a", "b", "ab", "A", "x1", "b-c", "é", "ž", "É", "10", "-5", "1.5",
        "abc", "ABC", "Ab", "ff", "0Af", "_u", "c", "d", "f.txt", "None",
        "٣", UUID1, "xx", "i", "f", "r", "w", "u", "raw", "debug-info",
        "kav\u00e1rna", "kava\u0301rna", "caf\u00e9", "cafe\u0301",
        "e\u0301"]
MASKS = [3, 3, 3, 2, 4, 6, 511, 272, 1, 0, 7]

HOSTILE_PATHS = ["", "a", "//", "/a//b", "/a/b/", "/%C3%A9", "/a%2Fb",
                 "/<n>", "/a/<n:int>", "/a b", "/a\n", "/a\r\n", "/\n",
                 "/a\x00", "/" + "a" * 300, "/a/b/c/d/e", "/.", "/..",
                 "/a/../a", "/é", "/\xe9", "/\xc3\xa9", "/\xc3", "/ž",
                 "/\xff\xfe", "/i/10\n", "/i/١٢", "/f/1e5", "/f/inf",
                 "/f/1_0", "/i/1_0", "/i/+5", "/i/ 5", "/u/" + UUID1 + "\n"]

# patterns for the regex tie (the model's re against CPython's re)
RX_SUPPORTED = [
    r"-?\d+", r"-?\d+(\.\d+)?", r"\w+", r"[0-9a-fA-F]+", r"[^/]+",
    r"[0-9a-fA-F]{8}-[0-9a-fA-F]{4}", r"a|b|", r"(a|ab)(c|bcd)(d*)",
    r"(a+)(a*)", r"(?:(a)|b)+", r"(a|(b))*c", r"a{2,3}b{,2}c{1,}", r"\S+\s\D\W",
    r"[a\-z]+", r"[-a]+", r"[a-]+", r"[^a-c\d]+", r"x(?P<n>y)?z", r".+b",
    r".*", r"a$", r"a\Z", r"(a$|ab)", r"a\.b\/c", r"[\w-]+", r"[.$^]+",
    r"(?P<a>x)(?P<b>(?:y|(z)))", r"é+|ž", r"[à-ÿ]+", r"()a", r"(|a)b",
    r"a(?:)b", r"\\",
]
RX_UNSUPPORTED = [
    r"^a", r"a*?", r"a+?", r"a??", r"a*+", r"(a*)*", r"(a|)*", r"(?=a)a",
    r"(?!a)b", r"(a)\1", r"\bfoo", r"\Aa", r"(?i)a", r"a{,}", r"(?P<n>a)(?P=n)",
    r"[[:alpha:]]", r"a{2}{3}", r"]", r"}", r"a{", r"[]a]", r"\n", r"(?<=a)b",
    r"(?P<é>a)", r"[a", r"(a", r"a)", r"a|*", r"[\d-a]", r"[z-a]",
    r"(?#c)a", r"a{1000}",
]
RX_TEXTS = ["", "a", "b", "ab", "abc", "abcd", "aab", "aaa", "-12", "12.5",
            "12.", "x", "xz", "xyz", "a\n", "a\nb", "A", "é", "ééž", "a.b/c",
            "a-z", "-", "aabbc", "aaabcc", "ac", "bc", "c", " \t", "a 1-",
            "0Af-", "12345678-abcd", ".$^", "xyy", "xy", "xzz", "ÿà", "٣",
            "ab\n"]


# ------------------------------------------------------------ Coq rendering
def uclass_term(strings):
    pts = set()
    for text in strings:
        pts.update(ord(c) for c in text if ord(c) >= 128)
    pts = sorted(pts)
    dig = ["(%d, %d)" % (p, unicodedata.decimal(chr(p)))
           for p in pts if re.fullmatch(r"\d", chr(p))]
    wrd = [p for p in pts if re.fullmatch(r"\w", chr(p))]
    spc = [p for p in pts if re.fullmatch(r"\s", chr(p))]
    return "(tbl_class %s %s %s)" % (clist(dig),
                                     clist(map(str, wrd)),
                                     clist(map(str, spc)))


def op_term(op):
    if op[0] == "route":
        return "OpRoute %s %d %d" % (slit(op[1]), op[2], op[3])
    if op[0] == "regular":
        return "OpRegular %s %d %d" % (slit(op[1]), op[2], op[3])
    if op[0] == "filter":
        return "OpFilter %s %s %s" % (slit(op[1]), slit(op[2]),
                                      conv_term(op[3]))
    return "OpDefault %d %d" % (op[1], op[2])


def op_strings(ops):
    out = []
    for op in ops:
        out.extend(x for x in op if isinstance(x, str))
    return out


# ------------------------------------------------------- the implementation
class Impl:
    """A real Application built from ops; handlers record what they see."""
    _mode = itertools.count()

    def __init__(self, ops, debug, root, index):
        self.app = new_app()
        # debug is the attribute unless the request environment overrides
        # it: three ways to reach the same effective setting
        mode = next(Impl._mode) % 3
        self.extra = None
        self.app.debug = debug
        if mode == 1:
            self.app.debug = not debug
            self.extra = {"poor_Debug": ("On", "oN")[len(ops) % 2] if debug
                          else ("Off", "oFF", "0")[len(ops) % 3]}
        elif mode == 2:
            self.extra = {"poor_Debug": ""}
        if root:
            self.app.document_root = root
            self.app.document_index = index
        elif mode:
            # the feature switched off explicitly: '' is not a directory
            self.app.document_root = ""
            self.app.document_index = index
        self.state = {}
        self.hid = {}
        self.outcomes = []
        self.app.add_before_response(self.hook)
        for op in ops:
            self.outcomes.append(self.register(op))
        # a route that was registered and removed again leaves no trace:
        # its path is dispatched like any path that never had a route
        ghost = self.handler(9999)
        try:
            self.app.set_route("/gone", ghost, 3)
            self.app.pop_route("/gone", 1)
            self.app.pop_route("/gone", 2)
            self.app.set_route("/gone2/<x:word>", ghost, 4)
            self.app.pop_route("/gone2/<x:word>", 4)
        except (KeyError, RuntimeError, re.error, IndexError) as err:
            self.outcomes.append(Exn("ghost:" + type(err).__name__))

    def hook(self, req):
        self.state["before"] = (req.uri_rule, req.uri_handler)

    def handler(self, ident):
        def fun(req, *args):
            self.state["ran"] = (ident, args, list(req.path_args.items()))
            return "ok"
        fun.__name__ = "h%d" % ident
        self.hid[fun] = ident
        return fun

    def register(self, op):
        try:
            if op[0] == "route":
                self.app.set_route(op[1], self.handler(op[2]), op[3])
            elif op[0] == "regular":
                self.app.set_regular_route(op[1], self.handler(op[2]), op[3])
            elif op[0] == "filter":
                self.app.set_filter(op[1], op[2], CONVS[op[3]])
            else:
                self.app.set_default(self.handler(op[1]), op[2])
        except RuntimeError:
            return Exn("RuntimeError")
        except re.error:
            return Exn("unsupported")
        except IndexError:
            return Exn("IndexError")
        return None

    def probe(self, method, path_info):
        self.state.clear()
        ans = call(self.app, environ(method=method, path=path_info,
                                     extra=self.extra))
        before = self.state.get("before")
        ran = self.state.get("ran")
        rule, uhv = (before if before else (None, None))
        if uhv is None:
            uh = None
        elif uhv in self.hid:
            uh = self.hid[uhv]
        else:
            uh = Exn(getattr(uhv, "__name__", "other"))
        return {"status": ans.code, "raised": ans.raised,
                "before": before is not None, "rule": rule, "uh": uh,
                "h": ran[0] if ran else None,
                "args": [canon(a) for a in ran[1]] if ran else [],
                "raw_args": list(ran[1]) if ran else [],
                "pargs": [[k, canon(v)] for k, v in ran[2]] if ran else []}

    def tables(self):
        out = []
        for pat, tab in self.app.regular_routes.items():
            rows = []
            for bit, (fun, convs, rule) in tab.items():
                rows.append([bit, self.hid[fun],
                             [[n, conv_view(c)] for n, c in convs], rule])
            out.append([pat.pattern, pat.groups, rows])
        return out


def obs_value(o):
    return [o["status"], o["before"], o["rule"], o["uh"], o["h"], o["args"],
            o["pargs"]]


def path_info_of(path):
    """the WSGI view of a URL path: UTF-8 bytes read as latin-1"""
    return path.encode("utf-8", "surrogatepass").decode("latin-1")


def decoded(path_info):
    try:
        return path_info.encode("iso-8859-1").decode()
    except UnicodeError:
        return path_info


# ---------------------------------------------------- the reference router
def ref_parts(uri):
    """own scanner of <name> / <name:filter> groups (str.find based)"""
    out, i, lit = [], 0, ""
    while i < len(uri):
        if uri[i] == "<":
            end = uri.find(">", i)
            body = uri[i + 1:end] if end > 0 else None
            if body:
                name, sep, filt = body.partition(":")
                good = name and all(c.isalnum() or c == "_" for c in name) \
                    and (not sep or filt)
                # the name ends at the first non-word character
                if good:
                    if lit:
                        out.append(("lit", lit))
                        lit = ""
                    out.append(("grp", name, ":" + filt if sep else None))
                    i = end + 1
                    continue
        lit += uri[i]
        i += 1
    if lit:
        out.append(("lit", lit))
    return out


META = re.compile(r"[.^$*+?{}\[\]\\|()]")
DOC_FILTERS = {     # the documented built-in filters
    ":int": (r"-?\d+", int), ":float": (r"-?\d+(\.\d+)?", float),
    ":word": (r"\w+", str), ":hex": (r"[0-9a-fA-F]+", str),
    ":uuid": (r"[0-9a-fA-F]{8}-[0-9a-fA-F]{4}-[0-9a-fA-F]{4}-"
              r"[0-9a-fA-F]{4}-[0-9a-fA-F]{12}", uuid.UUID),
}


class RefRouter:
    """The property, executable: precedence over a list of registrations."""
    def __init__(self):
        self.filters = dict(DOC_FILTERS)
        self.static = {}        # path -> {bit: hid}
        self.patterns = []      # [key, kind, data, {bit: hid}]
        self.defaults = {}

    def group_spec(self, filt):
        """(expression, converter) of one <name:filter> group"""
        if filt is None:
            return r"[^/]+", str
        low = filt.lower()
        if low in self.filters:
            return self.filters[low]
        if low.startswith(":re:"):
            conv = self.filters.get(":re:", (None, str))[1]
            return filt[4:], conv
        raise RuntimeError(filt)

    def add(self, op):
        if op[0] == "filter":
            name = op[1] if op[1].startswith(":") else ":" + op[1]
            self.filters[name] = (op[2], CONVS[op[3]])
        elif op[0] == "default":
            for bit in BITS:
                if op[2] & bit:
                    self.defaults[bit] = op[1]
        elif op[0] == "regular":
            self.add_pattern(op[1], "raw", re.compile(op[1]), op[2], op[3])
        else:
            parts = ref_parts(op[1])
            if not any(p[0] == "grp" for p in parts):
                tab = self.static.setdefault(op[1], {})
                for bit in BITS:
                    if op[3] & bit:
                        tab[bit] = op[2]
                return
            spec, key = [], ""
            for part in parts:
                if part[0] == "lit":
                    spec.append(part)
                    key += part[1]
                else:
                    expr, conv = self.group_spec(part[2])
                    if part[2] is not None and part[2].lower() == ":re:":
                        expr = "None"     # "%s" % None, documented quirk
                    shadow = part[2] is not None and len(part[2]) > 4 and \
                        part[2].lower().startswith(":re:") and \
                        part[2].lower() in self.filters
                    spec.append(("grp", part[1], re.compile(str(expr)), conv,
                                 shadow))
                    key += "(?P<%s>%s)" % (part[1], expr)
            names = [p[1] for p in spec if p[0] == "grp"]
            if len(set(names)) != len(names) or \
                    any(not n.isidentifier() for n in names):
                raise re.error("names")
            self.add_pattern(key + r"\Z", "grp", (op[1], spec), op[2], op[3])

    def add_pattern(self, key, kind, data, hid, mask):
        for entry in self.patterns:
            if entry[0] == key:
                break
        else:
            entry = [key, kind, data, {}]
            self.patterns.append(entry)
        for bit in BITS:
            if mask & bit:
                # the first registration's rule text stays with its bits
                entry[3][bit] = (hid, kind, data)

    @staticmethod
    def splits(spec, path):
        """every way to read path as the literals and fully matched
        segments of spec"""
        if not spec:
            if path == "":
                yield []
            return
        head = spec[0]
        if head[0] == "lit":
            if path.startswith(head[1]):
                yield from RefRouter.splits(spec[1:], path[len(head[1]):])
            return
        for cut in range(len(path), -1, -1):
            if head[2].fullmatch(path[:cut]):
                for rest in RefRouter.splits(spec[1:], path[cut:]):
                    yield [path[:cut]] + rest

    def route(self, method, path, debug, fs):
        bit = MBIT.get(method, 2)
        if path in self.static:
            if bit in self.static[path]:
                return ("static", self.static[path][bit], path)
            return ("status", 405)
        for key, kind0, data0, tab in self.patterns:
            if kind0 == "raw":
                hit = data0.match(path) is not None
            else:
                hit = next(self.splits(data0[1], path), None) is not None
            if hit and bit in tab:
                hid, kind, data = tab[bit]
                return ("pattern", hid, kind, data, key)
        if fs is not None and bit in (1, 2):
            if fs == 1:
                return ("file",)
            if fs == 2:
                return ("dir",)
            if fs == 3:
                return ("status", 403)
        if debug and path == "/debug-info":
            return ("debug",)
        if bit in self.defaults:
            return ("default", self.defaults[bit])
        return ("status", 404)


def judge(ctx, want, got, method, path, detail):
    """compare the reference decision with what the implementation did"""
    def bad(key, why):
        det = dict(detail)
        det.update({"method": method, "path": path, "why": why,
                    "reference": repr(want)[:300],
                    "implementation": {k: repr(v)[:200]
                                       for k, v in got.items()}})
        ctx.violation(key, det)

    kind = want[0]
    if got["raised"] is not None:
        return bad("application-raised", repr(got["raised"]))
    if kind == "status":
        if got["h"] is not None:
            return bad("wrong-endpoint", "a handler ran")
        if got["status"] != want[1]:
            return bad("wrong-status", "expected %d" % want[1])
        return None
    if kind in ("file", "dir", "debug"):
        if got["h"] is not None or got["status"] != 200:
            return bad("wrong-endpoint", "expected the %s leaf" % kind)
        name = {"file": None, "dir": "directory_index",
                "debug": "debug_info"}[kind]
        seen = got["uh"].name if isinstance(got["uh"], Exn) else got["uh"]
        if seen != name:
            return bad("wrong-endpoint", "expected the %s leaf" % kind)
        return None
    if kind in ("static", "default"):
        if got["h"] != want[1] or got["raw_args"]:
            return bad("wrong-endpoint", "expected handler %d" % want[1])
        if kind == "static" and got["rule"] != want[2]:
            return bad("wrong-rule", "uri_rule")
        return None
    # pattern route
    _, hid, pkind, data, key = want
    if pkind == "raw":
        if got["h"] != hid:
            return bad("wrong-endpoint", "expected handler %d" % hid)
        mat = data.match(path)
        if list(mat.groups()) != got["raw_args"] or \
                [[k, v] for k, v in mat.groupdict().items()] != got["pargs"]:
            return bad("wrong-args", "groups of the expression")
        if got["rule"] != key:
            return bad("wrong-rule", "uri_rule")
        return None
    uri, spec = data
    convs = [p[3] for p in spec if p[0] == "grp"]
    names = [p[1] for p in spec if p[0] == "grp"]
    ok_any, raising = False, 0
    for segs in RefRouter.splits(spec, path):
        try:
            vals = [canon(c(s)) for c, s in zip(convs, segs)]
        except (ValueError, TypeError):
            raising += 1
            continue
        if got["h"] == hid and repr(vals) == repr(got["args"]) and \
                repr([[n, v] for n, v in zip(names, vals)]) == \
                repr(got["pargs"]):
            ok_any = True
            break
    if ok_any:
        if got["rule"] != uri:
            return bad("wrong-rule", "uri_rule")
        return None
    if raising and got["h"] is None and got["status"] == 500:
        return None         # a converter rejected the segment
    if got["h"] != hid:
        return bad("wrong-endpoint", "expected handler %d" % hid)
    if any(p[0] == "grp" and p[4] for p in spec):
        # a user filter whose name starts with ":re:" lends the route its
        # expression but not its converter (the ':re:' one is applied)
        key = "re-prefixed-user-filter-converter-ignored"
        if key in ctx.known:
            return bad(key, "converter of the user filter not applied")
        ctx.count("monitor-" + key)
        return None
    return bad("wrong-args", "no reading of the path gives these arguments")


# --------------------------------------------------------------- generators
def near_misses(path):
    out = [path, path + "/", path + "\n", path + "/x", path.swapcase(),
           path.rsplit("/", 1)[0] or "/", path + "x", path.replace("/", "//", 1)]
    if any(ord(c) > 127 for c in path):
        out.append("".join("%%%02X" % b if b > 127 else chr(b)
                           for b in path.encode("utf-8")))
    return out


def make_scenario(rng, nroutes):
    """ops (routes with their filters first), plus sample paths"""
    chosen, samples, filters = [], [], []
    for _ in range(nroutes):
        kind = rng.choice(["static", "group", "group", "raw"])
        if kind == "static":
            text = rng.choice(STATIC)
            chosen.append(("route", text))
            samples.append(text)
        elif kind == "group":
            text, needs, paths = rng.choice(GROUP)
            for need in needs:
                if need not in filters:
                    filters.append(need)
            chosen.append(("route", text))
            samples.extend(paths)
            samples.extend(r[2] for r in REDEF.values() if r[1] == text)
        else:
            text, paths = rng.choice(RAW)
            chosen.append(("regular", text))
            samples.extend(paths)
    # re-registration of an existing route for further methods
    if chosen and rng.random() < 0.5:
        chosen.append(rng.choice(chosen))
    return chosen, filters, samples


# a filter defined again after a route used it: only routes registered
# afterwards see the new definition, also when their text was seen before
REDEF = {
    "slug": (("slug", r"[A-Z]+_[0-9]", "str"), "/s/<s:slug>", "/s/AB_1"),
    "uint": ((":uint", r"[a-f]+", "str"), "/q/<q:uint>", "/q/abc"),
    "tag": (("tag", r"[a-z]+\d", "int"), "/t/<t:tag>", "/t/ab1"),
}


def ops_of(chosen, filters, masks, default, order):
    ops = [("filter",) + UFILTERS[f] for f in filters]
    for hid in order:
        kind, text = chosen[hid]
        ops.append((kind, text, hid + 1, masks[hid]))
    for name in filters:
        if name in REDEF and any(t == REDEF[name][1] for _, t in chosen):
            ops.append(("filter",) + REDEF[name][0])
            ops.append(("route", REDEF[name][1], 200 + len(ops), 511))
    if default:
        ops.append(("default", 100, default[0]))
        if len(default) > 1:
            ops.append(("default", 101, default[1]))
    return ops


CWD_PATHS = ["/" + name for name in sorted(os.listdir("."))
             if name.isascii() and name.replace(".", "").replace(
                 "_", "").isalnum()][:3] + ["/etc/hostname", "/etc"]


def probes_for(rng, samples, quick, fs_paths, exact=()):
    paths = []
    for smp in samples:
        paths.extend(near_misses(smp))
    for _ in range(6 if quick else 14):
        n = rng.choice([0, 1, 1, 2, 2, 3])
        paths.append("/" + "/".join(rng.choice(SEGS) for _ in range(n)))
    paths.extend(rng.sample(HOSTILE_PATHS, 4 if quick else 10))
    paths.extend(fs_paths)
    paths.append("/debug-info")
    paths.extend(["/gone", "/gone2/a"])
    # entries of the process's working directory and of the file-system
    # root: never served unless that is the configured document root
    paths.extend(CWD_PATHS)
    seen, out = set(), []
    for path in paths:
        if path in seen:
            continue
        seen.add(path)
        infos = [path_info_of(path)]
        if any(ord(c) > 127 for c in path) and rng.random() < 0.5:
            infos.append(path)              # not transcoded by the server
        for info in infos:
            meths = ["GET", rng.choice(METHODS), rng.choice(METHODS + UNKNOWN)]
            if not quick or rng.random() < 0.08 or \
                    (path in exact and rng.random() < 0.5):
                meths = METHODS + UNKNOWN
            for meth in dict.fromkeys(meths):
                out.append((meth, info))
    return out


def fs_kind(root, index, path):
    """the three file-system tests of the dispatcher, on our scratch tree"""
    if not root:
        return 0
    rfile = "%s%s" % (root, os.path.normpath("/%s" % path.lstrip("/")))
    if "\x00" in rfile or not os.path.exists(rfile):
        return 0
    if os.path.isfile(rfile) and os.access(rfile, os.R_OK):
        return 1
    if index and os.path.isdir(rfile) and os.access(rfile, os.R_OK):
        return 2
    return 3


# --------------------------------------------------------------------- run
def run(ctx):
    ctx.check_obligations()
    rng = ctx.rng
    quick = ctx.quick
    root = "/root/scratch/c02_root_%d" % os.getpid()
    os.makedirs(os.path.join(root, "d"), exist_ok=True)
    with open(os.path.join(root, "f.txt"), "w") as fil:
        fil.write("file")
    with open(os.path.join(root, "d", "g"), "w") as fil:
        fil.write("g")
    # an entry that shares its name with the debug page: the document root
    # comes first in the documented precedence
    with open(os.path.join(root, "debug-info"), "w") as fil:
        fil.write("not the debug page")
    try:
        return body(ctx, rng, quick, root)
    finally:
        shutil.rmtree(root, ignore_errors=True)


def body(ctx, rng, quick, root):
    # ------------------------------------------------ table tie: filters
    fresh = new_app()
    view = [[name, rx, conv_view(cv)] for name, (rx, cv) in
            fresh.filters.items()]
    ctx.correspondence("filters", IMPORTS, [("run_filters", view, "filters")],
                       lambda p: p)
    ctx.case(("filters",), True, {"filters": [v[0] for v in view]})
    if [MBIT[m] for m in METHODS] != BITS or \
            list(__import__("poorwsgi.state").state.methods.items()) != \
            list(MBIT.items()):
        ctx.violation("method-table", {"methods": repr(MBIT)})

    # ------------------------------------- regex tie: model re vs CPython re
    cases = []
    for pat in RX_SUPPORTED + RX_UNSUPPORTED + [g[0] for g in RAW]:
        try:
            comp = re.compile(pat, re.U)
        except re.error:
            comp = None
        for text in (RX_TEXTS if not quick else
                     rng.sample(RX_TEXTS, 14) + ["", "a", "abcd"]):
            if pat in RX_UNSUPPORTED or comp is None:
                want = Exn("unsupported")
            else:
                mat = comp.match(text)
                want = [comp.fullmatch(text) is not None, mat is not None,
                        None if mat is None else
                        [list(mat.groups()), text[mat.end():]]]
            cases.append(("run_regex %s %s %s" % (
                uclass_term([pat, text]), slit(pat), slit(text)), want,
                ("regex", pat, text)))
            ctx.count("regex-unsupported" if isinstance(want, Exn)
                      else "regex-supported")
            if pat in RX_UNSUPPORTED:
                break
    ctx.correspondence("regex", IMPORTS, cases, lambda p: list(p))
    for _, _, payload in cases:
        ctx.case(payload, True)

    # --------------------------------------------------- route tables
    nscen = 70 if quick else 260
    acc = {"sel": [], "tab": [], "bridge": [], "nprobe": 0}

    def run_table(chosen, filters, masks, default, debug, use_root, index,
                  orders, probe_sets):
        for oidx, order in enumerate(orders):
            probes = probe_sets[min(oidx, len(probe_sets) - 1)]
            ops = ops_of(chosen, filters, masks, default, order)
            impl = Impl(ops, debug, root if use_root else "", index)
            ref = RefRouter()
            ref_out = []
            for op in ops:
                try:
                    ref.add(op)
                    ref_out.append(None)
                except RuntimeError:
                    ref_out.append(Exn("RuntimeError"))
                except re.error:
                    ref_out.append(Exn("unsupported"))
            detail = {"ops": [list(o) for o in ops], "debug": debug,
                      "document_root": use_root, "document_index": index}
            if [repr(x) for x in ref_out] != [repr(x) for x in impl.outcomes]:
                ctx.violation("registration-outcome", dict(
                    detail, reference=repr(ref_out),
                    implementation=repr(impl.outcomes)))
            strings = op_strings(ops)
            ops_term = clist(op_term(o) for o in ops)
            acc["tab"].append((
                "run_patterns %s %s" % (uclass_term(strings), ops_term),
                impl.tables(), ("tables", detail)))
            for op in ops:
                if op[0] == "route" and ref_parts(op[1]) != \
                        [("lit", op[1])] and oidx == 0:
                    acc["bridge"].append((
                        "run_bridge %s %s %s" % (uclass_term(strings),
                                                 ops_term, slit(op[1])),
                        None if op[1] in NOBRIDGE else True,
                        ("bridge", detail, op[1])))
                    ctx.count("bridge-failclosed" if op[1] in NOBRIDGE
                              else "bridge-structured")
            chunk, results = [], []
            outside = any(op[0] == "route" and any(
                part[0] == "lit" and META.search(part[1])
                for part in ref_parts(op[1])) and
                any(part[0] == "grp" for part in ref_parts(op[1]))
                for op in ops)
            for meth, info in probes:
                path = decoded(info)
                fsk = fs_kind(root if use_root else "", index, path)
                got = impl.probe(meth, info)
                want = ref.route(meth, path, debug,
                                 fsk if use_root else None)
                if outside:
                    # literal text with regex metacharacters is outside the
                    # property's quantifier: model tie only
                    ctx.count("monitor-skipped-metachar-literal")
                else:
                    judge(ctx, want, got, meth, path,
                          dict(detail, path_info=info))
                leaf = want[0] if want[0] != "status" else str(want[1])
                ctx.count("leaf-" + leaf)
                ctx.case((tuple(map(tuple, ops)), debug, use_root, index,
                          meth, info), want[0] != "status" or want[1] != 404,
                         {"ops": [list(o) for o in ops], "method": meth,
                          "path_info": info, "status": got["status"],
                          "handler": got["h"], "args": repr(got["args"])})
                chunk.append((meth, info, fsk))
                results.append(obs_value(got))
                acc["nprobe"] += 1
                if len(chunk) == 12:
                    acc["sel"].append(select_case(
                        impl, ops, ops_term, debug, use_root, chunk, results,
                        detail))
                    chunk, results = [], []
            if chunk:
                acc["sel"].append(select_case(
                    impl, ops, ops_term, debug, use_root, chunk, results,
                    detail))

    # directed tables: every order, with and without defaults / debug
    for didx, table in enumerate(DIRECTED):
        chosen = [(k, t) for k, t, _ in table]
        masks = [m for _, _, m in table]
        orders = [list(p) for p in itertools.permutations(range(len(table)))]
        if quick:
            orders = orders[::4] if len(orders) > 6 else orders
        probes = []
        for path in DIRECTED_PATHS:
            for meth in (["GET", "POST", "HEAD", "PATCH", "DELETE", "BREW"]
                         if quick else METHODS + UNKNOWN):
                probes.append((meth, path_info_of(path)))
        ctx.count("directed-tables", len(orders))
        run_table(chosen, [], masks, [None, (511,), (4, 2)][didx % 3],
                  didx % 2 == 1, False, False, orders, [probes])

    # a filter redefined between two registrations of the same rule text
    chosen = [("route", "/s/<s:slug>"), ("route", "/q/<q:uint>"),
              ("route", "/t/<t:tag>")]
    probes = [(meth, path_info_of(path))
              for path in ["/s/b-c", "/s/AB_1", "/s/ab_1", "/q/10", "/q/abc",
                           "/q/1a", "/t/Ab", "/t/ab1", "/t/ab", "/s/", "/q"]
              for meth in ["GET", "POST", "HEAD", "DELETE"]]
    ctx.count("redefinition-tables", 2)
    run_table(chosen, ["slug", "uint", "tag"], [2, 3, 4], (511,), False,
              False, False, [[0, 1, 2], [2, 0, 1]], [probes])

    for sidx in range(nscen):
        chosen, filters, samples = make_scenario(rng, rng.choice([1, 2, 3, 4]))
        masks = [rng.choice(MASKS) for _ in chosen]
        default = rng.choice([None, None, (3,), (511,), (4, 2)])
        debug = rng.random() < 0.3
        use_root = rng.random() < 0.3
        index = rng.random() < 0.5
        orders = [list(range(len(chosen)))]
        if (not quick and len(chosen) <= 4) or sidx % 10 == 0:
            orders = [list(p) for p in
                      itertools.permutations(range(len(chosen)))]
            if quick:
                orders = orders[:6]
        else:
            rng.shuffle(orders[0])
        fs_paths = ["/f.txt", "/d", "/d/", "/d/g", "/nothing", "/"] \
            if use_root else []
        exact = {t for k, t in chosen if k == "route" and "<" not in t}
        probe_sets = [probes_for(rng, samples, quick, fs_paths, exact)]
        if not quick:       # further orders: fewer methods per path
            probe_sets.append(probes_for(rng, samples, True, fs_paths, exact))
        run_table(chosen, filters, masks, default, debug, use_root, index,
                  orders, probe_sets)
    sel_cases, tab_cases, bridge_cases = acc["sel"], acc["tab"], acc["bridge"]
    nprobe = acc["nprobe"]
    ctx.correspondence("tables", IMPORTS, tab_cases, lambda p: list(p))
    ctx.correspondence("bridge", IMPORTS, bridge_cases, lambda p: list(p))
    ctx.correspondence("select", IMPORTS, sel_cases, lambda p: list(p))
    ctx.count("probes", nprobe)
    ctx.count("tables", len(tab_cases))
    return ctx.finish(
        "route tables of 1-4 routes (+ re-registration) drawn from pools of "
        "static, <name:filter> (all built-in filters, inline :re:, user "
        "filters, registration errors) and raw regular-expression routes, "
        "random method masks, defaults, debug, document root; quick: one "
        "random order per table and all orders for every tenth, thorough: "
        "every order; probes = near misses of the routes' sample paths "
        "(trailing slash/newline, extra/missing segment, case, percent "
        "form, UTF-8 vs untranscoded PATH_INFO) + random paths of <= 3 "
        "segments + hostile paths x methods (9 known + unknown tokens); a "
        "case is (table, order, env, method, PATH_INFO); non-trivial = not "
        "the 404 leaf",
        assumptions=[
            "Python's re is modelled on a subset of its syntax (fail "
            "closed outside); tied to CPython by the regex correspondence",
            "\\d \\w \\s beyond ASCII: classification of the code points in "
            "use is taken from CPython (tbl_class); theorems hold for every "
            "classification",
            "str.lower() of filter names is modelled on ASCII",
            "float()/int()/UUID() are modelled on the text shapes the "
            "filters admit (CUnknown elsewhere)",
            "file-system tests of the document-root leaves are inputs",
        ])


def select_case(impl, ops, ops_term, debug, use_root, chunk, results, detail):
    strings = op_strings(ops) + [c[1] for c in chunk] + \
        [decoded(c[1]) for c in chunk]
    probes = clist("(%s, %s, %d)" % (slit(m), slit(p), k)
                   for m, p, k in chunk)
    term = "run_table %s %s %s %s %s" % (
        uclass_term(strings), ops_term, blit(debug), blit(use_root), probes)
    return (term, [impl.outcomes, results],
            ("select", detail, [list(c) for c in chunk]))
