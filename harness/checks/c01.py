"""C01 exactly one well-formed WSGI answer: obligations + correspondence of
model/Dispatch.v on random scenarios + PEP 3333 monitor over hostile environs
and handler programs."""
import functools
import io
import json
import os
import select
import signal
import tempfile
from http import HTTPStatus
import re
import threading
import time

import implrun  # noqa: F401
from implrun import new_app, environ, call
import dispatch_common as dc

STATUS_RE = re.compile(r"^\d{3} .+")


def pep3333(ctx, ans, may_decline, detail, budget=5.0, wall=0.0):
    """the property, checked on one answer"""
    if ans.raised is not None:
        ctx.violation("exception-escaped", dict(detail, exc=repr(ans.raised)))
        return
    if ans.iter_raised is not None:
        ctx.violation("iteration-raised", dict(detail,
                                               exc=repr(ans.iter_raised)))
        return
    if wall > budget:
        ctx.violation("too-slow", dict(detail, wall=wall))
    if len(ans.calls) == 0:
        if ans.chunks:
            ctx.violation("body-without-start-response", detail)
        if not may_decline:
            ctx.violation("no-answer-without-cause", detail)
        return
    if len(ans.calls) != 1:
        ctx.violation("start-response-called-%d-times" % len(ans.calls),
                      detail)
        return
    status, headers = ans.calls[0]
    if not isinstance(status, str) or not STATUS_RE.match(status):
        ctx.violation("bad-status-line", dict(detail, status=repr(status)))
    if not isinstance(headers, list):
        ctx.violation("headers-not-list", detail)
        return
    for item in headers:
        good = isinstance(item, tuple) and len(item) == 2 and \
            all(isinstance(x, str) for x in item)
        if good:
            try:
                item[0].encode("latin-1")
                item[1].encode("latin-1")
            except UnicodeError:
                good = False
        if not good:
            ctx.violation("bad-header", dict(detail, header=repr(item)))
    for chunk in ans.chunks:
        if not isinstance(chunk, bytes):
            ctx.violation("non-bytes-chunk", dict(detail,
                                                  chunk=repr(chunk)[:60]))


class Recorder:
    """stands in for the check context inside the child process: every
    call is written to a pipe and replayed by the parent"""
    def __init__(self, ctx, wfd):
        self.quick, self.rng, self.wfd = ctx.quick, ctx.rng, wfd

    def _send(self, *msg):
        os.write(self.wfd, (json.dumps(msg, default=repr) + "\n").encode())

    def about(self, detail):
        self._send("about", detail)

    def violation(self, key, detail=None):
        self._send("violation", key, detail)

    def case(self, key, nontrivial=True, example=None):
        self._send("case", repr(key), nontrivial, example)

    def count(self, name, n=1):
        self._send("count", name, n)


def run_in_child(ctx, fun, patience=40):
    rfd, wfd = os.pipe()
    pid = os.fork()
    if pid == 0:
        try:
            os.close(rfd)
            fun(Recorder(ctx, wfd))
        except BaseException as err:    # noqa: B902 (reported, then exit)
            try:
                os.write(wfd, (json.dumps(
                    ["violation", "check harness crashed",
                     {"error": repr(err)}]) + "\n").encode())
            except OSError:
                pass
        finally:
            os._exit(0)
    os.close(wfd)
    buf, last = b"", None
    while True:
        ready, _, _ = select.select([rfd], [], [], patience)
        if not ready:
            os.kill(pid, signal.SIGKILL)
            ctx.violation("never-returns", dict(
                last or {}, waited="%d s without progress; the serving "
                "process had to be killed" % patience))
            break
        chunk = os.read(rfd, 1 << 16)
        if not chunk:
            break
        buf += chunk
        *lines, buf = buf.split(b"\n")
        for line in lines:
            msg = json.loads(line)
            if msg[0] == "about":
                last = msg[1]
            elif msg[0] == "violation":
                ctx.violation(msg[1], msg[2])
            elif msg[0] == "case":
                ctx.case(msg[1], msg[2], msg[3])
            else:
                ctx.count(msg[1], msg[2])
    os.close(rfd)
    os.waitpid(pid, 0)


def can_decline(sc):
    txt = repr(sc.describe())
    return ("('abort', 0)" in txt or "'declined'" in txt or "'conn'" in txt
            or "'exit'" in txt or sc.construct == "nopath")


def run(ctx):
    ctx.check_obligations()
    rng = ctx.rng
    n = 1500 if ctx.quick else 12000
    scenarios = [dc.rand_scenario(rng) for _ in range(n)]
    for sc, ans, trace in dc.run_scenarios(ctx, "cycle", scenarios):
        ctx.case(sc.describe(), True, sc.describe())
        ctx.count("leaf=%s" % sc.leaf[0])
        ctx.count("construct=%s" % sc.construct)
        pep3333(ctx, ans, can_decline(sc), {"scenario": sc.describe()})

    # ---------------- hostile environs x simple handler programs
    from poorwsgi.response import abort
    methods = ["GET", "HEAD", "POST", "PUT", "PATCH", "DELETE", "OPTIONS",
               "TRACE", "CONNECT", "BREW", "get", "", "M\xe9"]
    paths = ["/", "/x", "", "x", "/\xff\xfe", "/a\x00b", "//x//", "/x/",
             "/\xc3\xa9", "/%2e%2e", "/debug-info", "/d/5", "/d/x"]
    queries = ["", "a=1", "a=%zz&&=&", "\xff", "a" * 5000]
    clens = [None, "", "abc", "-5", "0", "3", "10", "99999999999"]
    ctypes = [None, "application/json", "application/x-www-form-urlencoded",
              "multipart/form-data; boundary=\x01", "multipart/form-data",
              "multipart/form-data; boundary=xx", "text/plain; charset=",
              "application/json; charset=nope", ";;;=", "\xff",
              # quoted strings that never end, made of escapes
              'multipart/form-data; boundary="' + "\\" * 40,
              'text/plain; a="' + "\\" * 63 + ";", 'a; b="\\"; c="\\\\' * 20]
    hdrs = [{}, {"Cookie": "a=\x00;;;=;\""}, {"Authorization": "Digest \""},
            {"Range": "bytes=--,,"}, {"Host": "<x>:99999999999:1"},
            {"Host": "example.org:"}, {"Host": "example.org:http"},
            {"Host": "[::1]"}, {"Host": "[2001:db8::7]:443"}, {"Host": ":"},
            {"Host": ""}, {"Host": "caf\xe9.example:80"},
            {"X-Forwarded-For": "\x00,", "Referer": "\xff",
             "User-Agent": ""},
            {"Cookie": "SESSID=" + "A" * 5000, "Accept": ",;q=,,"}]
    programs = [("ret", v) for v in dc.VAL_POOL[::3]] + \
        [("abort", c) for c in (0, 200, 401, 404, 999)] + \
        [("abortkw", c) for c in (400, 404, 409, 410, 500, 999)] + \
        [("throw", 1), ("throw", 5), ("throw", 6), ("conn",), ("exit",)] + \
        [("setstatus", v) for v in (503.0, 404, HTTPStatus.NOT_FOUND, True,
                                    "404", 299)] + \
        [("fileobj", k) for k in ("stringio", "bytesio", "textfile",
                                  "binfile")] + \
        [("ctype", v) for v in ("text/plain\r\nX-Injected: yes",
                                "text/csv\nheader=1", "a/b\x00", "\t",
                                "text/plain; x=\x7f")] + \
        [("hdrmap", k, v) for k in ("proxy", "userdict", "chainmap")
         for v in ("ok", "\u0159\u20ac", 3, None, b"x")] + \
        [("addheader", v) for v in ("image.png", "caf\u00e9.txt",
                                    "\u017elu\u0165ou\u010dk\u00fd.txt",
                                    "\u4e2d\u6587.pdf", 'q"uo\\te', "")]

    def perform(prog):
        if prog[0] == "setstatus":
            # the setter accepts whatever compares equal to a known code
            from poorwsgi.response import Response, JSONResponse
            res = rng.choice([Response("x"), JSONResponse(a=1)])
            res.status_code = prog[1]
            return res
        if prog[0] == "ctype":
            # a content type is text the handler supplies, like any header
            from poorwsgi.response import Response
            return rng.choice([("ok", prog[1]),
                               Response("ok", content_type=prog[1])])
        if prog[0] == "hdrmap":
            # headers handed over in a mapping that is not a dict
            import collections
            import types
            from poorwsgi.response import Response, JSONResponse
            data = {"X-M": prog[2], "X-Other": "1"}
            hdrs = {"proxy": types.MappingProxyType(data),
                    "userdict": collections.UserDict(data),
                    "chainmap": collections.ChainMap({}, data)}[prog[1]]
            return rng.choice([
                lambda: Response("x", headers=hdrs),
                lambda: JSONResponse(headers=hdrs, a=1),
                lambda: ("x", "text/plain", hdrs)])()
        if prog[0] == "addheader":
            # header parameters given as keyword arguments
            from poorwsgi.response import Response
            res = Response("x")
            res.add_header("Content-Disposition", "attachment",
                           filename=prog[1])
            res.add_header("X-P", prog[1] or "v", **{"n\u00e4me": prog[1],
                                                      "flag": None})
            res.headers.add_header("Link", ("a", "b"), rel=prog[1])
            return res
        if prog[0] == "fileobj":
            from poorwsgi.response import FileObjResponse
            if prog[1] == "stringio":
                fobj = io.StringIO("text")
            elif prog[1] == "bytesio":
                fobj = io.BytesIO(b"bytes")
            else:
                fobj = tempfile.TemporaryFile(
                    "w+" if prog[1] == "textfile" else "w+b")
                fobj.write("text" if prog[1] == "textfile" else b"bytes")
                fobj.seek(0)
            return FileObjResponse(fobj)
        if prog[0] == "abortkw":    # HTTPException with keyword arguments
            from poorwsgi.response import HTTPException
            raise HTTPException(prog[1], **rng.choice(
                [{"error": "e"}, {"foo": 1}, {"realm": "R", "stale": True}]))
        return dc.act(prog)

    class CallableObject:
        def __init__(self, fun):
            self.fun = fun

        def __call__(self, *args):
            return self.fun(*args)

    class RawInput:
        """a server's input stream: not a BytesIO, may end early"""
        def __init__(self, data):
            self._b = io.BytesIO(data)
            self.reads = 0

        def read(self, size=-1):
            self.reads += 1
            return self._b.read(size)

        def readline(self, size=-1):
            self.reads += 1
            return self._b.readline(size)
    def hostile(ctxp):
        total = 1500 if ctxp.quick else 12000
        for i in range(total):
            prog = rng.choice(programs)
            cfg = {"auto_args": rng.random() < 0.8, "auto_form": rng.random() < 0.8,
                   "auto_json": rng.random() < 0.8, "auto_data": rng.random() < 0.8,
                   "auto_cookies": rng.random() < 0.8, "debug": rng.random() < 0.3}
            app = new_app(**cfg)
            if rng.random() < 0.3:
                app.data_size = rng.choice([0, 2, 100])
            if rng.random() < 0.2:
                app.cached_size = rng.choice([0, 1, 7])
            # any callable is a handler: plain function, functools.partial,
            # instance with __call__ (no __name__, no __code__)
            shape = rng.choice(["function", "function", "partial", "object"])

            def as_callable(fun, shape=shape):
                if shape == "partial":
                    return functools.partial(fun)
                if shape == "object":
                    return CallableObject(fun)
                return fun
            app.set_route("/x", as_callable(
                lambda req, _p=prog: perform(_p)), 511)
            app.set_route("/d/<n:int>", as_callable(
                lambda req, n, _p=prog: perform(_p)), 511)
            app.read_timeout = 0.3
            if rng.random() < 0.3:
                app.add_before_response(as_callable(lambda req: None))
            if rng.random() < 0.3:
                app.add_after_response(as_callable(lambda req, res: res))
            body = rng.choice([b"", b"abc", b'{"a": 1}', b"a=1&b=2",
                               b"--xx\r\nContent-Disposition: form-data; "
                               b"name=\"a\"\r\n\r\n1\r\n--xx--\r\n"])
            env = environ(method=rng.choice(methods), path=rng.choice(paths),
                          query=rng.choice(queries), body=body,
                          content_type=rng.choice(ctypes),
                          content_length=rng.choice(clens),
                          headers=rng.choice(hdrs))
            if rng.random() < 0.05:
                del env["PATH_INFO"]
            if rng.random() < 0.4:
                # a server that offers a file wrapper (PEP 3333 optional)
                from wsgiref.util import FileWrapper
                env["wsgi.file_wrapper"] = FileWrapper
            # variables a server may leave out (PEP 3333 / CGI: optional)
            for key in ("REMOTE_ADDR", "QUERY_STRING", "SERVER_SOFTWARE",
                        "SERVER_PROTOCOL", "wsgi.errors"):
                if rng.random() < 0.2:
                    env.pop(key, None)
            if rng.random() < 0.1:
                env["REMOTE_HOST"] = rng.choice(["", "h\xe9te", "<b>"])
            if rng.random() < 0.1:
                env["SCRIPT_NAME"] = rng.choice(["", "/app", "\xff"])
            detail = {"method": env["REQUEST_METHOD"],
                      "path": env.get("PATH_INFO"),
                      "query": env.get("QUERY_STRING", "<absent>")[:40],
                      "absent": [k for k in ("REMOTE_ADDR", "QUERY_STRING",
                                             "SERVER_SOFTWARE",
                                             "SERVER_PROTOCOL", "wsgi.errors")
                                 if k not in env],
                      "clen": env.get("CONTENT_LENGTH"),
                      "ctype": env.get("CONTENT_TYPE"), "program": prog,
                      "callable_shape": shape,
                      "file_wrapper": "wsgi.file_wrapper" in env,
                      "config": cfg,
                      "headers": {k: v[:40] for k, v in env.items()
                                  if k.startswith("HTTP_")}}
            if rng.random() < 0.5:
                # unbuffered delivery through a raw stream, possibly shorter
                # than the declared length
                cut = rng.choice([0, 0, 1, 7, 30])
                env["wsgi.input"] = RawInput(body[:max(0, len(body) - cut)])
                detail["raw_input_short_by"] = cut
            ctxp.about(detail)
            t0 = time.time()
            box = []
            worker = threading.Thread(target=lambda: box.append(call(app, env)),
                                      daemon=True)
            worker.start()
            worker.join(8)
            wall = time.time() - t0
            if not box:
                ctxp.violation("never-returns", dict(detail, waited=wall))
                continue
            ans = box[0]
            ctxp.case(("env", i, repr(detail)), True, detail if i < 3 else None)
            ctxp.count("environ-program")
            # no answer only when the handler declined / the client is gone /
            # the process exits, or the server sent no PATH_INFO at all
            may_decline = prog in (("abort", 0), ("conn",), ("exit",)) or \
                "PATH_INFO" not in env
            pep3333(ctxp, ans, may_decline, detail, wall=wall)


    # the loop runs in a child process: a request that hangs inside C code
    # holds the interpreter lock, so only another process can notice (and
    # end) it; the child reports what it is about to serve and what it found
    run_in_child(ctx, hostile)

    # ---------------- known finding replay
    app = new_app()
    app.set_route("/s", lambda req: ("abc", "text/\ud800"))
    ans = call(app, environ(path="/s"))
    ctx.case(("surrogate-ctype",), True, None)
    if ans.raised is not None:
        ctx.violation("surrogate-content-type-escapes",
                      {"handler returns": "('abc', 'text/\\ud800')",
                       "exc": repr(ans.raised)})
    return ctx.finish(
        "random scenarios of model/Dispatch.v (0-3 hooks per side with "
        "behaviours return/abort/abort-with-response/raise/ConnectionError/"
        "SystemExit, status and exception handlers, every return shape, "
        "construction failures, 404/405/debug/converter-failure leaves, all "
        "methods) compared with the model; plus hostile environ x handler "
        "program x configuration product sampled with the seeded PRNG and "
        "checked by a PEP 3333 oracle; distinct by full scenario",
        assumptions=["user callables in the model runs are plain functions "
                     "(the monitor also uses functools.partial and objects "
                     "with __call__)",
                     "response objects handed in are fresh (used once)",
                     "iterables returned by handlers yield bytes (handler "
                     "contract); generators are finite"])
