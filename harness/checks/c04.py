"""C04 aborts and exceptions: obligations + correspondence + an oracle from
the property text (status resolution, first matching exception handler,
handler results like endpoint results, independence of after hooks)."""
import itertools

import implrun  # noqa: F401
import dispatch_common as dc

SHAPES = [("str", "S"), ("bytes", b"B"), ("dict", {"k": 1}),
          ("tuple", [("str", "T"), ("str", "text/plain")]),
          ("tuple", [("str", "T4"), ("str", "a/b"), ("none",), ("int", 202)]),
          ("resp", ("base", 201, [("X-R", "1")], "text/plain", "R")),
          ("resp", ("nocontent", 204, None)), ("none",), ("obj",), ("int", 3)]
# status an endpoint-like interpretation of the shape gives (None = garbage)
SHAPE_STATUS = [200, 200, 200, 200, 202, 201, 204, 204, None, None]
SHAPE_BODY = [b"S", b"B", b'{"k": 1}', b"T", b"T4", b"R", b"", b"", None,
              None]
CODES = dc.ABORT_CODES


def py_isinst(thrown, cls):
    return issubclass(dc.CLASSES[thrown], dc.CLASSES[cls])


def expected_for_handler(beh):
    """(status, body) a handler behaviour yields when interpreted like an
    endpoint result; status 500 for failures"""
    if beh[0] == "ret":
        if beh[1] not in SHAPES:
            return None, None
        i = SHAPES.index(beh[1])
        if SHAPE_STATUS[i] is None:
            return 500, None
        return SHAPE_STATUS[i], SHAPE_BODY[i]
    return 500, None


def oracle(ctx, sc, ans, trace):
    detail = {"scenario": sc.describe(), "trace": trace,
              "status": ans.status, "body": (ans.body or b"")[:40]}
    mbit = dc.METHODS.get(sc.method, 2)
    if sc.before or sc.construct or sc.leaf[0] != "endpoint":
        return
    beh = sc.leaf[1]
    if any(b != ("pass",) for b in sc.after):
        return
    if beh[0] == "abort":
        s = beh[1]
        if s == 0:
            if ans.calls:
                ctx.violation("declined-answered", detail)
            return
        if s == 200:
            if ans.code != 200:
                ctx.violation("abort-200-is-204", detail)
            return
        h = sc.shandlers.get((s, mbit))
        if h is not None:
            if ["S", s] not in trace:
                ctx.violation("status-handler-not-run", detail)
            if h[0] == "ret":
                want, body = expected_for_handler(h)
                if want is not None and (ans.code != want or (
                        body is not None and ans.body != body)):
                    ctx.violation("status-handler-result-not-like-endpoint",
                                  dict(detail, want=want))
            elif h[0] in ("throw", "conn", "exit") and ans.code != 500:
                ctx.violation("handler-failure-not-500", detail)
        elif s in dc.BUILTIN:
            want = 500 if (s == 401 and sc.digest) else s
            if ans.code != want:
                ctx.violation("builtin-status-wrong", dict(detail, want=want))
        elif ans.code != 501 or str(s).encode() not in (ans.body or b""):
            ctx.violation("unknown-status-not-501-naming-it", detail)
    elif beh[0] == "abortresp":
        desc = beh[1]
        if desc[0] == "base":
            data = desc[4].encode() if isinstance(desc[4], str) else desc[4]
            if ans.code != desc[1] or ans.body != data:
                ctx.violation("abort-response-not-delivered", detail)
        elif desc[0] == "nocontent" and ans.code != desc[1]:
            ctx.violation("abort-response-not-delivered", detail)
    elif beh[0] == "throw":
        cls = beh[1]
        first = None
        for c, hd in sc.merged_ehandlers():
            if py_isinst(cls, c) and mbit in hd:
                first = (c, hd[mbit])
                break
        ran = [t[1] for t in trace if t[0] == "X"]
        if first is None:
            if ran:
                ctx.violation("unexpected-exception-handler", detail)
            if (500, mbit) not in sc.shandlers and ans.code != 500:
                ctx.violation("unhandled-exception-not-500", detail)
        else:
            if ran[:1] != [first[0]]:
                ctx.violation("wrong-exception-handler",
                              dict(detail, want=first[0]))
            if first[1][0] == "ret":
                want, body = expected_for_handler(first[1])
                if want is not None and (ans.code != want or (
                        body is not None and ans.body != body)):
                    ctx.violation(
                        "exception-handler-result-not-like-endpoint",
                        dict(detail, want=want))
            elif first[1][0] in ("throw", "conn", "exit") \
                    and ans.code != 500:
                ctx.violation("handler-failure-not-500", detail)


def run(ctx):
    ctx.check_obligations()
    rng = ctx.rng
    scenarios = []
    n_after = [0, 1, 2]
    methods = list(dc.METHODS)
    # aborts x user status handlers (every shape) x after hooks
    for code in CODES:
        for shape in [None] + SHAPES + ["throw", "exit", "abort"]:
            for na in (n_after if not ctx.quick else [rng.choice(n_after)]):
                method = rng.choice(methods)
                mbit = dc.METHODS[method]
                sh = {}
                if shape == "throw":
                    sh[(code, mbit)] = ("throw", rng.choice([3, 7, 8]))
                elif shape == "exit":
                    sh[(code, mbit)] = ("exit",)
                elif shape == "abort":
                    sh[(code, mbit)] = ("abort", 503)
                elif shape is not None:
                    sh[(code, mbit)] = ("ret", shape)
                if rng.random() < 0.3:      # handler for another method only
                    # (GET/HEAD are a pair in routes, not in status pages)
                    sh[(code, rng.choice([b for b in (1, 2, 2, 4, 8, 64)
                                          if b != mbit]))] = \
                        ("ret", ("str", "o"))
                if rng.random() < 0.2:
                    sh[(500, mbit)] = rng.choice(
                        [("ret", ("str", "u500")), ("throw", 1),
                         ("ret", ("obj",))])
                scenarios.append(dc.Scenario(
                    after=[("pass",)] * na, shandlers=sh, method=method,
                    digest=rng.random() < 0.2,
                    leaf=("endpoint", ("abort", code))))
    # abort carrying a response
    for desc in dc.RESP_POOL:
        for na in n_after:
            scenarios.append(dc.Scenario(
                after=[("pass",)] * na,
                leaf=("endpoint", ("abortresp", desc))))
    # exceptions x handler registrations in every order and mask
    handlers = [("ret", s) for s in SHAPES[:4] + SHAPES[8:9]] + \
        [("throw", 3), ("throw", 7), ("abort", 404), ("abort", 418),
         ("exit",)]
    orders = list(itertools.permutations([1, 2, 3, 10], 2)) + \
        list(itertools.permutations([1, 2, 3], 3)) + [(1,), (2,), (10,), ()]
    for thrown in (1, 2, 3):
        for order in orders:
            for _ in range(1 if ctx.quick else 4):
                method = rng.choice(methods)
                mbit = dc.METHODS[method]
                eh = []
                for cls in order:
                    reg = rng.choice([mbit, mbit] + [
                        b for b in (1, 2, 4) if b != mbit])
                    eh.append((cls, {reg: rng.choice(handlers)}))
                # a class registered again for a further method keeps the
                # position of its first registration
                if eh and rng.random() < 0.4:
                    again = rng.choice(eh)[0]
                    eh.append((again, {rng.choice([1, 2, 4, 8]):
                                       rng.choice(handlers)}))
                sh = {}
                if rng.random() < 0.3:
                    sh[(500, mbit)] = rng.choice(
                        [("ret", ("str", "u500")), ("throw", 1)])
                if rng.random() < 0.3:
                    sh[(404, mbit)] = rng.choice(
                        [("ret", ("str", "u404")), ("throw", 1),
                         ("ret", ("obj",))])
                scenarios.append(dc.Scenario(
                    after=[("pass",)] * rng.choice(n_after), ehandlers=eh,
                    shandlers=sh, method=method,
                    leaf=("endpoint", ("throw", thrown))))
    # a class registered again for a further method keeps the position of
    # its first registration: the earlier, more general class still wins
    for first, second, thrown in ((1, 2, 2), (10, 1, 1), (10, 2, 2),
                                  (10, 3, 3), (1, 2, 2)):
        for method in ("GET", "POST", rng.choice(methods)):
            mbit = dc.METHODS[method]
            other = 8 if mbit != 8 else 16
            scenarios.append(dc.Scenario(
                ehandlers=[(first, {mbit: ("ret", ("str", "first"))}),
                           (second, {mbit: ("ret", ("str", "second"))}),
                           (first, {other: ("ret", ("str", "again"))})],
                method=method, leaf=("endpoint", ("throw", thrown))))
    # nested failures to depth 3 through the after-hook path as well
    for _ in range(150 if ctx.quick else 2000):
        sc = dc.rand_scenario(rng)
        scenarios.append(sc)
    results = dc.run_scenarios(ctx, "abort", scenarios)
    for sc, ans, trace in results:
        ctx.case(sc.describe(), True, {"scenario": sc.describe(),
                                       "status": ans.status})
        ctx.count("leaf=%s" % (sc.leaf[1][0] if sc.leaf[0] == "endpoint"
                               else sc.leaf[0]))
        if ans.raised is not None:
            ctx.violation("exception-escaped", {"scenario": sc.describe(),
                                                "exc": repr(ans.raised)})
        oracle(ctx, sc, ans, trace)
    # independence of after hooks (metamorphic, on the implementation)
    for sc, ans, trace in results[:400 if ctx.quick else 4000]:
        if sc.after and all(b == ("pass",) for b in sc.after) and \
                sc.leaf[0] not in ("debug", "debugroot"):   # page lists hooks
            bare = dc.Scenario(before=sc.before, after=[],
                               shandlers=sc.shandlers,
                               ehandlers=sc.ehandlers, digest=sc.digest,
                               construct=sc.construct, method=sc.method,
                               leaf=sc.leaf, debug=sc.debug)
            bare.shape, bare.host = sc.shape, sc.host
            ans2, _ = bare.run()
            ctx.case(("indep", repr(sc.describe())), True, None)
            if (ans.code, dc.canon_headers(ans.headers or []), ans.body) != \
                    (ans2.code, dc.canon_headers(ans2.headers or []),
                     ans2.body):
                ctx.violation("answer-depends-on-after-hooks",
                              {"scenario": sc.describe(),
                               "with": ans.status, "without": ans2.status})
    # aborts that carry keyword arguments for the built-in page: under
    # Digest authentication HTTPException(401, realm=..) is answered by the
    # built-in 401 page with a challenge -- whatever the client sent or did
    # not send about itself (no User-Agent header at all, an empty one)
    from implrun import new_app, environ, call
    from poorwsgi.response import HTTPException
    for where, agent, stale, method in itertools.product(
            ("endpoint", "before"), (None, "", "agent/1.0", "\xe9"),
            (False, True), ("GET", "POST")):
        app = new_app(secret_key="k" * 16, auth_type="Digest")

        def stop(req):
            raise HTTPException(401, realm="R", stale=stale)
        if where == "endpoint":
            app.set_route("/x", stop, 511)
        else:
            app.set_route("/x", lambda req: "never", 511)
            app.add_before_response(stop)
        env = environ(method=method, path="/x")
        if agent is not None:
            env["HTTP_USER_AGENT"] = agent
        ans = call(app, env)
        detail = {"raised_in": where, "user_agent": agent, "stale": stale,
                  "method": method, "status": ans.status,
                  "exc": repr(ans.raised)}
        ctx.case(("abort-401-digest", where, agent, stale, method), True,
                 detail)
        ctx.count("abort(401, realm) under Digest")
        challenge = ans.header("WWW-Authenticate") if ans.calls else None
        if ans.raised is not None or ans.code != 401 or not challenge or \
                not challenge.startswith("Digest ") or \
                'realm="R"' not in challenge:
            ctx.violation("abort-401-digest-not-the-builtin-page",
                          dict(detail, challenge=challenge))
    return ctx.finish(
        "all 14 abort codes x user status handler {absent, 10 return shapes, "
        "raising, aborting} x 0/1/2 pass-through after hooks x methods; "
        "abort(response) for 10 responses; 3 thrown classes x exception "
        "handlers registered in every order of {Base, Derived, Unrelated, "
        "Exception} with method masks and 9 handler behaviours; random nested "
        "failures; each answer also compared with the run without after hooks",
        assumptions=["abort(200) -> 204 is a known finding (abort-200-is-204)"])
