"""C11 Digest authentication: obligations + correspondence (model vs the real
application with tagged, reversible fake hashes and a controlled clock) +
monitor (independent RFC 7235/7616 parser, client and verifier, real hashes).
"""
import hashlib
import re
from urllib.parse import quote, unquote_to_bytes

import implrun  # noqa: F401  (sets sys.path)
from implrun import new_app, environ, call
from core import slit, zlit, optz

IMPORTS = "Require Import PW.model.Digest."
ALGS = ["MD5", "MD5-sess", "SHA-256", "SHA-256-sess"]
HOST = "example.org"
USERS = {
    "Admin Zone": {"user": "pw", "admin": "t0p secret", "Jožo": "heslo č",
                   "John Doe": "p w",
                   # a name stored in decomposed form (e + combining acute)
                   "Ame\u0301lie": "nfd"},
    "Zóna": {"user": "other-pw", "éva": "x"},
    "r2": {"bob": "b"},
}
# (method, path, query)
TARGETS = [
    ("GET", "/admin", ""),
    ("POST", "/admin", "x=1&y=2"),
    ("PUT", "/a b/č", "q=%20z%C3%A9&r=a+b"),
    ("DELETE", "/", ""),
    ("HEAD", "/p%q", "%"),
    ("PATCH", "/admin/sub?x", "a=b?c"),
    ("OPTIONS", "/admin", "x=%41"),
]
FIELDS = ["username", "realm", "nonce", "uri", "algorithm", "response",
          "opaque", "qop", "nc", "cnonce"]
QUOTED = {"username", "realm", "nonce", "uri", "response", "opaque", "cnonce"}


def lat(text):
    """what a WSGI server hands over for the UTF-8 bytes of text"""
    return text.encode("utf-8").decode("latin-1")


class Clock:
    def __init__(self):
        self.us = 0

    def __call__(self):
        return self.us / 1e6


def fake_hash(tag):
    class Fake:
        def __init__(self, data=b""):
            self.data = data

        def hexdigest(self):
            return "%s<%s>" % (tag, self.data.decode("utf-8"))
    Fake.__name__ = "Fake" + tag
    return Fake


# ------------------------------------------------------------------ client
def hx(hf, text):
    return hf(text.encode("utf-8")).hexdigest()


def rfc_response(hf, alg, qop, user, realm, password, nonce, nc, cnonce,
                 method, uri):
    """RFC 7616 3.4.1 (qop=auth) / RFC 2069 compatibility (no qop)"""
    ha1 = hx(hf, "%s:%s:%s" % (user, realm, password))
    if alg.endswith("-sess"):
        ha1 = hx(hf, "%s:%s:%s" % (ha1, nonce, cnonce))
    ha2 = hx(hf, "%s:%s" % (method, uri))
    if qop:
        return hx(hf, ":".join((ha1, nonce, nc, cnonce, qop, ha2)))
    return hx(hf, ":".join((ha1, nonce, ha2)))


def client_fields(hf, alg, qop, user, realm, password, nonce, opaque,
                  method, uri, nc="00000001", cnonce="0a4f113b"):
    """ordered [name, value, quoted] of a correct Authorization header"""
    resp = rfc_response(hf, alg, qop, user, realm, password, nonce, nc,
                        cnonce, method, uri)
    out = [["username", user, True], ["realm", realm, True],
           ["nonce", nonce, True], ["uri", uri, True],
           ["algorithm", alg, False], ["response", resp, True],
           ["opaque", opaque, True]]
    if qop:
        out += [["qop", qop, False], ["nc", nc, False],
                ["cnonce", cnonce, True]]
    elif alg.endswith("-sess"):
        out += [["cnonce", cnonce, True]]
    return out


def serialize(fields, scheme="Digest", sep=", "):
    return scheme + " " + sep.join(
        '%s="%s"' % (n, v) if q else "%s=%s" % (n, v) for n, v, q in fields)


def request_uri(path, query):
    return quote(path, safe="/") + ("?" + query if query else "")


def parse_challenge(www):
    out = {}
    if not www or not www.startswith("Digest "):
        return None
    for m in re.finditer(r'(\w+)=(?:"([^"]*)"|([^,]*))', www[7:]):
        out[m.group(1)] = m.group(2) if m.group(2) is not None else m.group(3)
    return out


# ------------------------------------------------------------------- world
class World:
    """one application + protected default handler"""
    built = 0
    requests = 0
    def __init__(self, clock, alg, qop, timeout, realm, required,
                 secret="s3cr3t", pmap=True, secret_in_environ=False):
        from poorwsgi import wsgi, digest, state
        self.clock = clock
        self.alg, self.qop, self.timeout = alg, qop, timeout
        self.realm, self.required, self.secret = realm, required, secret
        self.hf = wsgi.AUTH_DIGEST_ALGORITHMS[alg]      # real or fake
        # the effective secret may come from the request environ
        # (poor_SecretKey overrides the application attribute)
        self.secret_in_environ = secret_in_environ
        app = new_app(secret_key="application-level-key"
                      if secret_in_environ else secret)
        # the settings are independent: every order of assignment must give
        # the same authentication behaviour (examples/http_digest.py sets the
        # algorithm before the type)
        World.built += 1
        settings = [("auth_type", ("Digest", "digest", "DIGEST",
                                   "dIGEST")[World.built % 4]),
                    ("auth_algorithm", alg),
                    ("auth_qop", qop), ("auth_timeout", timeout)]
        shift = World.built % 4
        for name, value in settings[shift:] + settings[:shift]:
            setattr(app, name, value)
        amap = digest.PasswordMap() if pmap else {}
        for rlm, users in USERS.items():
            for user, password in users.items():
                if pmap:
                    amap.set(rlm, user,
                             digest.hexdigest(user, rlm, password, self.hf))
                else:
                    amap.setdefault(rlm, {})[user] = digest.hexdigest(
                        user, rlm, password, self.hf)
        app.auth_map = amap
        self.amap = amap
        self.ran = []
        self.issued = {}       # nonce -> (ua, t_us)

        def protected(req):
            self.ran.append(req.user)
            return "ok"
        app.set_default(digest.check_digest(realm, required)(protected),
                        state.METHOD_ALL)
        if World.built % 3 == 0:
            # an application that gives every request a default identity
            # first: the authenticated user name must replace it
            def default_identity(req):
                req.user = "anonymous"
            app.add_before_response(default_identity)
        self.app = app

    def request(self, method, path, query, agent, header, t_us):
        self.clock.us = t_us
        hdrs = {}
        if agent is not None:
            hdrs["User-Agent"] = agent
        if header is not None:
            hdrs["Authorization"] = header
        # request headers that say nothing about authentication
        World.requests += 1
        hdrs.update([{}, {"X-Requested-With": "XMLHttpRequest"},
                     {"Accept": "application/json"}, {},
                     {"X-Requested-With": "XMLHttpRequest",
                      "Origin": "http://other.example"},
                     {"Cache-Control": "no-cache"}][World.requests % 6])
        extra = {"SERVER_NAME": HOST}
        if self.secret_in_environ:
            extra["poor_SecretKey"] = self.secret
        env = environ(method=method, path=lat(path), query=query,
                      headers=hdrs, extra=extra)
        del self.ran[:]
        ans = call(self.app, env)
        www = ans.header("WWW-Authenticate") if ans.calls else None
        if www:
            try:
                www = www.encode("latin-1").decode("utf-8")
            except UnicodeError:
                pass
        return {"ran": bool(self.ran),
                "user": self.ran[0] if self.ran else None,
                "code": ans.code, "www": www,
                "stale": bool(www and "stale=true" in www),
                "raised": repr(ans.raised) if ans.raised else None}

    def challenge(self, agent, t_us, target=("GET", "/admin", "")):
        obs = self.request(target[0], target[1], target[2], agent, None, t_us)
        chal = parse_challenge(obs["www"])
        if chal and "nonce" in chal:
            self.issued.setdefault(chal["nonce"], (agent, t_us))
        return chal, obs

    def env_prefix(self):
        amap = "[" + ";".join(
            "(%s, [%s])" % (slit(rlm), ";".join(
                "(%s, %s)" % (slit(u), slit(h)) for u, h in users.items()))
            for rlm, users in self.amap.items()) + "]"
        req = "None" if self.required is None else \
            "(Some %s)" % slit(self.required)
        return "mk_env %s %s %s %s %s %s %s" % (
            slit(self.alg), slit(self.qop or ""), optz(self.timeout), amap,
            slit(str(self.secret)), slit(self.realm), req)

    def env_rest(self, method, path, query, agent, t_us):
        return "%s %s %s %s %s %s" % (
            slit(method), slit(lat(path)), slit(query), slit(str(agent)),
            slit(HOST), zlit(t_us))

    def htag(self):
        return ord("M") if self.alg.startswith("MD5") else ord("S")


class Terms:
    """shared Coq definitions put in front of every case file: the
    per-world part of the environment and the correct header of each
    scenario, from which derived headers are written as splices"""
    def __init__(self):
        self.defs = []
        self.base = None

    def prelude(self):
        return (IMPORTS + "\nImport ListNotations.\nOpen Scope Z_scope.\n"
                + "\n".join(self.defs))

    def define(self, prefix, body, typ=None):
        name = "%s%d" % (prefix, len(self.defs))
        self.defs.append("Definition %s%s := %s." % (
            name, " : " + typ if typ else "", body))
        return name

    def set_base(self, raw):
        self.base = (self.define("B", slit(raw), "str"), raw)

    def text(self, raw):
        if self.base:
            name, base = self.base
            if raw == base:
                return name
            lim = min(len(raw), len(base))
            pre = 0
            while pre < lim and raw[pre] == base[pre]:
                pre += 1
            suf = 0
            while suf < lim - pre and raw[-1 - suf] == base[-1 - suf]:
                suf += 1
            if pre + suf >= 40:
                return "(splice %s %d %d %s)" % (
                    name, pre, len(base) - pre - suf,
                    slit(raw[pre:len(raw) - suf]))
        return slit(raw)


def observed(obs):
    return [obs["ran"], obs["user"], obs["code"] if obs["code"] else 0,
            obs["stale"]]


# --------------------------------------------------------------- mutations
def flip(ch):
    if ch.isdigit():
        return "7" if ch != "7" else "3"
    if ch.isalpha() and ch.isascii():
        return "q" if ch != "q" else "Q"
    return "x"


def other_value(world, name, value, ctxd):
    """another user's / realm's / request's value of the same field"""
    if name == "username":
        return [u for u in USERS[world.realm] if u != value][0]
    if name == "realm":
        return [r for r in USERS if r != value][0]
    if name == "nonce":
        return ctxd["foreign_nonce"]
    if name == "uri":
        return "/x" + value if ctxd["variant"] % 2 else "/other"
    if name == "algorithm":
        return [a for a in ALGS if a != value][ctxd["variant"] % 3]
    if name == "response":
        return ctxd["other_response"]
    if name == "opaque":
        return hashlib.sha256(b"other.example").hexdigest()
    if name == "qop":
        return "auth-int"
    if name == "nc":
        return "00000002"
    return "ffffffff"


def mutations(world, fields, ctxd):
    """(label, field list) of every single-field mutation"""
    out = []
    for idx, (name, value, quoted) in enumerate(fields):
        def put(label, item, where=""):
            new = [list(f) for f in fields]
            if item is None:
                del new[idx]
            else:
                new[idx] = item
            out.append(("%s:%s%s" % (label, name, where), new))
        put("drop", None)
        put("empty", [name, "", quoted])
        for pos in sorted({0, len(value) // 2, len(value) - 1}):
            put("char",
                [name, value[:pos] + flip(value[pos]) + value[pos + 1:],
                 quoted], "@%d" % pos)
        put("swap", [name, other_value(world, name, value, ctxd), quoted])
        put("requote", [name, value, not quoted])
    return out


def broken_headers(fields, rng, big=20000):
    """syntactically broken variants (label, raw text)"""
    good = serialize(fields)
    out = [("scheme-only", "Digest"), ("scheme-space", "Digest "),
           ("empty", ""), ("spaces", "   "), ("basic", "Basic dXNlcjpwdw=="),
           ("bearer-with-fields", "Bearer" + good[6:]),
           ("no-scheme", good[7:]), ("no-space", good.replace(" ", "")),
           ("glued-scheme", "Digest" + good[7:]),
           ("comma-less", serialize(fields, sep=" ")),
           ("semicolons", serialize(fields, sep="; ")),
           ("very-long-tail", good + ", junk=\"" + "a" * big + "\""),
           ("very-long-word", good + ", " + "b" * (big // 6)),
           ("very-long-user", serialize(
               [[n, v if n != "username" else v * (big // 8), q]
                for n, v, q in fields])),
           ("nul", good.replace(", ", ",\x00", 1)),
           ("type-field", good + ', type="Basic"')]
    for idx, (name, value, quoted) in enumerate(fields):
        if quoted:
            new = [list(f) for f in fields]
            txt = serialize(new[:idx]) + ", " if idx else "Digest "
            rest = ", " + serialize(new[idx + 1:])[7:] if idx + 1 < len(new) \
                else ""
            out.append(("no-close-quote:" + name,
                        txt + '%s="%s' % (name, value) + rest))
            out.append(("no-open-quote:" + name,
                        txt + '%s=%s"' % (name, value) + rest))
        for where in ("before", "after"):
            new = [list(f) for f in fields]
            dup = [name, "dup" + value[3:], quoted]
            new.insert(idx if where == "before" else idx + 1, dup)
            out.append(("duplicate-%s:%s" % (where, name), serialize(new)))
        new = [list(f) for f in fields]
        new.insert(idx, list(fields[idx]))
        out.append(("duplicate-same:" + name, serialize(new)))
    return out


def garbage(rng, count):
    alpha = ['"', "=", " ", ",", "*", "%", "-", "'", "a", "Z", "0", "_", "\t",
             "\xa0", "\x85", "\xe9", "\xd7", "\xb2", "\xbc", "\xff", "\x1f",
             "/", "?", ":", "\\", "\n", "\xc3", "\xa9", "\xe2", "\x82"]
    words = ["Digest ", "digest ", "DIGEST ", "username", "username*",
             "UTF-8''", "%C3%A9", "%e2%82", "realm", "nonce", "=\"", "\", ",
             "type", "uri=/a", "qop=auth", "= ", "=  ", "\"\""]
    out = []
    for _ in range(count):
        size = rng.randint(0, 40)
        out.append("".join(rng.choice(words) if rng.random() < 0.35
                           else rng.choice(alpha) for _ in range(size)))
    return out


# --------------------------------------------- reference parser / verifier
TCHAR = set("!#$%&'*+-.^_`|~0123456789"
            "abcdefghijklmnopqrstuvwxyzABCDEFGHIJKLMNOPQRSTUVWXYZ")


def ref_parse(text):
    """RFC 7235 credentials.  Returns None when malformed, otherwise
    (scheme, [(name, value)], strict) where strict is False when the text
    is only leniently readable (bare value that is not a token)."""
    text = text.strip(" \t")
    if not text:
        return None
    pos = 0
    while pos < len(text) and text[pos] in TCHAR:
        pos += 1
    scheme = text[:pos]
    if not scheme:
        return None
    if pos == len(text):
        return scheme, [], True
    if text[pos] != " ":
        return None
    params, strict = [], True
    size = len(text)
    while True:
        while pos < size and text[pos] in " \t,":
            pos += 1
        if pos >= size:
            break
        start = pos
        while pos < size and text[pos] in TCHAR:
            pos += 1
        name = text[start:pos]
        if not name:
            return None
        bws = pos
        while pos < size and text[pos] in " \t":
            pos += 1
        if pos >= size or text[pos] != "=":
            return None
        pos += 1
        while pos < size and text[pos] in " \t":
            pos += 1
        if pos - bws > 2:
            strict = False          # more than one blank around '='
        if pos < size and text[pos] == '"':
            pos += 1
            val = []
            while True:
                if pos >= size:
                    return None     # unbalanced
                if text[pos] == "\\":
                    if pos + 1 >= size:
                        return None
                    val.append(text[pos + 1])
                    pos += 2
                elif text[pos] == '"':
                    pos += 1
                    break
                else:
                    val.append(text[pos])
                    pos += 1
            value = "".join(val)
        else:
            start = pos
            while pos < size and text[pos] not in ' \t,"':
                pos += 1
            value = text[start:pos]
            if not value:
                return None
            if any(c not in TCHAR for c in value):
                strict = False
        while pos < size and text[pos] in " \t":
            pos += 1
        if pos < size and text[pos] != ",":
            return None
        params.append((name, value))
    return scheme, params, strict


LENIENT = re.compile(
    r"""(?<![!#$%&'*+\-.^_`|~0-9A-Za-z])([!#$%&'*+\-.^_`|~0-9A-Za-z]+)"""
    r"""[ \t]*=[ \t]*(?:"((?:[^"\\]|\\.)*)"|([^\s,;"]+))""")


def lenient_params(text):
    """tolerant reading: every name=value that can be found, junk skipped"""
    out = []
    for match in LENIENT.finditer(text):
        if match.group(2) is not None:
            out.append((match.group(1),
                        re.sub(r"\\(.)", r"\1", match.group(2))))
        else:
            out.append((match.group(1), match.group(3)))
    return out


def candidates(params):
    """every reading of a parameter list: one occurrence per name"""
    names = []
    for name, _ in params:
        if name not in names:
            names.append(name)
    out = [{}]
    for name in names:
        vals = []
        for key, val in params:
            if key == name and val not in vals:
                vals.append(val)
        out = [dict(d, **{name: v}) for d in out for v in vals][:64]
    return out


def window(t_us, timeout):
    return t_us // (timeout * 10 ** 6)


class Oracle:
    """what the property demands of one request, written from RFC 7616 and
    the property text; hashes are the real ones"""
    def __init__(self, world):
        self.w = world

    def nonce_state(self, nonce, agent, t_us):
        """'valid' | 'expired' | 'unknown'"""
        info = self.w.issued.get(nonce)
        if info is None or info[0] != agent:
            return "unknown"
        if not self.w.timeout:
            return "valid"
        w0, w1 = window(info[1], self.w.timeout), window(t_us, self.w.timeout)
        return "valid" if w1 in (w0, w0 + 1) else "expired"

    def target_ok(self, uri, path, query):
        upath, _, uquery = uri.partition("?")
        match = re.match(r"^[A-Za-z][A-Za-z0-9+.\-]*://[^/]*(/.*)?$", upath)
        if match:
            upath = match.group(1) or "/"
        try:
            decoded = unquote_to_bytes(upath).decode("utf-8")
        except UnicodeDecodeError:
            return False
        return decoded == path and uquery == query.strip()

    def verify(self, cand, method, path, query):
        """credentials (all but the nonce's freshness) are right;
        returns the user name or None"""
        wld = self.w
        user = cand.get("username")
        if "username*" in cand:
            ext = cand["username*"]
            if user is not None or not ext.lower().startswith("utf-8''"):
                return None
            try:
                user = unquote_to_bytes(ext[7:]).decode("utf-8")
            except UnicodeDecodeError:
                return None
        need = ["realm", "nonce", "uri", "response", "algorithm", "opaque"]
        if user is None or any(k not in cand for k in need):
            return None
        if cand["realm"] != wld.realm or cand["algorithm"] != wld.alg:
            return None
        if cand["opaque"] != hashlib.sha256(HOST.encode()).hexdigest():
            return None
        password = USERS.get(wld.realm, {}).get(user)
        if password is None or (wld.required and user != wld.required):
            return None
        if wld.qop:
            if cand.get("qop") != wld.qop or "nc" not in cand \
                    or "cnonce" not in cand:
                return None
        elif "qop" in cand:
            return None
        if wld.alg.endswith("-sess") and "cnonce" not in cand:
            return None
        if not self.target_ok(cand["uri"], path, query):
            return None
        real = hashlib.md5 if wld.alg.startswith("MD5") else hashlib.sha256
        want = rfc_response(real, wld.alg, wld.qop, user, wld.realm, password,
                            cand["nonce"], cand.get("nc", ""),
                            cand.get("cnonce", ""), method, cand["uri"])
        return user if cand["response"] == want else None

    def expect(self, header, method, path, query, agent, t_us):
        """-> (verdict, user, stale) ; verdict in run/reject/either,
        stale in True/False/None (None = not constrained)"""
        if header is None:
            return "reject", None, False
        text = header.strip(" \t")
        scheme = re.split(r"[ \t]", text, 1)[0]
        if scheme.lower() != "digest":
            return "reject", None, False
        parsed = ref_parse(header)
        strict, cands = False, []
        if parsed is not None:
            _, params, strict = parsed
            names = [n for n, _ in params]
            if len(set(names)) != len(names):
                strict = False
            cands = candidates(params)
        if not strict:
            cands = cands + [c for c in candidates(
                lenient_params(text[len(scheme):])) if c not in cands]
        good = []
        states = set()
        for cand in cands:
            state = self.nonce_state(cand.get("nonce"), agent, t_us)
            states.add(state)
            user = self.verify(cand, method, path, query)
            if user is not None:
                good.append((user, state))
        valid = [u for u, s in good if s == "valid"]
        if valid:
            if strict:
                return "run", valid[0], False
            return "either", valid[0], None
        if states == {"valid"}:
            return "reject", None, False
        if good and all(s == "expired" for _, s in good) and strict:
            return "reject", None, True
        return "reject", None, None


# --------------------------------------------------------------------- run
def worlds_for(clock, quick, fake):
    out = []
    variant = 0
    for alg in ALGS:
        for qop in ("auth", "", None):
            if qop is None and (quick or alg != "MD5"):
                continue
            variant += 1
            realm = list(USERS)[variant % 2]
            required = None
            if variant % 4 == 0:
                required = "user"
            elif variant % 4 == 3:
                required = ""
            timeout = [300, 60, 7, None, 0][variant % 5] if not fake or \
                variant % 3 else 300
            out.append(World(clock, alg, qop, timeout, realm, required,
                             pmap=bool(variant % 2),
                             secret_in_environ=variant % 3 == 1))
    return out


def scenarios(world, rng, quick, base_t, big=20000):
    """yield (label, method, path, query, agent, header_text, t_us) starting
    from correct headers"""
    hf = world.hf
    users = list(USERS[world.realm])
    if world.required:
        users = [world.required] + [u for u in users if u != world.required]
    targets = TARGETS if not quick else \
        [TARGETS[0]] + rng.sample(TARGETS[1:], 2)
    variant = 0
    for tnum, (method, path, query) in enumerate(targets):
        for user in (users if tnum == 0 else users[:1] + users[2:3]):
            variant += 1
            agent = ["UA/1.0", None, "Möz"][variant % 3]
            agent_env = agent if agent is None else lat(agent)
            chal, _ = world.challenge(agent_env, base_t, (method, path, query))
            if not chal:
                yield ("no-challenge", method, path, query, agent_env, None,
                       base_t)
                continue
            # another client: an unrelated agent, or one whose name is the
            # same text sent in another encoding (different header bytes)
            foreign, _ = world.challenge(
                "M\xf6z" if agent == "M\u00f6z" else "other agent", base_t)
            password = USERS[world.realm][user]
            uri = request_uri(path, query)
            # nc is eight hex digits (RFC 7616): the tenth and later
            # requests on one nonce, cnonce of any token text
            fields = client_fields(
                hf, world.alg, world.qop, user, world.realm, password,
                chal["nonce"], chal["opaque"], method, uri,
                nc=("00000001", "0000000a", "000000ff", "0000beef",
                    "00000010")[variant % 5],
                cnonce=("0a4f113b", "f2/wE4q74E6zIJEtWaHKaf5wv/H5QzzpXusqGem"
                        "xURZJ", "x")[variant % 3])
            now = base_t + 1000000
            yield ("correct", method, path, query, agent_env,
                   serialize(fields), now)
            other_user = [u for u in users if u != user][0]
            ctxd = {"foreign_nonce": foreign["nonce"], "variant": variant,
                    "other_response": rfc_response(
                        hf, world.alg, world.qop, other_user, world.realm,
                        USERS[world.realm][other_user], chal["nonce"],
                        "00000001", "0a4f113b", method, uri)}
            # request-level deviations with the correct header
            yield ("method-mismatch", "POST" if method != "POST" else "GET",
                   path, query, agent_env, serialize(fields), now)
            yield ("path-mismatch", method, path + "x", query, agent_env,
                   serialize(fields), now)
            yield ("query-mismatch", method, path, query + "&z", agent_env,
                   serialize(fields), now)
            yield ("agent-mismatch", method, path, query, "third agent",
                   serialize(fields), now)
            # scheme spelling, absolute-URI form, username*, extension field
            yield ("correct-lower-scheme", method, path, query, agent_env,
                   serialize(fields, scheme="digest"), now)
            yield ("correct-upper-scheme", method, path, query, agent_env,
                   serialize(fields, scheme="DIGEST"), now)
            yield ("correct-extension", method, path, query, agent_env,
                   serialize(fields + [["userhash", "false", False]]), now)
            if tnum == 0 or not quick:
                absu = "http://%s%s" % (HOST, uri)
                yield ("correct-absolute-uri", method, path, query, agent_env,
                       serialize(client_fields(
                           hf, world.alg, world.qop, user, world.realm,
                           password, chal["nonce"], chal["opaque"], method,
                           absu)), now)
                star = [list(f) for f in fields]
                star[0] = ["username*", "UTF-8''" + quote(user, safe=""),
                           False]
                yield ("correct-username-star", method, path, query,
                       agent_env, serialize(star), now)
                # credentials made for a longer uri that ends with the path
                longer = client_fields(
                    hf, world.alg, world.qop, user, world.realm, password,
                    chal["nonce"], chal["opaque"], method, "/x" + uri)
                yield ("uri-with-prefix", method, path, query, agent_env,
                       serialize(longer), now)
                wrongpw = client_fields(
                    hf, world.alg, world.qop, user, world.realm,
                    password + "!", chal["nonce"], chal["opaque"], method,
                    uri)
                yield ("wrong-password", method, path, query, agent_env,
                       serialize(wrongpw), now)
                ghost = client_fields(
                    hf, world.alg, world.qop, "ghost", world.realm, "pw",
                    chal["nonce"], chal["opaque"], method, uri)
                yield ("unknown-user", method, path, query, agent_env,
                       serialize(ghost), now)
                elsewhere = [r for r in USERS if r != world.realm
                             and user in USERS[r]]
                if elsewhere:
                    cross = client_fields(
                        hf, world.alg, world.qop, user, elsewhere[0],
                        USERS[elsewhere[0]][user], chal["nonce"],
                        chal["opaque"], method, uri)
                    yield ("other-realm-credentials", method, path, query,
                           agent_env, serialize(cross), now)
            if tnum == 0 or (not quick and variant % 2):
                for label, new in mutations(world, fields, ctxd):
                    yield (label, method, path, query, agent_env,
                           serialize(new), now)
            if variant == 1 or (not quick and tnum == 0):
                for label, text in broken_headers(fields, rng, big):
                    yield ("broken:" + label, method, path, query, agent_env,
                           text, now)
            # nonce age: the same header later
            if world.timeout and (variant <= 2 or not quick):
                tmo = world.timeout * 10 ** 6
                steps = [0, tmo // 2, tmo - 1000, tmo + 1000, 3 * tmo // 2,
                         2 * tmo - 1000, 2 * tmo + 1000, 3 * tmo, 10 * tmo]
                if not quick:
                    steps += [k * tmo // 8 for k in range(1, 24)]
                for off in steps:
                    yield ("age", method, path, query, agent_env,
                           serialize(fields), base_t + off)
            elif not world.timeout and variant <= 2:
                yield ("age", method, path, query, agent_env,
                       serialize(fields), base_t + 10 ** 13)


def run(ctx):
    from poorwsgi import session, digest, results, wsgi
    from poorwsgi.request import Request
    ctx.check_obligations()
    clock = Clock()
    saved = (session.time, session.sha256, digest.sha256, results.sha256,
             dict(wsgi.AUTH_DIGEST_ALGORITHMS))
    session.time = clock
    epoch = 1790000000
    try:
        # ------------------------------------------- correspondence: gate
        session.sha256 = fake_hash("T")
        digest.sha256 = results.sha256 = fake_hash("O")
        for name in wsgi.AUTH_DIGEST_ALGORITHMS:
            wsgi.AUTH_DIGEST_ALGORITHMS[name] = fake_hash(
                "M" if name.startswith("MD5") else "S")
        from urllib.parse import unquote as py_unquote
        app0 = new_app(secret_key="k")

        def parse_case(raw, hterm):
            got = Request(environ(headers={"Authorization": raw},
                                  extra={"REQUEST_STARTTIME": 0.0}),
                          app0).authorization
            typ = got.pop("type")
            head = raw.strip()
            payload = {"kind": "parse", "authorization": raw[:600]}
            ctx.case(("parse", raw[:3000]), True)
            ctx.count("model:parse")
            if head[:head.find(" ")].isascii():
                return ("run_parse %s" % hterm, [typ, got], payload)
            return ("run_parse_fields %s" % hterm, got, payload)

        # quick: one batch of Coq case files for all worlds (shards run in
        # parallel); thorough: one batch per world, so that a shard only
        # carries the definitions of its own world
        batches = []
        cases, seen, terms = [], {}, Terms()
        for wnum, world in enumerate(worlds_for(clock, ctx.quick, True)):
            tmo = world.timeout or 300
            base_t = ((epoch // tmo) * tmo + (wnum % 3) * tmo // 3) * 10 ** 6 \
                + 500000
            wname = terms.define("W", world.env_prefix())
            big = (20000 if not ctx.quick else 4000) if wnum == 0 else 300
            for (label, method, path, query, agent, text, t_us) in scenarios(
                    world, ctx.rng, ctx.quick, base_t, big):
                raw = None if text is None else lat(text)
                obs = world.request(method, path, query, agent, raw, t_us)
                if label == "correct":
                    terms.set_base(raw)
                hterm = None if raw is None else terms.text(raw)
                term = "run_gate %d (%s %s) %s" % (
                    world.htag(), wname,
                    world.env_rest(method, path, query, agent, t_us),
                    "None" if raw is None else "(Some %s)" % hterm)
                cases.append((term, observed(obs), {
                    "kind": "gate",
                    "label": label, "alg": world.alg, "qop": world.qop,
                    "timeout": world.timeout, "realm": world.realm,
                    "required": world.required, "method": method,
                    "path": path, "query": query, "agent": agent,
                    "authorization": raw if raw is None else raw[:600],
                    "t_us": t_us, "impl": observed(obs),
                    "raised": obs["raised"]}))
                ctx.count("model:" + label.split(":")[0])
                ctx.case(("gate", label, world.alg, world.qop, world.realm,
                          None if raw is None else raw[:3000], t_us, method,
                          path), True, {"label": label, "impl": observed(obs)})
                if raw is not None and raw not in seen:
                    seen[raw] = hterm
            if not ctx.quick:
                batches.append((terms, cases, seen))
                cases, seen, terms = [], {}, Terms()
        if ctx.quick:
            batches.append((terms, cases, seen))
        # --------------- tokenizer on random texts, unquote on random texts
        rcases = [parse_case(raw, slit(raw))
                  for raw in garbage(ctx.rng, 500 if ctx.quick else 6000)]
        ucases = []
        pool = ["%", "%4", "%41", "%C3%A9", "%c3", "%A9", "%E2%82%AC", "%e2%82",
                "%F0%9F%98%80", "%f0%9f", "%ED%A0%80", "%C0%80", "%FF", "a",
                "/", "?", "\xe9", "\u20ac", "%zz", "%%", "%2", "+", "%00",
                "%F4%90%80%80", "%E0%80%80", "%EF%BF%BD", "%7F", "%80"]
        for _ in range(300 if ctx.quick else 4000):
            text = "".join(ctx.rng.choice(pool)
                           for _ in range(ctx.rng.randint(0, 8)))
            ucases.append(("run_unquote %s" % slit(text), py_unquote(text),
                           {"kind": "unquote", "text": text}))
            ctx.case(("unquote", text), True)
        ctx.count("model:unquote", len(ucases))
        for bnum, (terms, cases, seen) in enumerate(batches):
            texts = list(seen)
            if ctx.quick:
                texts = ctx.rng.sample(texts, min(len(texts), 500))
            elif len(texts) > 900:
                texts = ctx.rng.sample(texts, 900)
            pcases = [parse_case(raw, seen[raw]) for raw in texts]
            extra = rcases + ucases if bnum + 1 == len(batches) else []
            ctx.correspondence("model%d" % bnum, terms.prelude(),
                               cases + pcases + extra, lambda p: p)


        # -------------------------------------------- monitor, real hashes
        session.sha256, digest.sha256, results.sha256 = saved[1:4]
        wsgi.AUTH_DIGEST_ALGORITHMS.update(saved[4])
        tables_are_per_application(ctx, clock)
        for wnum, world in enumerate(worlds_for(clock, ctx.quick, False)):
            oracle = Oracle(world)
            tmo = world.timeout or 300
            base_t = ((epoch // tmo) * tmo + (wnum % 4) * tmo // 4) * 10 ** 6 \
                + 250000
            chal0, obs0 = world.challenge("probe", base_t)
            monitor_challenge(ctx, world, chal0, obs0)
            nonce_of_a_refusal(ctx, world, base_t)
            for (label, method, path, query, agent, text, t_us) in scenarios(
                    world, ctx.rng, ctx.quick, base_t):
                raw = None if text is None else lat(text)
                obs = world.request(method, path, query, agent, raw, t_us)
                verdict, user, stale = oracle.expect(
                    text, method, path, query, agent, t_us)
                judge(ctx, world, label, (method, path, query, agent, text,
                                          t_us), obs, verdict, user, stale)
                if label == "age" and obs["stale"]:
                    retry_after_stale(ctx, world, (method, path, query, agent,
                                                   t_us), obs)
    finally:
        session.time, session.sha256 = saved[0], saved[1]
        digest.sha256, results.sha256 = saved[2], saved[3]
        wsgi.AUTH_DIGEST_ALGORITHMS.update(saved[4])
    return ctx.finish(
        "worlds = 4 algorithms x qop {auth,''} (thorough: + None) with "
        "rotating realm / required user / timeout {300,60,7,None,0} / "
        "PasswordMap or dict; per world: users x targets (7 method/path/"
        "query triples incl. percent-encoding, '?', '%', non-ASCII) x agents; "
        "from each correct header (also lower/upper-case scheme, absolute-URI "
        "form, username*, extension parameter): request-level mismatches "
        "(method, path, query, agent), credentials for a longer uri, wrong "
        "password, unknown user, other realm's credentials, every "
        "single-field mutation {drop, empty, one character at 3 positions, "
        "swap, re-quote} of the fields present, broken headers (scheme only, "
        "unbalanced quotes per field, duplicates before/after/same per field, "
        "20000-character values, no separators, other schemes), and the same "
        "header at offsets {0..10T} from issue; plus random tokenizer and "
        "unquote inputs. A case is distinct by (label, world, header, time, "
        "target); every case runs the whole WSGI call.",
        assumptions=[
            "MD5 / SHA-256 hexdigest are injective on the formatted texts "
            "(hypothesis 'injective' of digest_wrong_* and of the nonce "
            "window theorems)",
            "environ strings carry code points <= 255 (PEP 3333): the "
            "model's \\w table, str.strip and capitalize are exact only "
            "there",
            "float rounding of time()/timeout is outside the model; times "
            "are >= 1 ms away from window edges",
            "monitor: a header that is not RFC 7235-well-formed but whose "
            "lenient reading (bare non-token value, repeated parameter) "
            "carries valid credentials may be served or refused ('either'); "
            "stale is required when the only deviation is an expired nonce, "
            "forbidden when the nonce is currently valid, and not "
            "constrained when the nonce cannot be verified at all "
            "(RFC 7616 3.3)"])


def monitor_challenge(ctx, world, chal, obs):
    ctx.case(("challenge", world.alg, world.qop, world.realm))
    want_qop = world.qop or None
    ok = (obs["code"] == 401 and not obs["ran"] and chal is not None
          and chal.get("realm") == world.realm
          and chal.get("algorithm") == world.alg
          and chal.get("qop") == want_qop
          and chal.get("opaque") == hashlib.sha256(HOST.encode()).hexdigest()
          and bool(chal.get("nonce")) and not obs["stale"])
    if not ok:
        ctx.violation("challenge-malformed", {
            "alg": world.alg, "qop": world.qop, "realm": world.realm,
            "observed": obs})


def judge(ctx, world, label, req, obs, verdict, user, stale):
    method, path, query, agent, text, t_us = req
    kind = label.split(":")[0]
    ctx.count("monitor:%s:%s" % (kind, verdict))
    ctx.case(("mon", label, world.alg, world.qop, world.realm, world.required,
              world.timeout, method, path, query, agent, t_us,
              None if text is None else text[:300]), True,
             {"label": label, "alg": world.alg, "qop": world.qop,
              "expected": verdict, "code": obs["code"], "ran": obs["ran"]})
    detail = {"label": label, "alg": world.alg, "qop": world.qop,
              "timeout": world.timeout, "realm": world.realm,
              "required_user": world.required, "secret": world.secret,
              "method": method, "path": path, "query": query,
              "user_agent": agent,
              "authorization": None if text is None else text[:700],
              "t_us": t_us, "expected": [verdict, user, stale],
              "observed": obs}
    ran_ok = obs["ran"] and obs["code"] == 200
    denied_ok = (not obs["ran"] and obs["code"] == 401 and obs["www"]
                 and obs["www"].startswith("Digest "))
    if not (ran_ok or denied_ok):
        ctx.violation("digest-neither-200-nor-401-challenge", detail)
        return
    if verdict == "run" and not obs["ran"]:
        if kind == "correct" or kind.startswith("correct-") or kind == "age":
            ctx.violation("digest-correct-header-rejected:" + kind, detail)
        else:
            ctx.violation("digest-equivalent-header-rejected:" + kind, detail)
        return
    if verdict == "reject" and obs["ran"]:
        if kind == "uri-with-prefix":
            ctx.violation("digest-uri-suffix-accepted", detail)
        else:
            ctx.violation("digest-accepted:" + kind, detail)
        return
    if obs["ran"]:
        if obs["user"] != user:
            ctx.violation("digest-wrong-req-user", detail)
        return
    if verdict == "either":
        ctx.count("monitor:lenient-reading-refused")
    if stale is True and not obs["stale"]:
        ctx.violation("digest-expired-nonce-not-stale", detail)
    elif stale is False and obs["stale"]:
        ctx.violation("digest-stale-with-valid-nonce:" + kind, detail)
    elif stale is None:
        ctx.count("monitor:stale-unconstrained:%s" % obs["stale"])


def nonce_of_a_refusal(ctx, world, epoch_us):
    """every 401 issues a nonce: the one handed out with the refusal of a
    wrong password at t0 must be usable for the whole lifetime from t0,
    also when the client's previous nonce was still valid at t0"""
    tmo = world.timeout
    if not tmo:
        return
    unit = tmo * 10 ** 6
    start = (epoch_us // unit) * unit
    t_a, t_0 = start + unit // 5, start + unit + 7 * unit // 10
    agent = "client with an older nonce"
    method, path, query = "GET", "/admin", ""
    user = world.required or list(USERS[world.realm])[0]
    password = USERS[world.realm][user]
    real = hashlib.md5 if world.alg.startswith("MD5") else hashlib.sha256
    chal_a, _ = world.challenge(agent, t_a)
    if not chal_a or "nonce" not in chal_a:
        return

    def header(nonce, opaque, pw):
        return lat(serialize(client_fields(
            real, world.alg, world.qop, user, world.realm, pw, nonce, opaque,
            method, request_uri(path, query))))
    refused = world.request(method, path, query, agent, header(
        chal_a["nonce"], chal_a["opaque"], password + "-wrong"), t_0)
    chal_b = parse_challenge(refused["www"])
    ctx.case(("refusal-nonce", world.alg, world.qop, tmo))
    ctx.count("monitor:nonce-of-a-refusal")
    if refused["ran"] or not chal_b or "nonce" not in chal_b:
        ctx.violation("digest-refusal-without-challenge",
                      {"alg": world.alg, "observed": refused})
        return
    world.issued.setdefault(chal_b["nonce"], (agent, t_0))
    for part in (unit // 2, unit - 10 ** 6):
        again = world.request(method, path, query, agent, header(
            chal_b["nonce"], chal_b["opaque"], password), t_0 + part)
        if not again["ran"] or again["user"] != user:
            ctx.violation("digest-nonce-of-refusal-expires-early", {
                "alg": world.alg, "qop": world.qop, "timeout": tmo,
                "first_challenge_at_us": t_a, "wrong_password_at_us": t_0,
                "right_password_at_us": t_0 + part,
                "same_nonce_as_first_challenge":
                    chal_b["nonce"] == chal_a["nonce"],
                "observed": again})


def tables_are_per_application(ctx, clock):
    """users registered in place on one application's own table must not
    be known to another application of the same process"""
    from poorwsgi import digest, state
    ran = []

    def build(register):
        app = new_app(secret_key="shared-secret")
        app.auth_type = "Digest"
        if register:
            app.auth_map.setdefault("R", {})["u"] = digest.hexdigest(
                "u", "R", "pw", hashlib.md5)

        def protected(req):
            ran.append(req.user)
            return "ok"
        app.set_default(digest.check_digest("R")(protected),
                        state.METHOD_ALL)
        return app
    first, second = build(True), build(False)
    clock.us = 1790000000 * 10 ** 6
    for app, known in ((first, True), (second, False)):
        ans = call(app, environ(path="/p", headers={"User-Agent": "ua"},
                                extra={"SERVER_NAME": HOST}))
        chal = parse_challenge(ans.header("WWW-Authenticate"))
        fields = client_fields(hashlib.md5, "MD5-sess", "auth", "u", "R",
                               "pw", chal["nonce"], chal["opaque"], "GET",
                               "/p")
        del ran[:]
        ans = call(app, environ(path="/p", headers={
            "User-Agent": "ua", "Authorization": serialize(fields)},
            extra={"SERVER_NAME": HOST}))
        ctx.case(("two-apps", known), True, {"registered_here": known})
        ctx.count("monitor:two-applications")
        if bool(ran) != known:
            ctx.violation("digest-user-table-shared-between-applications"
                          if ran else "digest-correct-header-rejected:two-apps",
                          {"registered_on_this_application": known,
                           "endpoint_ran": bool(ran), "status": ans.status})


def retry_after_stale(ctx, world, req, obs):
    """a stale answer carries a usable challenge: recompute and succeed"""
    method, path, query, agent, t_us = req
    chal = parse_challenge(obs["www"])
    ctx.case(("retry", world.alg, world.qop, t_us))
    if not chal or "nonce" not in chal:
        ctx.violation("challenge-malformed", {"observed": obs})
        return
    world.issued.setdefault(chal["nonce"], (agent, t_us))
    user = world.required or list(USERS[world.realm])[0]
    real = hashlib.md5 if world.alg.startswith("MD5") else hashlib.sha256
    fields = client_fields(real, world.alg, world.qop, user, world.realm,
                           USERS[world.realm][user], chal["nonce"],
                           chal["opaque"], method, request_uri(path, query))
    again = world.request(method, path, query, agent, lat(serialize(fields)),
                          t_us + 1000)
    if not again["ran"] or again["user"] != user:
        ctx.violation("digest-retry-after-stale-rejected", {
            "alg": world.alg, "qop": world.qop, "timeout": world.timeout,
            "method": method, "path": path, "query": query, "t_us": t_us,
            "authorization": serialize(fields), "observed": again})
