"""C19 registry: obligations + correspondence (model vs a real Application
driven through its registration API, outcomes of every call and all
introspection views) + monitor (independent reference registry written from
the property text, compared on outcomes, views and probe dispatch)."""
import functools
import itertools
import time
import uuid

import implrun
from implrun import new_app, environ, call
from core import Exn, zlit, slit, clist, to_v

IMPORTS = "Require Import PW.model.Registry."

# ----------------------------------------------------------------- the pool
ALL_BITS = [1, 2, 4, 8, 16, 32, 64, 128, 256]   # HEAD GET POST PUT ... PATCH
PROBE_METHODS = [("GET", 2), ("HEAD", 1), ("POST", 4)]
ROUTE_DEFAULT = 3       # METHOD_HEAD | METHOD_GET
STATE_DEFAULT = 7       # METHOD_HEAD | METHOD_GET | METHOD_POST

LOG = []                # what the callables of the pool saw, in order
FIRE = []               # exception classes to be raised by the next handler
FIRE_EH = []            # ... by the next exception handler that is called


def make_handler(i):
    def handler(req, *args, **kwargs):
        LOG.append(("h", i))
        if FIRE and not (args and isinstance(args[0], BaseException)):
            raise FIRE.pop()("fired")
        if FIRE_EH and args and isinstance(args[0], BaseException):
            raise FIRE_EH.pop()("fired")
        return "h%d" % i
    handler.__name__ = "h%d" % i
    return handler


def make_hook(i):
    def hook(req, response=None):
        LOG.append(("k", i))
        return response
    hook.__name__ = "k%d" % i
    return hook


def conv0(text):
    return text


class CallableHandler:
    """a handler that is an instance with __call__: no __name__"""
    def __init__(self, fun):
        self.fun = fun

    def __call__(self, *args, **kwargs):
        return self.fun(*args, **kwargs)


# any callable can be registered: a function, a functools.partial, an object
HANDLERS = [make_handler(0), functools.partial(make_handler(1)),
            CallableHandler(make_handler(2))]
HOOKS = [make_hook(i) for i in range(2)]
EXCS = [ValueError, KeyError, TypeError, TimeoutError]
CODES = [404, 500, 405, 418, 204]
BUILTIN_PAGES = (304, 400, 401, 403, 404, 405, 500, 501)

# uris for set/pop/is_route: (text, is_group, identifier).  The identifier of
# a group uri is that of the pattern it must translate to.
PATTERNS = [r'/u/(?P<name>[^/]+)\Z', r'/n/(?P<id>-?\d+)\Z', r'/r/\d+',
            r'/never']
PAT_ID = {p: i for i, p in enumerate(PATTERNS)}
STATIC = ["/a", "/b", "/c"]
URIS = {
    "a": ("/a", False, 0), "b": ("/b", False, 1), "c": ("/c", False, 2),
    "u": ("/u/<name>", True, 0), "n": ("/n/<id:int>", True, 1),
    "N": ("/n/<id:INT>", True, 1),
}
# probe path -> pattern identifier it matches (patterns of the pool are
# disjoint, so the order of the regular table does not matter here)
PROBE_PATHS = [("/a", ("route", 0)), ("/b", ("route", 1)),
               ("/u/x", ("regular", 0)), ("/n/5", ("regular", 1)),
               ("/r/7", ("regular", 2)), ("/zz", None)]

REGEXES = {10: r'\d+', 11: r'[a-z]+'}
CONVS = {0: int, 2: str, 10: conv0}
REGEX_ID = {r'-?\d+': 0, r'-?\d+(\.\d+)?': 1, r'\w+': 2, r'[0-9a-fA-F]+': 3,
            (r'[0-9a-fA-F]{8}-[0-9a-fA-F]{4}-[0-9a-fA-F]{4}-'
             r'[0-9a-fA-F]{4}-[0-9a-fA-F]{12}'): 4,
            None: 5, r'[^/]+': 6, r'\d+': 10, r'[a-z]+': 11}
CONV_ID = {int: 0, float: 1, str: 2, uuid.UUID: 3, conv0: 10}
BUILTIN_FILTERS = [(":int", (0, 0)), (":float", (1, 1)), (":word", (2, 2)),
                   (":hex", (3, 2)), (":uuid", (4, 3)), (":re:", (5, 2)),
                   ("none", (6, 2))]


BUILTIN_LIST = [[n, r, c] for n, (r, c) in BUILTIN_FILTERS]


def hid(fun):
    for i, h in enumerate(HANDLERS):
        if h is fun:
            return i
    for i, h in enumerate(HOOKS):
        if h is fun:
            return i
    return 99


# ------------------------------------------------------- operations (tuples)
# ("set_filter", name, regex_id, conv_id, form)
# ("add_before"|"add_after", hook, form)      form 0 method 1 decorator
#                                              2 deprecated 3 deprecated dec.
# ("pop_before"|"pop_after", hook, form)      form 0 method 2 deprecated
# ("set_default", handler, mask, form)        form 0 method 1 decorator
#                                              2/3 same with the mask omitted
# ("pop_default", method)
# ("set_route", uri_key, handler, mask, form) ("pop_route", uri_key, method)
# ("is_route", uri_key)
# ("set_regular", pattern_id, handler, mask, form) ("pop_regular", pid, m)
# ("is_regular", pid)
# ("set_state", code, handler, mask, form) ("pop_state", code, method)
# ("set_error", exc_id, handler, mask, form) ("pop_error", exc_id, method)

def coq_uri(key):
    _, group, ident = URIS[key]
    return "(%s %d)" % ("Group" if group else "Static", ident)


def coq_op(op):
    k = op[0]
    if k == "set_filter":
        return "SetFilter %s %d %d" % (slit(op[1]), op[2], op[3])
    if k in ("add_before", "pop_before", "add_after", "pop_after"):
        name = {"add_before": "AddBefore", "pop_before": "PopBefore",
                "add_after": "AddAfter", "pop_after": "PopAfter"}[k]
        return "%s %d" % (name, op[1])
    if k == "set_default":
        return "SetDefault %d %s" % (op[1], zlit(op[2]))
    if k == "pop_default":
        return "PopDefault %s" % zlit(op[1])
    if k == "set_route":
        return "SetRoute %s %d %s" % (coq_uri(op[1]), op[2], zlit(op[3]))
    if k == "pop_route":
        return "PopRoute %s %s" % (coq_uri(op[1]), zlit(op[2]))
    if k == "is_route":
        return "IsRoute %s" % coq_uri(op[1])
    if k == "set_regular":
        return "SetRegular %d %d %s" % (op[1], op[2], zlit(op[3]))
    if k == "pop_regular":
        return "PopRegular %d %s" % (op[1], zlit(op[2]))
    if k == "is_regular":
        return "IsRegular %d" % op[1]
    if k == "set_state":
        return "SetState %d %d %s" % (op[1], op[2], zlit(op[3]))
    if k == "pop_state":
        return "PopState %d %s" % (op[1], zlit(op[2]))
    if k == "set_error":
        return "SetError %d %d %s" % (op[1], op[2], zlit(op[3]))
    if k == "pop_error":
        return "PopError %d %s" % (op[1], zlit(op[2]))
    raise ValueError(op)


class BadReturn(Exception):
    pass


def _registered(rv, fun, form):
    """set_* return None, the decorator forms return the function"""
    if form in (1, 3):
        if rv is not fun:
            raise BadReturn("decorator did not return the function")
    elif rv is not None:
        raise BadReturn("set_* returned %r" % (rv,))
    return None


def _set(app, names, key_args, fun, mask, form):
    """names = (method name, decorator name); key_args precede fun"""
    meth, deco = names
    if form == 0:
        return _registered(getattr(app, meth)(*key_args, fun, mask), fun, 0)
    if form == 1:
        return _registered(getattr(app, deco)(*key_args, mask)(fun), fun, 1)
    if form == 2:
        return _registered(getattr(app, meth)(*key_args, fun), fun, 2)
    return _registered(getattr(app, deco)(*key_args)(fun), fun, 3)


def apply_impl(app, op):
    """run one call; canonical outcome: None / handler index / bool / Exn"""
    k = op[0]
    try:
        if k == "set_filter":
            _, name, rid, cid, form = op
            if form == 1:
                rv = app.set_filter(name, REGEXES[rid])
            else:
                rv = app.set_filter(name, REGEXES[rid], CONVS[cid])
            return _registered(rv, None, 0)
        if k in ("add_before", "add_after"):
            fun, form = HOOKS[op[1]], op[2]
            word = "before" if k == "add_before" else "after"
            if form == 0:
                rv = getattr(app, "add_%s_response" % word)(fun)
            elif form == 1:
                rv = getattr(app, "%s_response" % word)()(fun)
            elif form == 2:
                rv = getattr(app, "add_%s_request" % word)(fun)
            else:
                rv = getattr(app, "%s_request" % word)()(fun)
            return _registered(rv, fun, form if form in (1, 3) else 0)
        if k in ("pop_before", "pop_after"):
            fun, form = HOOKS[op[1]], op[2]
            word = "before" if k == "pop_before" else "after"
            if form == 0:
                rv = getattr(app, "pop_%s_response" % word)(fun)
            else:
                rv = getattr(app, "pop_%s_request" % word)(fun)
            return _registered(rv, None, 0)
        if k == "set_default":
            return _set(app, ("set_default", "default"), (),
                        HANDLERS[op[1]], op[2], op[3])
        if k == "set_route":
            return _set(app, ("set_route", "route"), (URIS[op[1]][0],),
                        HANDLERS[op[2]], op[3], op[4])
        if k == "set_regular":
            return _set(app, ("set_regular_route", "regular_route"),
                        (PATTERNS[op[1]],), HANDLERS[op[2]], op[3], op[4])
        if k == "set_state":
            return _set(app, ("set_http_state", "http_state"), (op[1],),
                        HANDLERS[op[2]], op[3], op[4])
        if k == "set_error":
            return _set(app, ("set_error_handler", "error_handler"),
                        (EXCS[op[1]],), HANDLERS[op[2]], op[3], op[4])
        if k == "pop_default":
            return hid(app.pop_default(op[1]))
        if k == "pop_route":
            rv = app.pop_route(URIS[op[1]][0], op[2])
            return hid(rv[0] if URIS[op[1]][1] else rv)
        if k == "pop_regular":
            return hid(app.pop_regular_route(PATTERNS[op[1]], op[2])[0])
        if k == "pop_state":
            return hid(app.pop_http_state(op[1], op[2]))
        if k == "pop_error":
            return hid(app.pop_error_handler(EXCS[op[1]], op[2]))
        if k == "is_route":
            rv = app.is_route(URIS[op[1]][0])
        else:
            assert k == "is_regular", op
            rv = app.is_regular_route(PATTERNS[op[1]])
        if rv is not True and rv is not False:
            raise BadReturn("is_* returned %r" % (rv,))
        return rv
    except Exception as err:  # noqa: the outcome is the class name
        return Exn(type(err).__name__)


def same_outcome(a, b):
    if isinstance(a, Exn) or isinstance(b, Exn):
        return isinstance(a, Exn) and isinstance(b, Exn) and a.name == b.name
    return type(a) is type(b) and a == b


# ----------------------------------------------------------------- the views
def _mt(d):
    return [[int(b), hid(f)] for b, f in d.items()]


def impl_views(app):
    """ordered, exactly as the introspection properties show them"""
    exc_id = {e: i for i, e in enumerate(EXCS)}
    static_id = {p: i for i, p in enumerate(STATIC)}
    filters = [[n, REGEX_ID.get(rc[0], -1), CONV_ID.get(rc[1], -1)]
               for n, rc in app.filters.items()]
    if filters[:len(BUILTIN_LIST)] == BUILTIN_LIST:
        # abbreviation of the untouched built-in entries (as enc_ftab)
        filters = [None] + filters[len(BUILTIN_LIST):]
    return [
        filters,
        [hid(f) for f in app.before],
        [hid(f) for f in app.after],
        _mt(app.defaults),
        [[static_id.get(p, -1), _mt(d)] for p, d in app.routes.items()],
        [[PAT_ID.get(r.pattern, -1),
          [[int(b), hid(v[0])] for b, v in d.items()]]
         for r, d in app.regular_routes.items()],
        [[c, _mt(d)] for c, d in app.states.items()],
        [[exc_id.get(e, -1), _mt(d)] for e, d in app.errors.items()],
    ]


def views_as_map(views):
    """canonical (order-free, empty tables dropped) form for the monitor"""
    out = {}
    for b, h in views[3]:
        out[("default", 0, b)] = h
    for kind, tab in (("route", views[4]), ("regular", views[5]),
                      ("state", views[6]), ("error", views[7])):
        for key, inner in tab:
            for b, h in inner:
                out[(kind, key, b)] = h
    flist = views[0]
    if flist and flist[0] is None:
        flist = BUILTIN_LIST + flist[1:]
    filters = {n: (r, c) for n, r, c in flist}
    return out, filters, list(views[1]), list(views[2])


# ------------------------------------------------- reference registry (oracle)
class Ref:
    """What the property text says: registrations made minus removals."""

    def __init__(self):
        self.map = {}                       # (kind, key, bit) -> handler
        self.filters = dict(BUILTIN_FILTERS)
        self.before = []
        self.after = []
        # route keys registered with a mask naming no method: outside the
        # property's quantifier (single or combined method masks)
        self.ghost = set()

    @staticmethod
    def addr(op):
        k = op[0]
        if k.endswith("_default"):
            return ("default", 0)
        if k.endswith("_route"):
            _, group, ident = URIS[op[1]]
            return ("regular" if group else "route", ident)
        if k.endswith("_regular"):
            return ("regular", op[1])
        if k.endswith("_state"):
            return ("state", op[1])
        return ("error", op[1])

    def apply(self, op):
        k = op[0]
        if k == "set_filter":
            name = op[1]
            if name == "":
                return Exn("IndexError")
            if not name.startswith(":"):
                name = ":" + name
            self.filters[name] = (op[2], op[3])
            return None
        if k in ("add_before", "add_after"):
            lst = self.before if k == "add_before" else self.after
            if op[1] in lst:
                return Exn("ValueError")
            lst.append(op[1])
            return None
        if k in ("pop_before", "pop_after"):
            lst = self.before if k == "pop_before" else self.after
            if op[1] not in lst:
                return Exn("ValueError")
            lst[:] = [x for x in lst if x != op[1]]
            return None
        kind, key = self.addr(op)
        if k.startswith("set_"):
            fun, mask = (op[1], op[2]) if kind == "default" else \
                (op[2], op[3])
            bits = [b for b in ALL_BITS if mask & b]
            for b in bits:
                self.map[(kind, key, b)] = fun
            if not bits and kind in ("route", "regular"):
                self.ghost.add((kind, key))
            return None
        if k.startswith("pop_"):
            meth = op[1] if kind == "default" else op[2]
            if (kind, key, meth) not in self.map:
                return Exn("KeyError")
            return self.map.pop((kind, key, meth))
        assert k.startswith("is_"), op
        return any((kind, key, b) in self.map for b in ALL_BITS)

    def known(self, kind, key):
        return any((kind, key, b) in self.map for b in ALL_BITS)

    def expect(self, bit, target, fire):
        """(log, status) of a request; target = table entry the path can
        match (None: nothing); fire = exception class index or None.
        Returns None when the answer depends on a ghost entry."""
        log = [("k", i) for i in self.before]
        status = None
        handler = None
        if target is not None and target in self.ghost and \
                not self.known(*target):
            return None
        if target is not None and target[0] == "route" and \
                self.known(*target):
            handler = self.map.get((target[0], target[1], bit))
            if handler is None:
                status = 405
        else:
            if target is not None:
                handler = self.map.get((target[0], target[1], bit))
            if handler is None:
                handler = self.map.get(("default", 0, bit))
            if handler is None:
                status = 404
        if handler is not None:
            log.append(("h", handler))
            status = 200
            if isinstance(fire, tuple) and fire[0] == "exc-abort":
                eh = self.map.get(("error", fire[1], bit))
                if eh is not None:
                    log.append(("h", eh))
                    status = fire[2]
                else:
                    status = 500
            elif isinstance(fire, tuple):
                status = fire[1]
            elif fire is not None:
                eh = self.map.get(("error", fire, bit))
                if eh is not None:
                    log.append(("h", eh))
                else:
                    status = 500
        if status != 200:
            sh = self.map.get(("state", status, bit))
            if sh is not None:
                log.append(("h", sh))
                status = 200
            elif status not in BUILTIN_PAGES:
                status = 501        # no page of its own
        log += [("k", i) for i in self.after]
        return log, status

    def reachable(self, bit):
        """a probe path on which a user handler answers for this method"""
        for path, target in PROBE_PATHS:
            if target is not None and target in self.ghost:
                continue
            if target is not None and \
                    (target[0], target[1], bit) in self.map:
                return path, target
            if ("default", 0, bit) in self.map and not (
                    target is not None and target[0] == "route"
                    and self.known(*target)):
                return path, target
        return None


# ---------------------------------------------------------------- the pools
def pool_full():
    ops = []
    ops += [("set_filter", "u", 10, 2, 0), ("set_filter", ":v", 11, 0, 0),
            ("set_filter", "u", 11, 10, 0),
            # names are case-sensitive: 'U' is not 'u', 'Int' not 'int'
            ("set_filter", "U", 10, 0, 0), ("set_filter", "Int", 11, 2, 0),
            # a definition without converter means str, also for a name
            # that exists with another converter (built-in or user's)
            # (built-ins no route of the pool uses)
            ("set_filter", "hex", 11, 2, 1), ("set_filter", "float", 10, 2, 1),
            ("set_filter", ":v", 10, 2, 1), ("set_filter", "uuid", 11, 2, 1)]
    for h in (0, 1):
        for name in ("add_before", "pop_before", "add_after", "pop_after"):
            ops.append((name, h, 0))
    masks = (2, 4, 3)
    for h in (0, 1):
        for m in masks:
            ops.append(("set_default", h, m, 0))
            for u in ("a", "b", "u", "n"):
                ops.append(("set_route", u, h, m, 0))
            for r in (0, 2):
                ops.append(("set_regular", r, h, m, 0))
            for c in (404, 500):
                ops.append(("set_state", c, h, m, 0))
            for e in (0, 1):
                ops.append(("set_error", e, h, m, 0))
    for m in (1, 2, 4):
        ops.append(("pop_default", m))
        for u in ("a", "b", "u", "n"):
            ops.append(("pop_route", u, m))
        for r in (0, 2):
            ops.append(("pop_regular", r, m))
        for c in (404, 500):
            ops.append(("pop_state", c, m))
        for e in (0, 1):
            ops.append(("pop_error", e, m))
    for u in ("a", "b", "u", "n"):
        ops.append(("is_route", u))
    for r in (0, 2):
        ops.append(("is_regular", r))
    return ops


FAMILIES = {
    "hooks": [(n, h, 0) for n in ("add_before", "pop_before", "add_after",
                                  "pop_after") for h in (0, 1)],
    "static": [("set_route", "a", 0, 2, 0), ("set_route", "a", 1, 2, 0),
               ("set_route", "a", 0, 3, 0), ("set_route", "a", 1, 4, 0),
               ("set_route", "b", 0, 2, 0),
               ("pop_route", "a", 2), ("pop_route", "a", 1),
               ("pop_route", "a", 4), ("pop_route", "b", 2),
               ("is_route", "a"), ("is_route", "b")],
    "group": [("set_route", "u", 0, 2, 0), ("set_route", "u", 1, 3, 0),
              ("set_regular", 0, 1, 2, 0), ("set_regular", 2, 0, 2, 0),
              ("pop_route", "u", 2), ("pop_route", "u", 1),
              ("pop_regular", 0, 2), ("pop_regular", 2, 2),
              ("is_route", "u"), ("is_regular", 0), ("is_regular", 2)],
    "default": [("set_default", 0, 2, 0), ("set_default", 1, 2, 0),
                ("set_default", 0, 3, 0), ("set_default", 1, 7, 0),
                ("pop_default", 2), ("pop_default", 1), ("pop_default", 4),
                ("pop_default", 3)],
    "state": [("set_state", 404, 0, 2, 0), ("set_state", 404, 1, 7, 0),
              ("set_state", 404, 0, 3, 0), ("set_state", 500, 1, 2, 0),
              ("pop_state", 404, 2), ("pop_state", 404, 1),
              ("pop_state", 404, 4), ("pop_state", 500, 2),
              ("set_default", 2, 7, 0)],
    "error": [("set_error", 0, 0, 2, 0), ("set_error", 0, 1, 7, 0),
              ("set_error", 1, 0, 2, 0), ("pop_error", 0, 2),
              ("pop_error", 0, 4), ("pop_error", 1, 2),
              ("set_route", "a", 2, 7, 0), ("set_state", 500, 1, 2, 0)],
    "mixed": [("set_route", "a", 0, 2, 0), ("pop_route", "a", 2),
              ("set_default", 1, 2, 0), ("pop_default", 2),
              ("set_state", 404, 0, 2, 0), ("pop_state", 404, 2),
              ("add_before", 0, 0), ("pop_before", 0, 0),
              ("add_after", 0, 0), ("pop_after", 0, 0),
              ("set_filter", "u", 10, 2, 0),
              ("set_error", 0, 1, 2, 0), ("pop_error", 0, 2)],
}
# probe paths that matter for a family (None = all), whether to fire
FAMILY_PROBES = {
    "hooks": (["/zz"], False), "static": (["/a", "/b", "/zz"], False),
    "group": (["/u/x", "/r/7", "/zz"], False), "default": (["/zz", "/a"],
                                                           False),
    "state": (["/zz"], True), "error": (["/a"], True),
    "mixed": (["/a", "/zz"], True),
}
FAMILY_DEPTH = {"hooks": 5, "static": 5, "group": 5, "default": 5,
                "state": 5, "error": 5, "mixed": 4}


def with_form(rng, op):
    """choose between method / decorator / deprecated / default-argument
    forms of the same call (the model has one operation for all)"""
    k = op[0]
    if k == "set_filter":
        return op[:4] + (1 if op[3] == 2 and rng.random() < 0.5 else 0,)
    if k in ("add_before", "add_after"):
        return op[:2] + (rng.randrange(4),)
    if k in ("pop_before", "pop_after"):
        return op[:2] + (rng.choice((0, 2)),)
    if k.startswith("set_"):
        mask = op[2] if k == "set_default" else op[3]
        dflt = STATE_DEFAULT if k in ("set_state", "set_error") \
            else ROUTE_DEFAULT
        forms = (0, 1, 2, 3) if mask == dflt else (0, 1)
        return op[:-1] + (rng.choice(forms),)
    return op


def hostile_op(rng):
    """calls outside the well-formed pool: empty / negative / unknown-bit
    masks, combined or unknown methods in pop, never registered keys, empty
    and odd filter names, overriding unused built-in filters"""
    masks = (0, -1, 511, 512, (1 << 20) | 2, 1 << 20, 6, 2, 3)
    meths = (0, 3, 512, -1, 7, 2, 1, 4, 8)
    h = rng.randrange(3)
    choice = rng.randrange(15)
    if choice == 0:
        return ("set_filter", rng.choice(["", ":", ":x", ":hex", "word",
                                          "u", "::", "U", "Word", ":HEX",
                                          "Int"]),
                rng.choice((10, 11)), *rng.choice(((0, 0), (2, 0), (2, 1),
                                                   (10, 0))))
    if choice == 1:
        return (rng.choice(("add_before", "pop_before", "add_after",
                            "pop_after")), rng.randrange(2), 0)
    if choice == 2:
        return ("set_default", h, rng.choice(masks), 0)
    if choice == 3:
        return ("pop_default", rng.choice(meths))
    if choice in (4, 5):
        return ("set_route", rng.choice("abcunN"), h, rng.choice(masks), 0)
    if choice == 6:
        return ("pop_route", rng.choice("abcunN"), rng.choice(meths))
    if choice == 7:
        return ("is_route", rng.choice("abcunN"))
    if choice == 8:
        return ("set_regular", rng.randrange(4), h, rng.choice(masks), 0)
    if choice == 9:
        return ("pop_regular", rng.randrange(4), rng.choice(meths))
    if choice == 10:
        return ("is_regular", rng.randrange(4))
    if choice == 11:
        return ("set_state", rng.choice(CODES), h, rng.choice(masks), 0)
    if choice == 12:
        return ("pop_state", rng.choice(CODES), rng.choice(meths))
    if choice == 13:
        return ("set_error", rng.randrange(len(EXCS)), h, rng.choice(masks), 0)
    return ("pop_error", rng.randrange(len(EXCS)), rng.choice(meths))


# ------------------------------------------------------------------- driver
class Runner:
    def __init__(self, ctx):
        self.ctx = ctx
        self.cases = []
        self.probes = 0
        self.ghost_seen = 0
        from poorwsgi import Application
        self._names = Application._Application__instances

    def fresh(self):
        app = new_app()
        # the per-name singleton list of the library grows with every
        # instance and is scanned on creation; not part of this property
        if len(self._names) > 64:
            del self._names[:]
        return app

    # -- monitor pieces
    def check_outcome(self, ops, i, got, want, ref_before):
        if same_outcome(got, want):
            return
        op = ops[i]
        key = "outcome-differs-from-reference"
        if op[0] == "pop_after":
            before, after = ref_before
            inb, ina = op[1] in before, op[1] in after
            wrong = None if (inb and ina) else Exn("ValueError")
            if same_outcome(got, wrong):
                key = "pop-after-response-looks-in-before-list"
        if op[0] in ("is_route", "is_regular") and \
                Ref.addr(op) in self.ref.ghost:
            self.ghost_seen += 1
            return
        self.ctx.violation(key, {
            "calls": [list(o) for o in ops[:i + 1]],
            "call": list(op), "got": repr(got), "reference": repr(want)})

    def check_views(self, ops, i, views):
        ref = self.ref
        got_map, got_filters, before, after = views_as_map(views)
        detail = {"calls": [list(o) for o in ops[:i + 1]]}
        if len(set(before)) != len(before) or len(set(after)) != len(after):
            self.ctx.violation("hook-registered-twice",
                               dict(detail, before=before, after=after))
        if before != ref.before or after != ref.after:
            self.ctx.violation("hook-lists-differ-from-reference", dict(
                detail, before=before, after=after,
                reference=[ref.before, ref.after]))
        if got_map != ref.map:
            diff = sorted(set(got_map.items()) ^ set(ref.map.items()),
                          key=repr)
            self.ctx.violation("views-differ-from-reference", dict(
                detail, difference=[list(map(repr, d)) for d in diff[:8]]))
        if got_filters != ref.filters:
            self.ctx.violation("filters-differ-from-reference", dict(
                detail, got=repr(got_filters), reference=repr(ref.filters)))

    def probe(self, app, ops, i, paths, fire):
        ref = self.ref
        plan = []
        for path, target in PROBE_PATHS:
            if paths is not None and path not in paths:
                continue
            for name, bit in PROBE_METHODS:
                plan.append((name, bit, path, target, None))
        if fire:
            for name, bit in PROBE_METHODS[::2]:
                hit = ref.reachable(bit)
                if hit is None:
                    continue
                for exc in (0, 1, 3, ("abort", 418), ("abort", 204),
                            ("exc-abort", 0, 404), ("exc-abort", 1, 418)):
                    plan.append((name, bit, hit[0], hit[1], exc))
        for name, bit, path, target, exc in plan:
            want = ref.expect(bit, target, exc)
            if want is None:
                self.ghost_seen += 1
                continue
            del LOG[:]
            del FIRE[:]
            del FIRE_EH[:]
            if isinstance(exc, tuple) and exc[0] == "exc-abort":
                # the endpoint fails, and the exception handler (if one is
                # registered) aborts with a status in its turn
                from poorwsgi.response import HTTPException
                FIRE.append(EXCS[exc[1]])
                FIRE_EH.append(lambda msg, code=exc[2]: HTTPException(code))
            elif isinstance(exc, tuple):
                # the handler aborts with a status: the handler registered
                # for (status, method) answers, whatever the status is
                from poorwsgi.response import HTTPException
                FIRE.append(lambda msg, code=exc[1]: HTTPException(code))
            elif exc is not None:
                FIRE.append(EXCS[exc])
            ans = call(app, environ(name, path))
            got = (list(LOG), ans.code)
            del FIRE[:]
            del FIRE_EH[:]
            self.probes += 1
            if ans.raised is not None or got != (want[0], want[1]):
                self.ctx.violation("dispatch-differs-from-reference", {
                    "calls": [list(o) for o in ops[:i + 1]],
                    "request": [name, path],
                    "fired": None if exc is None else
                    "%s, then its handler aborts with %d" % (
                        EXCS[exc[1]].__name__, exc[2])
                    if isinstance(exc, tuple) and exc[0] == "exc-abort"
                    else "abort(%d)" % exc[1] if isinstance(exc, tuple)
                    else EXCS[exc].__name__,
                    "answered_by": repr(got), "reference": repr(want),
                    "raised": repr(ans.raised)})

    # -- one call sequence
    def run(self, ops, tag, per_step, paths=None, fire=True, do_probe=True,
            coq=True):
        ctx = self.ctx
        app = self.fresh()
        self.ref = ref = Ref()
        outs, steps = [], []
        last = len(ops) - 1
        views = None
        for i, op in enumerate(ops):
            ref_hooks = (list(ref.before), list(ref.after))
            got = apply_impl(app, op)
            want = ref.apply(op)
            self.check_outcome(ops, i, got, want, ref_hooks)
            outs.append(got)
            ctx.count(op[0])
            if per_step or i == last:
                views = impl_views(app)
                self.check_views(ops, i, views)
                if do_probe:
                    self.probe(app, ops, i, paths, fire)
                if per_step:
                    steps.append([got, views])
        if coq:
            self.add_case(ops, tag, per_step, steps, outs, views)
        eventful = any(o is not None for o in outs)
        ctx.case((tag, ops), eventful,
                 {"family": tag, "calls": [list(o) for o in ops],
                  "outcomes": [repr(o) for o in outs]}
                 if eventful and len(ops) > 2 else None)
        ctx.count("seq:" + tag)

    def add_case(self, ops, tag, per_step, steps, outs, views):
        coq_ops = clist(coq_op(o) for o in ops)
        if per_step:
            expected = steps
            term = "run_steps %s" % coq_ops
        else:
            expected = [outs, views]
            term = "run_final %s" % coq_ops
        # rendered here: core runs as __main__, its to_v would not recognise
        # the Exn class of the imported module
        self.cases.append((term, to_v(expected), (tag, ops)))


def run(ctx):
    ctx.check_obligations()
    rng = ctx.rng
    runner = Runner(ctx)
    t0 = time.time()

    # 1. every family of the pool, exhaustively to depth 3 (thorough: 4-5)
    for fam, pool in FAMILIES.items():
        paths, fire = FAMILY_PROBES[fam]
        depth = 3 if ctx.quick else FAMILY_DEPTH[fam]
        for length in range(1, depth + 1):
            # depth 5: every sequence meets the reference registry (outcomes
            # and views), a sample is probed / evaluated in Coq
            part = 1.0 if length < 5 else 0.15
            for seq in itertools.product(pool, repeat=length):
                ops = tuple(with_form(rng, o) for o in seq)
                runner.run(ops, fam, False, paths, fire,
                           do_probe=rng.random() < part,
                           coq=rng.random() < part)
    t1 = time.time()

    # 2. the whole pool, exhaustively to depth 2 against the reference
    # registry (quick: a sample is probed / evaluated in Coq)
    full = pool_full()
    ctx.extra["pool_size"] = len(full)
    for length in (1, 2):
        for seq in itertools.product(full, repeat=length):
            ops = tuple(with_form(rng, o) for o in seq)
            sample = rng.random() < (0.1 if ctx.quick else 1.0)
            runner.run(ops, "full", False, None, True, do_probe=sample,
                       coq=length == 1 or not ctx.quick
                       or rng.random() < 0.5)
    t2 = time.time()

    # 3. random long sequences over the whole pool, checked after every call
    for n in range(60 if ctx.quick else 600):
        length = rng.randrange(10, 60)
        # a bias towards a few keys makes removals hit registrations
        sub = rng.sample(full, rng.randrange(8, 40))
        ops = tuple(with_form(rng, rng.choice(sub)) for _ in range(length))
        runner.run(ops, "random", True, None, True)
    # depth 3 over the whole pool by sampling
    for n in range(1500 if ctx.quick else 60000):
        ops = tuple(with_form(rng, rng.choice(full)) for _ in range(3))
        runner.run(ops, "full3", False, None, True,
                   do_probe=rng.random() < (0.2 if ctx.quick else 0.5),
                   coq=ctx.quick or rng.random() < 0.5)
    t3 = time.time()

    # 4. hostile stream
    for n in range(150 if ctx.quick else 1500):
        length = rng.randrange(3, 30)
        ops = tuple(hostile_op(rng) if rng.random() < 0.7
                    else with_form(rng, rng.choice(full))
                    for _ in range(length))
        runner.run(ops, "hostile", True, None, True)
    t4 = time.time()

    rng.shuffle(runner.cases)        # spread the long cases over the shards
    ctx.correspondence("registry", IMPORTS, runner.cases,
                       lambda p: {"family": p[0],
                                  "calls": [list(o) for o in p[1]]})
    t5 = time.time()
    ctx.extra["probe_requests"] = runner.probes
    ctx.extra["timing_s"] = {
        "families": round(t1 - t0, 1), "full_depth2": round(t2 - t1, 1),
        "random": round(t3 - t2, 1), "hostile": round(t4 - t3, 1),
        "coq_cases": round(t5 - t4, 1)}
    if runner.ghost_seen:
        ctx.notes.append(
            "hostile stream: %d is_route answers / probe requests touched a "
            "route key registered with a mask naming no method (empty inner "
            "table: is_route True, 405 instead of 404); outside the "
            "property's quantifier, not judged (theorem "
            "C19_is_route_empty_mask_refuted)" % runner.ghost_seen)
    # a registration or removal made while a request is being served (by a
    # hook) takes effect at once: the hook lists a request walks through are
    # the registered ones at the moment of each call
    from implrun import new_app
    for kind, mode in itertools.product(("before", "after"),
                                        ("pop-later", "add-later")):
        app = new_app()
        seen = []

        def mk(name):
            if kind == "before":
                def hook(req):
                    seen.append(name)
            else:
                def hook(req, res):
                    seen.append(name)
                    return res
            hook.__name__ = name
            return hook
        later, extra = mk("later"), mk("extra")
        add = app.add_before_response if kind == "before" \
            else app.add_after_response
        pop = app.pop_before_response if kind == "before" \
            else app.pop_after_response

        def first(req, res=None):
            seen.append("first")
            if mode == "pop-later":
                pop(later)
            else:
                add(extra)
            return res
        add(first)
        add(later)
        app.set_route("/x", lambda req: seen.append("endpoint") or "ok")
        ans = call(app, environ("GET", "/x"))
        hooks = ["first"] if mode == "pop-later" \
            else ["first", "later", "extra"]
        want = hooks + ["endpoint"] if kind == "before" \
            else ["endpoint"] + hooks
        view = [f.__name__ for f in
                (app.before if kind == "before" else app.after)]
        ctx.case(("registration-during-request", kind, mode), True,
                 {"hooks": kind, "mode": mode, "ran": list(seen)})
        ctx.count("registration during a request")
        if ans.raised is not None or seen != want or view != hooks:
            ctx.violation("registration-during-request-not-effective", {
                "hooks": kind, "mode": mode, "ran": list(seen),
                "expected": want, "registered_afterwards": view,
                "raised": repr(ans.raised)})
    return ctx.finish(
        "call sequences over the op pool of the property: every family "
        "(hooks, static routes, group+regular routes, defaults, status "
        "handlers, exception handlers, mixed) exhaustively to depth 3 "
        "(thorough: 5, mixed 4); the whole pool (%d calls: 4 uris, 2 "
        "patterns, 2 handlers, 3 masks, 2 codes, 2 exception classes, 2 "
        "hooks, 3 filters) exhaustively to depth 2 and sampled at depth 3 "
        "(quick: half of the depth-2 and thorough: 15%% of the depth-5 "
        "sequences go through Coq, all meet the reference registry); "
        "random sequences of 10-60 calls; hostile sequences (empty/negative/"
        "unknown-bit masks, combined methods in pop, unknown keys, odd filter "
        "names); method/decorator/deprecated/default-argument forms chosen at "
        "random. A case is one call sequence; non-trivial when some call "
        "returned a value or raised (a removal, query, duplicate or absent "
        "key)" % len(full),
        assumptions=[
            "handlers, hooks, paths, patterns, status codes and exception "
            "classes are identifiers; a group uri is identified with the "
            "pattern it translates to (checked against the regular_routes "
            "view); filters used by the pool's group uris are not redefined",
            "the value (fun, converters, rule) of a regular route is observed "
            "through fun only",
            "masks and methods are ints (non-int arguments are outside the "
            "model)"])
