"""C08 multipart/form-data decodes to exactly the parts that were encoded.

obligations (coq/props/C08.v) + correspondence (model/Multipart.v against
FieldStorageParser(input, headers).parse() on the same bodies, delivered
through io.BytesIO and through request.CachedInput with every block size;
read_lines_to_outerboundary, valid_boundary, parse_header and the encoder of
the theorems on their own) + monitor (the property text on the
implementation: decode(encode(parts)) == parts for every delivery, file
factory calls, end-to-end POST around app.data_size).

The monitor's encoder below is written from RFC 7578/2046 and is independent
of the model; `run_encode` ties the encoder the theorems speak about to it."""
import io
import re

import implrun  # noqa: F401  (sets sys.path)
from implrun import new_app, environ, call
from core import Exn, slit, zlit, zlist, blit, clist

IMPORTS = "Require Import PW.model.Multipart."
# RFC 2046 bchars
BCHARS = ("0123456789ABCDEFGHIJKLMNOPQRSTUVWXYZabcdefghijklmnopqrstuvwxyz"
          "'()+_,-./:=? ")
TOKEN_CHARS = set("0123456789ABCDEFGHIJKLMNOPQRSTUVWXYZ"
                  "abcdefghijklmnopqrstuvwxyz'+_-.")
NAMES = ["a", "field", "a b", 'q"uo"te', "semi;colon", "back\\slash",
         "dbl\\\\back", "\u00e9t\u00e9", "\u540d\u524d", "x=y", " lead",
         "trail ", "a'b", "tab\tx", "\U0001f600", 'mix "; \\ \u00e9', "",
         "k%22v", "name*", "\\\"", "a\u00a0", "UPPER", "a,b", "(c)",
         # names ending in backslashes / backslash-quote mixtures: rendered
         # as ...\\\\" in front of the next parameter (the class of the former
         # finding param-backslash-before-next-param)
         "trail\\", "two\\\\", "\\", 'q"\\', 'x\\"', "semi;\\", 'a"; b="\\']
FILENAMES = ["f.txt", "my file.bin", 'q"uote.png', "se;mi.txt", "b\\s.txt",
             "\u00fc\u0148\u00ed.dat", "C:\\dir\\x.doc", "a=b.c",
             "\u6587\u4ef6.pdf", "..\\..\\up", "trail.", " x ",
             "C:\\dir\\", 'e"\\', "\\\\",
             # names that are not in a Unicode normal form of their own:
             # combining sequences, a compatibility singleton
             "re\u0301sume\u0301.txt", "A\u030angstro\u0308m", "\u2126.bin",
             # a file input nothing was selected for: filename=""
             "", ""]
CTYPES = [None, None, "text/plain", "application/octet-stream", "image/png",
          "text/plain; charset=utf-8", "application/x-custom+json",
          "Text/Plain",
          # a part may name a charset of its own; the encoder wrote UTF-8
          "text/plain; charset=iso-8859-2", "text/plain; charset=x-mac-ce",
          'text/plain; charset="latin1"']
MAXLINE = 1 << 16
BUFSIZE = 8192


# ------------------------------------------------------------ RFC encoder
def quote(text):
    """RFC 2183 / RFC 822 quoted-string"""
    return '"' + text.replace("\\", "\\\\").replace('"', '\\"') + '"'


def encode(boundary, parts, final_crlf=True):
    """parts: [(name, filename|None, ctype|None, content bytes)]"""
    out = []
    for name, filename, ctype, content in parts:
        head = "Content-Disposition: form-data; name=" + quote(name)
        if filename is not None:
            head += "; filename=" + quote(filename)
        head += "\r\n"
        if ctype is not None:
            head += "Content-Type: " + ctype + "\r\n"
        out.append(b"--" + boundary + b"\r\n" + head.encode("utf-8") +
                   b"\r\n" + content + b"\r\n")
    out.append(b"--" + boundary + b"--" + (b"\r\n" if final_crlf else b""))
    return b"".join(out)


def content_type(boundary, force_quote=False):
    text = boundary.decode("ascii")
    if force_quote or not set(text) <= TOKEN_CHARS:
        text = quote(text)
    return "multipart/form-data; boundary=" + text


def expected(parts):
    """what the property promises for encode(parts)"""
    out = []
    for name, filename, ctype, content in parts:
        main = (ctype or "text/plain").split(";")[0].strip()
        if filename:
            value = content
        else:
            value = content.decode("utf-8", "replace")
        out.append([name, filename, main, value])
    return out


# ------------------------------------------------------- implementation
class Sink:
    """product of the file factory; deliberately not a BytesIO"""
    def __init__(self, name):
        self.name = name
        self.buf = io.BytesIO()

    def write(self, data):
        return self.buf.write(data)

    def seek(self, *args):
        return self.buf.seek(*args)

    def read(self, *args):
        return self.buf.read(*args)

    def close(self):
        pass


class RawStream:
    """wsgi.input of a server: only read(), not a BytesIO"""
    def __init__(self, data):
        self.data, self.pos = data, 0

    def read(self, size=-1):
        if size is None or size < 0:
            size = len(self.data) - self.pos
        out = self.data[self.pos:self.pos + size]
        self.pos += len(out)
        return out


def divided_delimiter(content):
    """the CR of the CRLF in front of the delimiter is the last byte of a
    full 65536-byte readline piece of a CRLF-splitting reader"""
    run = len(content) - (content.rfind(b"\r\n") + 2
                          if b"\r\n" in content else 0)
    return run % MAXLINE == MAXLINE - 1


def headers_of(ctype_value, clen):
    from poorwsgi.headers import Headers
    items = []
    if ctype_value is not None:
        items.append(("Content-Type", ctype_value))
    if clen is not None:
        items.append(("Content-Length", str(clen)))
    return Headers(items, False)


def observe(body, ctype_value, clen, delivery, cb, kbv=0):
    """[fields, factory calls, unread input] or Exn"""
    from poorwsgi.fieldstorage import FieldStorageParser
    from poorwsgi.request import CachedInput
    if delivery == 0:
        inp = io.BytesIO(body)
    else:
        inp = CachedInput(io.BytesIO(body), len(body), delivery, timeout=None)
    calls = []

    def factory(filename):
        calls.append(filename)
        return Sink(filename)

    try:
        form = FieldStorageParser(inp, headers_of(ctype_value, clen),
                                  keep_blank_values=kbv,
                                  file_callback=factory if cb else None
                                  ).parse()
        fields = []
        for fld in form.list:
            inmem = isinstance(fld.file, (io.BytesIO, io.StringIO))
            fields.append([fld.name, fld.filename, fld.type, fld.value,
                           inmem])
    except Exception as err:  # noqa
        return Exn(type(err).__name__)
    rest = inp.read() if delivery == 0 else inp.read(len(body) + 1)
    return [fields, calls, rest]


def deliveries(body, quick, rng):
    """0 = BytesIO, n = CachedInput with block size n"""
    top = len(body) + 2
    if top <= 400 or not quick:
        blocks = list(range(1, min(top, 2000) + 1))
    else:
        blocks = sorted(set(rng.randrange(1, top) for _ in range(40)) |
                        {1, 2, 3, top - 2, top - 1, top})
    return [0] + blocks


# ----------------------------------------------------------- generators
def gen_boundary(rng, maxlen=70):
    pick = rng.random()
    if pick < 0.1:
        return b"----WebKitFormBoundaryMPRpF8CUUmlmqKqy"[:maxlen]
    if pick < 0.2:
        # boundaries made of (or ending in) the delimiter's own dashes
        return rng.choice([b"-", b"--", b"---", b"0123456789-boundary--",
                           b"==--==--", b"x--", b"--x", b"-x-",
                           b"a--b--"])[:maxlen]
    n = rng.choice([1, 1, 2, 3, 3, 5, 8, 13, 27, 40, 69, 70])
    n = min(n, maxlen)
    text = "".join(rng.choice(BCHARS) for _ in range(n))
    if text[-1] == " ":
        text = text[:-1] + rng.choice(BCHARS[:-1])
    return text.encode("ascii")


def alphabet(boundary):
    dash = b"--" + boundary
    toks = [b"\r", b"\n", b"\r\n", b"-", b"--", b"\x00", b"\xff", b" ",
            b"a", b"\t", boundary, b"\r\n--", b"\r\n-", b"\n-", b"\r\r\n"]
    for k in (1, 2, 3, len(dash) - 1):
        if 0 < k < len(dash):
            toks.append(dash[:k])
            toks.append(b"\r\n" + dash[:k])
    if len(boundary) > 1:
        toks.append(b"\r\n--" + boundary[:-1] + b"\r\n")
        toks.append(b"\r\n--" + boundary[1:])
    # near copies: the whole dash-boundary at a line start, then more
    for more in (b"x", b"-", b"-\r\n", b"--x", b"---", b"\x00", b"-- x"):
        toks.append(b"\r\n" + dash + more)
        toks.append(b"\n" + dash + more)
    toks.append(dash)
    return toks


def gen_content(rng, boundary, size):
    toks = alphabet(boundary)
    out = b""
    while len(out) < size:
        out += rng.choice(toks)
    return out[:size]


_DELIM_TAIL = re.compile(rb"(--)?[ \t\n\r\x0b\x0c]")


def dirty(content, boundary):
    """a line of the content reads as a delimiter line: it starts with the
    dash-boundary and goes on with white space, or with "--" and white space
    (the end of the content counts as CRLF: the delimiter's CRLF follows).
    Near copies such as --bX, --b-, --b--X are clean."""
    pat = b"\n--" + boundary
    text = b"\n" + content + b"\r\n"
    at = text.find(pat)
    while at >= 0:
        if _DELIM_TAIL.match(text, at + len(pat)):
            return True
        at = text.find(pat, at + 1)
    return False


def gen_parts(rng, boundary, nparts, maxsize, clean=True):
    parts = []
    for _ in range(nparts):
        name = rng.choice(NAMES)
        filename = rng.choice(FILENAMES) if rng.random() < 0.5 else None
        ctype = rng.choice(CTYPES)
        size = rng.choice([0, 1, 2, 3, rng.randrange(0, maxsize + 1),
                           rng.randrange(0, maxsize + 1)])
        for _try in range(50):
            content = gen_content(rng, boundary, size)
            if not clean or not dirty(content, boundary):
                break
        else:
            content = b"x" * size
        parts.append((name, filename, ctype, content))
    return parts


def hostile(rng, body, boundary):
    """malformed / out-of-contract variants of a valid body"""
    kind = rng.choice(["truncate", "nofinal", "lf-structure", "preamble",
                       "epilogue", "padding", "inject-lf", "inject-crlf",
                       "inject-start", "drop-byte", "dup-byte", "cr-only",
                       "hdr-case", "extra-hdr", "no-cd", "fold"])
    dash = b"--" + boundary
    if kind == "truncate":
        body = body[:rng.randrange(0, len(body) + 1)]
    elif kind == "nofinal":
        body = body[:body.rfind(dash)]
    elif kind == "lf-structure":
        body = body.replace(b"\r\n", b"\n")
    elif kind == "preamble":
        body = rng.choice([b"preamble\r\n", b"\r\n", b"x", b"--\r\n",
                           b" " + dash + b"x\r\n"]) + body
    elif kind == "epilogue":
        body = body + rng.choice([b"epilogue", b"\r\n\r\n", dash + b"\r\n"])
    elif kind == "padding":
        body = body.replace(dash + b"\r\n", dash + rng.choice(
            [b" ", b" \t ", b"\t"]) + b"\r\n")
    elif kind == "inject-lf":
        at = rng.randrange(0, len(body) + 1)
        body = body[:at] + b"\n" + dash + b"\r\n" + body[at:]
    elif kind == "inject-crlf":
        at = rng.randrange(0, len(body) + 1)
        body = body[:at] + b"\r\n" + dash + rng.choice(
            [b"\r\n", b"--\r\n", b"\n", b""]) + body[at:]
    elif kind == "inject-start":
        body = body.replace(b"\r\n\r\n", b"\r\n\r\n" + dash + b"\r\n", 1)
    elif kind == "drop-byte" and body:
        at = rng.randrange(0, len(body))
        body = body[:at] + body[at + 1:]
    elif kind == "dup-byte" and body:
        at = rng.randrange(0, len(body))
        body = body[:at] + body[at:at + 1] + body[at:]
    elif kind == "cr-only":
        body = body.replace(b"\r\n", b"\r", 1)
    elif kind == "hdr-case":
        body = body.replace(b"Content-Disposition", rng.choice(
            [b"content-disposition", b"CONTENT-DISPOSITION"]))
        body = body.replace(b"Content-Type", b"content-TYPE")
    elif kind == "extra-hdr":
        body = body.replace(b"Content-Disposition", rng.choice(
            [b"Content-Length: 3\r\nContent-Disposition",
             b"X-Any: v: w\r\nContent-Disposition",
             b"Content-Disposition: x; name=first\r\nContent-Disposition"]),
            1)
    elif kind == "no-cd":
        body = body.replace(b"Content-Disposition: form-data;", b"X-Cd:", 1)
    elif kind == "fold":
        body = body.replace(b"; name=", b";\r\n name=", 1)
    return kind, body


# ------------------------------------------------------------ Coq terms
def rle(seq):
    """list Z term; runs of >= 64 equal values are written List.repeat"""
    vals = list(seq) if isinstance(seq, (bytes, bytearray)) \
        else [ord(c) for c in seq]
    chunks, lit, i = [], [], 0
    while i < len(vals):
        j = i
        while j < len(vals) and vals[j] == vals[i]:
            j += 1
        if j - i >= 64:
            if lit:
                chunks.append(zlist(lit))
                lit = []
            chunks.append("(repeat %s (Z.to_nat %d))" % (zlit(vals[i]),
                                                         j - i))
        else:
            lit.extend(vals[i:j])
        i = j
    if lit or not chunks:
        chunks.append(zlist(lit))
    term = chunks[-1]
    for chunk in reversed(chunks[:-1]):
        term = "(app %s %s)" % (chunk, term)
    return term


def to_v_rle(obj):
    """core.to_v with long runs compressed"""
    if isinstance(obj, Exn):
        return '(VX "%s")' % obj.name
    if obj is None:
        return "VN"
    if isinstance(obj, bool):
        return "(VB %s)" % blit(obj)
    if isinstance(obj, int):
        return "(VZ %s)" % zlit(obj)
    if isinstance(obj, str):
        return "(VS %s)" % rle(obj)
    if isinstance(obj, (bytes, bytearray)):
        return "(VY %s)" % rle(obj)
    return "(VL %s)" % clist(to_v_rle(x) for x in obj)


def model_decodable(data):
    """the model's utf8_decode is exact on this input: well-formed
    sequences and bytes that can never start or continue one"""
    i, n = 0, len(data)
    while i < n:
        c = data[i]
        if c < 0x80 or c >= 0xf5 or c in (0xc0, 0xc1):
            i += 1
            continue
        need = 1 if c < 0xe0 else 2 if c < 0xf0 else 3
        if c < 0xc2:
            return False        # a stray continuation byte
        try:
            data[i:i + need + 1].decode("utf-8")
        except UnicodeDecodeError:
            return False
        if len(data[i:i + need + 1]) != need + 1:
            return False
        i += need + 1
    return True


def opt_s(text):
    return "None" if text is None else "(Some %s)" % slit(text)


def part_term(part):
    name, filename, ctype, content = part
    return "(mkpart %s %s %s %s)" % (slit(name), opt_s(filename),
                                     opt_s(ctype), slit(content))


def parse_term(reader, ctype_value, clen, cb, body_term):
    return "run_parse %d %s %s %s %s" % (
        reader, opt_s(ctype_value), zlit(-1 if clen is None else clen),
        blit(cb), body_term)


def add_parse_cases(ctx, cases, body, ctype_value, clen, cb, label,
                    body_term=None, kbv=0, blocks=None):
    """run every delivery; one model case per distinct implementation
    answer and reader kind.  Returns {delivery: observation}."""
    seen = {}
    out = {}
    term_body = body_term or slit(body)
    for dlv in (blocks if blocks is not None
                else deliveries(body, ctx.quick, ctx.rng)):
        obs = observe(body, ctype_value, clen, dlv, cb, kbv)
        out[dlv] = obs
        reader = 0 if dlv == 0 else 1
        key = (reader, repr(obs))
        if key in seen:
            continue
        seen[key] = dlv
        cases.append((parse_term(reader, ctype_value, clen, cb, term_body),
                      to_v_rle(obs), {"kind": label, "delivery": dlv,
                            "body": body[:400].decode("latin-1"),
                            "body_len": len(body),
                            "content_type": ctype_value, "clen": clen,
                            "file_callback": cb}))
        ctx.count("corr:%s:%s" % (label, "bytesio" if dlv == 0 else "cached"))
    return out


# --------------------------------------------------------- correspondence
def corr_small(ctx, cases):
    rng = ctx.rng
    nbodies = 150 if ctx.quick else 1800
    maxparts = 3 if ctx.quick else 6
    for i in range(nbodies):
        # keep model-side literals small
        nparts = rng.randrange(1, maxparts + 1)
        boundary = gen_boundary(rng, 70 if nparts <= 2 else 12)
        budget = 64 if nparts <= 2 else 24
        parts = gen_parts(rng, boundary, nparts, budget,
                          clean=rng.random() < 0.8)
        final = rng.random() < 0.5
        body = encode(boundary, parts, final)
        ctv = content_type(boundary, rng.random() < 0.3)
        label = "valid"
        if rng.random() < 0.35:
            kind, mutated = hostile(rng, body, boundary)
            if model_decodable(mutated):
                label, body = "hostile-" + kind, mutated
            else:
                ctx.count("corr:skipped-outside-decoder-model")
        roll = rng.random()
        if roll < 0.4:
            clen = None
        elif roll < 0.85 or not label.startswith("hostile"):
            clen = len(body)
        else:
            clen = rng.choice([0, 1, len(body) // 2, len(body) - 1,
                               len(body) + 5, -3])
        cb = rng.random() < 0.5
        kbv = rng.randrange(2)
        add_parse_cases(ctx, cases, body, ctv, clen, cb, label, kbv=kbv)
    # request headers the parser refuses or routes elsewhere
    body = encode(b"b", [("a", None, None, b"v")])
    for ctv in ["multipart/form-data", "multipart/form-data; boundary=",
                'multipart/form-data; boundary=""',
                "multipart/form-data; boundary=b ", 'multipart/form-data; '
                'boundary="b "', "multipart/form-data; boundary=" + "b" * 201,
                "multipart/form-data; boundary=" + "b" * 202,
                "multipart/form-data; boundary=\u00e9", "multipart/mixed; "
                "boundary=b",
                "multipart/form-data; BOUNDARY=b; boundary=c; x=y",
                "multipart/form-data; boundary=b; boundary=c",
                'multipart/form-data; boundary="b\\""',
                "multipart/form-data;boundary=b;charset=utf-8"]:
        add_parse_cases(ctx, cases, body, ctv, len(body), False,
                        "request-header", blocks=[0, 1, 7])


def corr_large(ctx, cases):
    """bodies around the 8 KiB spill and the 64 KiB line limit; the model
    side builds the run of filler bytes with List.repeat"""
    boundary = b"Xy-Z"
    ctv = content_type(boundary)
    sizes = [BUFSIZE - 1, BUFSIZE, BUFSIZE + 1, MAXLINE - 2, MAXLINE - 1,
             MAXLINE, MAXLINE + 1]
    if not ctx.quick:
        sizes += [2 * MAXLINE - 1, 2 * MAXLINE]
    for size in sizes:
        for filename, tail in ((None, b""), ("f.bin", b""),
                               ("f.bin", b"\r"), ("f.bin", b"\r\n-")):
            if ctx.quick and tail and size not in (MAXLINE - 2, MAXLINE - 1):
                continue
            fill = size - len(tail)
            content = b"a" * fill + tail
            parts = [("big", filename, None, content),
                     ("t", None, None, b"end")]
            body = encode(boundary, parts)
            term = rle(body)
            add_parse_cases(ctx, cases, body, ctv, len(body), False,
                            "large-%d" % size, body_term=term,
                            blocks=[0, 1 << 15, 4093, len(body) + 1])


    for tail in (b"", b"--"):
        content = b"a" * MAXLINE + b"--" + boundary + tail
        body = encode(boundary, [("big", "f.bin", None, content),
                                 ("t", None, None, b"end")])
        add_parse_cases(ctx, cases, body, ctv, len(body), False,
                        "large-dash-boundary-at-cut", body_term=rle(body),
                        blocks=[0, 1 << 15])


def corr_units(ctx, cases):
    """read_lines_to_outerboundary, valid_boundary, parse_header, readers and
    the encoder on their own"""
    from poorwsgi.fieldstorage import FieldStorageParser, valid_boundary
    from poorwsgi.headers import parse_header
    from poorwsgi.request import CachedInput
    rng = ctx.rng
    n = 200 if ctx.quick else 3000
    for i in range(n):
        boundary = gen_boundary(rng, 8)
        size = rng.randrange(0, 40)
        content = gen_content(rng, boundary, size)
        tail = rng.choice([b"\r\n--" + boundary + b"\r\n",
                           b"\r\n--" + boundary + b"--\r\n",
                           b"\r\n--" + boundary + b"--",
                           b"\r\n--" + boundary + b" \t\r\nrest\r\n",
                           b"\n--" + boundary + b"\n", b"", b"\r",
                           b"\r\n--" + boundary + b"x\r\n"])
        body = content + tail + rng.choice([b"", b"rest", b"\r\nrest"])
        limit = rng.choice([None, None, len(body), len(content),
                            len(content) + 2, len(content) + 3, 0, 1, -1])
        for dlv in (0, rng.randrange(1, len(body) + 3)):
            if dlv == 0:
                inp = io.BytesIO(body)
            else:
                inp = CachedInput(io.BytesIO(body), len(body), dlv,
                                  timeout=None)
            prs = FieldStorageParser(inp, None, outerboundary=boundary,
                                     limit=limit)
            prs.filename = "x"
            out = prs.read_lines_to_outerboundary(io.BytesIO())
            rest = inp.read() if dlv == 0 else inp.read(len(body) + 1)
            obs = [out.getvalue(), prs.done, prs.bytes_read, rest]
            lim = "None" if limit is None else "(Some %s)" % zlit(limit)
            cases.append(("run_rlob %d 65536 %s %s %s" % (
                0 if dlv == 0 else 1, slit(boundary), lim, slit(body)),
                obs, {"kind": "rlob", "boundary": boundary.decode(),
                      "limit": limit, "delivery": dlv,
                      "body": body.decode("latin-1")}))
            ctx.count("corr:rlob")
    # readers: BytesIO.readline / CachedInput.readline on their own
    for i in range(150 if ctx.quick else 1500):
        data = bytes(rng.choice(b"ab\r\n\r\n-") for _ in
                     range(rng.randrange(0, 12)))
        k = rng.choice([-1, 0, 1, 2, 3, 5, 20])
        blk = rng.randrange(1, len(data) + 3)
        bio = io.BytesIO(data)
        line = bio.readline(k)
        cases.append(("run_readline 0 %s %s" % (zlit(k), slit(data)),
                      [line, bio.read()], {"kind": "lf_line", "k": k,
                                           "data": data.decode("latin-1")}))
        cin = CachedInput(io.BytesIO(data), len(data), blk, timeout=None)
        line = cin.readline(k)
        cases.append(("run_readline 1 %s %s" % (zlit(k), slit(data)),
                      [line, cin.read(len(data) + 1)],
                      {"kind": "crlf_line", "k": k, "block": blk,
                       "data": data.decode("latin-1")}))
        ctx.count("corr:readline", 2)
    # valid_boundary
    pool = [b"", b"a", b" ", b"a ", b" a", b"a\n", b"a\n\n", b"\n", b"a\r",
            b"a" * 200, b"a" * 201, b"a" * 202, b" " * 200 + b"a",
            b"a\x7f", b"\x7f", b"~", b"!", b"a\tb", b"\xe9", b"a b\n"]
    for i in range(60 if ctx.quick else 400):
        pool.append(bytes(rng.choice([32, 33, 45, 65, 126, 127, 31, 10, 200])
                          for _ in range(rng.randrange(0, 6))))
    for cand in pool:
        cases.append(("run_valid_boundary %s" % slit(cand),
                      bool(valid_boundary(cand)),
                      {"kind": "valid_boundary",
                       "boundary": cand.decode("latin-1")}))
        ctx.count("corr:valid_boundary")
    # parse_header on Content-Disposition / Content-Type values
    keys = ["name", "filename", "boundary", "charset"]
    lines = []
    for i in range(250 if ctx.quick else 2500):
        name, fname = rng.choice(NAMES), rng.choice(FILENAMES)
        roll = rng.random()
        if roll < 0.4:
            line = "form-data; name=%s; filename=%s" % (quote(name),
                                                        quote(fname))
        elif roll < 0.6:
            line = "form-data; name=%s" % quote(name)
        elif roll < 0.7:
            line = content_type(gen_boundary(rng), rng.random() < 0.5)
        else:
            line = "".join(rng.choice(['"', "\\", ";", "=", " ", "a", "N",
                                       "name", "filename", "\u00e9", "\t"])
                           for _ in range(rng.randrange(0, 14)))
        lines.append(line)
    # the splitter around backslashes: inside a quoted string a backslash
    # escapes the next character, outside it is an ordinary character
    lines += ['form-data; name="x\\\\"; filename="f"',
              'form-data; name="x\\"; filename="f"',
              'form-data; name="x\\\\\\"; filename="f"',
              'form-data; name=x\\"; filename="f"',
              'form-data; name=x\\; filename="f"',
              'form-data; name=\\"a;b\\"; filename=c', 'a\\";name="c"',
              'x; name="a;b\\', 'x; name="a;b\\\\', 'x;name=\\;filename=y',
              'form-data; name="\\\\"; filename="\\\\"; boundary="\\""']
    for line in lines:
        key, pdict = parse_header(line)
        cases.append(("run_parse_header %s %s" % (
            slit(line), clist(slit(k) for k in keys)),
            [key, [pdict.get(k) for k in keys]],
            {"kind": "parse_header", "line": line}))
        ctx.count("corr:parse_header")
    # the encoder of the theorems = the encoder of the monitor
    for i in range(80 if ctx.quick else 600):
        boundary = gen_boundary(rng, 10)
        parts = gen_parts(rng, boundary, rng.randrange(0, 4), 12, False)
        final = rng.random() < 0.5
        cases.append(("run_encode %s %s %s" % (
            slit(boundary), clist(part_term(p) for p in parts), blit(final)),
            encode(boundary, parts, final),
            {"kind": "encode", "boundary": boundary.decode(),
             "parts": repr(parts)}))
        ctx.count("corr:encode")


# ---------------------------------------------------------------- monitor
def classify(ctx, parts, got, boundary, detail):
    """compare one implementation answer with the promise of the property;
    every class of mismatch has its own key"""
    want = expected(parts)
    if isinstance(got, Exn):
        ctx.violation("parse-raises-" + got.name, detail)
        return False
    fields, calls, rest = got
    have = [f[:4] for f in fields]
    if have == want:
        return True
    if len(have) != len(want):
        cached = detail.get("delivery", "").startswith("CachedInput")
        key = "delimiter-crlf-divided-at-64k-cut" if cached and any(
            divided_delimiter(p[3]) for p in parts) \
            else "part-count-differs"
        ctx.violation(key, dict(detail, got_parts=len(have),
                                want_parts=len(want)))
        return False
    for idx, (hv, wt, part) in enumerate(zip(have, want, parts)):
        if hv == wt:
            continue
        where = dict(detail, part=idx, got=repr(hv)[:300],
                     want=repr(wt)[:300])
        if hv[:2] != wt[:2]:
            name = part[0]
            if name.endswith("\\") and part[1] is not None:
                # a name ending in a backslash in front of a filename
                # parameter (a known finding until _parseparam was
                # repaired; the class keeps its key)
                key = "param-backslash-before-next-param"
            else:
                key = "name-or-filename-differs"
        elif hv[2] != wt[2]:
            key = "media-type-differs"
        elif isinstance(wt[3], bytes):
            key = "file-content-differs"
        else:
            # text field: the known finding is exactly "the value differs
            # only because a 65536-byte read cut fell inside a multi-byte
            # character"
            key = "text-value-differs"
            if isinstance(hv[3], str) and text_cut_explains(part[3], hv[3]):
                key = "text-field-multibyte-at-64k-cut"
        ctx.violation(key, where)
        return False
    return False


def text_cut_explains(content, got):
    """got == piecewise decoding of content at the 64 KiB read cuts of a
    CRLF-free run, and at least one cut is inside a UTF-8 character"""
    whole = content.decode("utf-8", "replace")
    if got == whole or "\ufffd" not in got:
        return False
    # lines as BytesIO/CachedInput hand them out (content is one CRLF/LF
    # free run in the monitor's cases): pieces of MAXLINE bytes
    if b"\n" in content or b"\r" in content:
        return False
    pieces = [content[i:i + MAXLINE] for i in range(0, len(content), MAXLINE)]
    split_inside = False
    for piece in pieces[:-1]:
        try:
            piece.decode("utf-8")
        except UnicodeDecodeError:
            split_inside = True
    piecewise = "".join(p.decode("utf-8", "replace") for p in pieces)
    return split_inside and got == piecewise


def monitor_case(ctx, boundary, parts, final, clen_on, cb, kbv, tag,
                 blocks=None):
    body = encode(boundary, parts, final)
    ctv = content_type(boundary)
    clen = len(body) if clen_on else None
    detail = {"boundary": boundary.decode(), "final_crlf": final,
              "content_length": clen, "file_callback": cb,
              "parts": repr([(n, f, t, c if len(c) < 80 else
                              "%d bytes: %r..%r" % (len(c), c[:20], c[-20:]))
                             for n, f, t, c in parts])[:1500]}
    ok = True
    first = None
    for dlv in (blocks if blocks is not None
                else deliveries(body, ctx.quick, ctx.rng)):
        got = observe(body, ctv, clen, dlv, cb, kbv)
        det = dict(detail, delivery="BytesIO" if dlv == 0
                   else "CachedInput block_size=%d" % dlv)
        if not classify(ctx, parts, got, boundary, det):
            ok = False
            break
        fields, calls, rest = got
        want_calls = [p[1] for p in parts if p[1]] if cb else []
        if calls != want_calls:
            ctx.violation("file-factory-calls", dict(det, calls=calls,
                                                     want=want_calls))
            ok = False
            break
        if rest != b"":
            ctx.violation("input-not-consumed", dict(det, rest=repr(rest)))
            ok = False
            break
        if first is None:
            first = got
        elif got != first:
            ctx.violation("delivery-dependent", dict(det))
            ok = False
            break
    ctx.case((tag, boundary, repr(parts), final, clen_on, cb, kbv),
             True, {"tag": tag, "body_len": len(body),
                    "parts": len(parts), "ok": ok})
    ctx.count("monitor:" + tag)
    return ok


def monitor(ctx):
    rng = ctx.rng
    n = 120 if ctx.quick else 2800
    maxparts = 3 if ctx.quick else 6
    for i in range(n):
        boundary = gen_boundary(rng)
        nparts = rng.randrange(1, maxparts + 1)
        parts = gen_parts(rng, boundary, nparts, 64, clean=True)
        monitor_case(ctx, boundary, parts, rng.random() < 0.5,
                     rng.random() < 0.5, rng.random() < 0.5,
                     rng.randrange(2), "small")
    # every name / filename of the pool, alone and before a filename
    for name in NAMES:
        for filename in [None] + (
                FILENAMES[:3] + FILENAMES[-3:] if ctx.quick else FILENAMES):
            monitor_case(ctx, b"BnD", [(name, filename, None, b"v\r\n--Bn")],
                         True, True, True, 0, "names", blocks=[0, 1, 5, 64])
    # parts without content: an empty text field, a file input nothing was
    # selected for (filename=""), an empty file — each is a part of the form
    for filename, ctype in ((None, None), ("", "application/octet-stream"),
                            ("", None), ("empty.bin", "image/png")):
        for kbv in (0, 1):
            for cb in (False, True):
                monitor_case(ctx, b"BnD", [("a", None, None, b"1"),
                                           ("up", filename, ctype, b""),
                                           ("z", None, None, b"")],
                             True, True, cb, kbv, "empty-parts",
                             blocks=[0, 1, 7, 64])
    # sizes around the spill threshold and the line limit (monitor only)
    sizes = [BUFSIZE - 1, BUFSIZE, BUFSIZE + 1, MAXLINE - 2, MAXLINE - 1,
             MAXLINE, MAXLINE + 1]
    if not ctx.quick:
        sizes += [2 * MAXLINE - 1, 2 * MAXLINE, 2 * MAXLINE + 1,
                  3 * MAXLINE - 1]
    boundary = b"----WebKitFormBoundary7MA4YWxkTrZu0gW"
    for size in sizes:
        for shape in ("a", "crlf-lines", "cr-at-end", "dashes", "binary"):
            if shape == "a":
                content = b"a" * size
            elif shape == "crlf-lines":
                content = (b"line\r\n" * (size // 6 + 1))[:size]
            elif shape == "cr-at-end":
                content = b"a" * (size - 1) + b"\r"
            elif shape == "dashes":
                content = (b"\r\n--" + boundary[:-1]) * (size // 40 + 1)
                content = content[:size]
            else:
                content = bytes(rng.randrange(256) for _ in range(size))
                content = content.replace(b"\n--", b"\n-+")
            if dirty(content, boundary):
                continue
            for filename in ("up.bin", None):
                if filename is None and shape == "binary":
                    continue
                parts = [("pre", None, None, b"1"),
                         ("big", filename, "application/octet-stream",
                          content), ("post", None, None, b"2")]
                body_len = len(encode(boundary, parts))
                head = encode(boundary, parts).index(content)
                # block sizes that put the CRLF before / after the content
                # and the cut points on a block edge
                blocks = [0, head + size + 1, 1 << 15, head - 1, 65365,
                          head, head + size, head + size + 2, 4096, 8192,
                          body_len + 1, 1]
                if ctx.quick:
                    blocks = blocks[:5]
                monitor_case(ctx, boundary, parts, True, True,
                             filename is not None, 0,
                             "large-%s" % shape, blocks=blocks)
    # a dash-boundary right behind a 65536-byte cut is not at a line start
    for lead in ((MAXLINE,) if ctx.quick else (MAXLINE, 2 * MAXLINE)):
        for tail in (b"", b"--", b" \t"):
            content = b"a" * lead + b"--" + boundary + tail
            for filename in ("up.bin", None):
                parts = [("pre", None, None, b"1"),
                         ("big", filename, None, content),
                         ("post", None, None, b"2")]
                monitor_case(ctx, boundary, parts, True, True, False, 0,
                             "dash-boundary-at-cut", blocks=[0, 1 << 15, 4093])
    # a file factory whose product is an io.BytesIO
    for size in (BUFSIZE, BUFSIZE + 1, 3 * BUFSIZE):
        content = (b"line\r\n" * (size // 6 + 1))[:size]
        body = encode(b"BnD", [("f", "x.bin", None, content)])
        calls = []

        def bio_factory(filename, calls=calls):
            calls.append(filename)
            return io.BytesIO()
        from poorwsgi.fieldstorage import FieldStorageParser
        form = FieldStorageParser(io.BytesIO(body), headers_of(
            content_type(b"BnD"), len(body)), file_callback=bio_factory
            ).parse()
        ctx.case(("bio-factory", size), True, None)
        ctx.count("monitor:bytesio-factory")
        if form.list[0].value != content:
            ctx.violation("file-content-differs-bytesio-factory",
                          {"size": size})
        elif calls != ["x.bin"] and not (
                size > BUFSIZE and len(calls) > 1 and
                set(calls) == {"x.bin"}):
            # anything but the known class: in-memory product, part larger
            # than BUFSIZE, the factory called again with the same name
            ctx.violation("file-factory-calls", {
                "content_size": size, "factory_calls": calls[:10],
                "product": "io.BytesIO"})
        elif calls != ["x.bin"]:
            ctx.violation("factory-recalled-when-product-is-bytesio", {
                "content_size": size, "factory_calls": len(calls),
                "note": "_write treats the factory's BytesIO like its own "
                "in-memory buffer: past 8192 bytes every written line calls "
                "make_file() again and copies the data"})
    # text fields whose 65536-byte cut falls inside / beside a character
    for lead in (MAXLINE - 2, MAXLINE - 1, MAXLINE):
        content = b"a" * lead + "\u00e9".encode() + b"tail"
        monitor_case(ctx, boundary, [("t", None, None, content)], True, True,
                     False, 0, "text-64k", blocks=[0, 1 << 15])


# ------------------------------------------------------------ end to end
def e2e(ctx):
    """POST through a real Application around app.data_size"""
    from poorwsgi import state
    rng = ctx.rng
    configs = [(420, 16), (500, 1), (640, 37), (450, 4096)]
    if not ctx.quick:
        configs += [(400, 3), (1000, 100), (700, 2)]
    configs.append((65365, 65365))       # production defaults
    for data_size, cached_size in configs:
        for cb in (False, True):
            calls = []
            seen = {}

            def factory(filename, calls=calls):
                calls.append(filename)
                return Sink(filename)

            app = new_app(data_size=data_size, cached_size=cached_size,
                          file_callback=factory if cb else None,
                          keep_blank_values=rng.randrange(2))

            def handler(req, seen=seen):
                seen["form"] = [[f.name, f.filename, f.type, f.value]
                                for f in req.form.list]
                seen["input"] = type(req.input).__name__
                return "ok"
            app.route("/up", method=state.METHOD_POST)(handler)
            boundary = gen_boundary(rng, 30)
            for delta in (-2, -1, 0, 1, 2, 40):
                base = [("a", None, None, b"one"),
                        ("f", "x.bin", "application/octet-stream", b""),
                        ("z", None, None, "\u00e9".encode())]
                overhead = len(encode(boundary, base))
                size = data_size + delta - overhead
                if size < 0:
                    continue
                content = gen_content(rng, boundary, size)
                if dirty(content, boundary):
                    content = b"\r\n-" * (size // 3) + b"-" * (size % 3)
                    if dirty(content, boundary):    # boundaries of dashes
                        content = b"\r\n=" * (size // 3) + b"=" * (size % 3)
                parts = [base[0], ("f", "x.bin", "application/octet-stream",
                                   content), base[2]]
                body = encode(boundary, parts)
                assert len(body) == data_size + delta
                del calls[:]
                seen.clear()
                env = environ("POST", "/up", body=body,
                              content_type=content_type(boundary),
                              extra={"wsgi.input": RawStream(body)})
                ans = call(app, env)
                detail = {"data_size": data_size, "cached_size": cached_size,
                          "body_len": len(body), "file_callback": cb,
                          "boundary": boundary.decode(),
                          "content": repr(content[:200])}
                ctx.case(("e2e", data_size, cached_size, delta, cb), True,
                         {"tag": "e2e", "body_len": len(body),
                          "reader": seen.get("input")})
                ctx.count("e2e:%s" % seen.get("input"))
                if ans.code != 200 or "form" not in seen:
                    ctx.violation("e2e-request-failed",
                                  dict(detail, answer=ans.summary()))
                    continue
                want_reader = "BytesIO" if delta <= 0 else "CachedInput"
                if seen["input"] != want_reader:
                    ctx.violation("e2e-reader-choice", dict(
                        detail, reader=seen["input"], want=want_reader))
                if seen["form"] != expected(parts):
                    ctx.violation("e2e-form-differs", dict(
                        detail, got=repr(seen["form"])[:600]))
                want_calls = ["x.bin"] if cb else []
                if calls != want_calls:
                    ctx.violation("e2e-file-factory-calls",
                                  dict(detail, calls=list(calls)))


def run(ctx):
    ctx.check_obligations()
    cases = []
    corr_small(ctx, cases)
    corr_large(ctx, cases)
    corr_units(ctx, cases)
    ctx.rng.shuffle(cases)      # spread the heavy cases over the shards
    ctx.correspondence("multipart", IMPORTS, cases, lambda p: p)
    for term, exp, payload in cases:
        ctx.case((term[:4000], repr(exp)[:200]),
                 payload["kind"] not in ("valid_boundary",), None)
    monitor(ctx)
    e2e(ctx)
    return ctx.finish(
        "correspondence: random RFC 7578 bodies (1-3 parts quick, 1-6 "
        "thorough; names/filenames from a pool with spaces, quotes, "
        "semicolons, backslashes (also at the end of a name in front of the "
        "filename parameter, backslash-quote mixtures), non-ASCII; contents "
        "from the adversarial "
        "alphabet {CR, LF, CRLF, -, --, dash-boundary prefixes, boundary "
        "without dashes, near copies --bX/--b-/--b--x at line starts, NUL, "
        "0xFF, space}, sizes 0..64; RFC 2046 boundaries of length 1..70), "
        "35% made hostile (truncated, bare-LF structure, injected "
        "delimiters, wrong Content-Length, padding, preamble/epilogue, "
        "header variants); every body is delivered through BytesIO and "
        "CachedInput with every block size 1..len+2 and every distinct "
        "implementation answer is one model case; plus bodies around "
        "8192/65536 incl. a dash-boundary right behind the 65536 cut (model "
        "side via List.repeat), read_lines_to_outerboundary, the two "
        "readers, valid_boundary, parse_header and the encoder alone.  "
        "monitor: decode(encode(parts)) == parts for every content no line "
        "of which is a delimiter line, same for all deliveries, factory "
        "calls, input consumed; sizes around 8192 and k*65536 with block "
        "sizes on the structural CRLFs; end-to-end POST with body = "
        "data_size-2..+40 (small settings and the production defaults).  A "
        "case is distinct by its (body, headers, reader) / (parts, "
        "boundary, configuration).",
        assumptions=[
            "email.feedparser.FeedParser, tempfile, io.BytesIO/StringIO and "
            "the codecs are trusted; the model parses part headers the way "
            "FeedParser does for Name: value / continuation / blank lines",
            "CachedInput.readline is modelled from outside (crlf_line): its "
            "result does not depend on the block size (C09); the "
            "correspondence runs the real CachedInput with every block size",
            "utf8_decode is exact on well-formed UTF-8 and on bytes that "
            "cannot start a sequence; the correspondence keeps to those",
            "round trip theorem: the header codec giving back name, filename "
            "and media type is a hypothesis per part (headers_decode); "
            "parts whose own type is application/x-www-form-urlencoded or "
            "multipart/* and file parts with an empty filename are outside "
            "the round-trip statement (the parser treats them differently "
            "by design)"])
