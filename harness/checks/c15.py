"""C15 built-in pages never emit request data as markup.

1. translator tie: harness/py2pages.py regenerates coq/gen/PagesGen.v from
   the current poorwsgi/results.py, then the obligations of coq/props/C15.v
   (nine `page_<name>_guarded` + the generic theorems) are re-checked;
2. table tie + correspondence: html_escape, the rendered model pages and the
   model tokenizer against the implementation / html.parser on real pages;
3. monitor (independent of the model): html.parser.HTMLParser over the real
   pages for marker payloads in every request component, exception messages
   and file names; no element, attribute name or attribute value may come
   from a marker, and the tag/attribute skeleton must equal the one of the
   same request with a harmless marker.
"""
import mimetypes
import os
import shutil
from html.parser import HTMLParser
from time import gmtime, strftime

import implrun  # noqa: F401  (sets sys.path)
import core
import py2pages
from core import slit
from implrun import new_app, environ, call
from py2pages import Val

IMPORTS = "Require Import PW.model.Pages."
IMPORTS_GEN = "Require Import PW.model.Pages PW.gen.PagesGen."
MODEL_TABLE = {"&": "&amp;", '"': "&quot;", "'": "&apos;", ">": "&gt;",
               "<": "&lt;"}
MARK = "MARK"
KINDS = {
    "elem": "<i id=MARK>",
    "dq": '" onx="MARK',
    "sq": "' ony='MARK",
    "combined": "<i id=MARK>\" onx=\"MARK' ony='MARK",
}
EXTRA_KINDS = {
    "dq-close-elem": '"><i id=MARK>',
    "sq-close-elem": "'><i id=MARK>",
    "end-title": "</title><i id=MARK>",
    "end-style": "</style><i id=MARK>",
    "end-pre-span": "</span></pre><i id=MARK>",
    "upper": '<I ID=MARK>" ONX="MARK',
    "comment": "--><i id=MARK><!--",
    "pre-escaped": "&lt;i id=MARK&gt;<i id=MARK>",
    "amp-entity": "&quot; onx=&quot;MARK\" onx=\"MARK",
}
# token characters only (RFC 9110 tchar), as the property requires
METHOD_PAYLOAD = "MARK!#$%&'*+-.^_`|~0aZ"
HEADERS = ["Host", "Cookie", "Referer", "User-Agent", "X-Forwarded-For",
           "X-Forwarded-Host", "X-Forwarded-Proto", "X-Forwarded-Port",
           "Accept", "Accept-Language", "Authorization", "Origin",
           "If-None-Match", "X-Custom-Header"]
PAGE_CODES = {"400": 400, "401": 401, "403": 403, "404": 404, "405": 405,
              "501": 501, "501-code": 418}


# ------------------------------------------------------------ html.parser side
class Skeleton(HTMLParser):
    """independent observation of a page: tags, attribute names and values"""
    def __init__(self):
        super().__init__(convert_charrefs=True)
        self.skel, self.hits = [], []

    def handle_starttag(self, tag, attrs):
        self.skel.append("<" + tag + "".join(
            " " + k + ("=" if v is not None else "") for k, v in attrs) + ">")
        for k, v in attrs:
            if MARK.lower() in k.lower() or MARK.lower() in tag.lower():
                self.hits.append(("name-from-marker", tag, k, v))
            elif k in ("onx", "ony"):
                self.hits.append(("attribute-break-out", tag, k, v))
            elif k == "id" and v is not None and MARK in v.upper():
                self.hits.append(("element-injection", tag, k, v))
        if MARK.lower() in tag.lower():
            self.hits.append(("name-from-marker", tag, None, None))

    def handle_startendtag(self, tag, attrs):
        self.handle_starttag(tag, attrs)

    def handle_endtag(self, tag):
        self.skel.append("</" + tag + ">")


def observe(text):
    p = Skeleton()
    p.feed(text)
    p.close()
    return "".join(p.skel), p.hits


def rows_collapsed(skel):
    """the number of traceback rows depends on where the exception came
    from (a hostile Cookie fails earlier than the handler): compare the
    skeletons up to repetition of the traceback row"""
    row = "<span class=></span>"
    while row + row in skel:
        skel = skel.replace(row + row, row)
    return skel


# ------------------------------------------------------------------ scenarios
def handler_for(kind, message):
    """default handler producing the built-in page `kind`"""
    from poorwsgi.response import HTTPException

    def c15_handler(req):
        if kind in ("500",):
            raise RuntimeError(message)
        raise HTTPException(PAGE_CODES[kind])
    return c15_handler


def make_app(kind, debug, message="boom", docroot=None):
    from poorwsgi import state
    cfg = {"debug": debug}
    if kind == "dir":
        cfg.update(document_root=docroot, document_index=True)
    app = new_app(**cfg)
    if kind in PAGE_CODES and kind != "404" or kind == "500":
        app.set_default(handler_for(kind, message), state.METHOD_ALL)
    return app


def body_text(ans):
    if ans.body is None:
        return None
    return ans.body.decode("utf-8", "replace")


class Tree:
    """scratch document root with hostile file and directory names"""
    def __init__(self, names):
        self.top = "/root/scratch/c15_%d" % os.getpid()
        shutil.rmtree(self.top, ignore_errors=True)
        self.root = os.path.join(self.top, "root")
        os.makedirs(self.root)
        self.names = names
        for n in names:
            with open(os.path.join(self.root, "f" + n + ".txt"), "w") as f:
                f.write("x" * 1500)
            os.makedirs(os.path.join(self.root, "d" + n))
            with open(os.path.join(self.root, "d" + n, "in" + n), "w") as f:
                f.write("y")
        open(os.path.join(self.root, "plain.html"), "w").close()
        os.makedirs(os.path.join(self.root, "sub"))

    def remove(self):
        shutil.rmtree(self.top, ignore_errors=True)


# ------------------------------------------------------------- correspondence
def corr(ctx, name, imports, cases, describe, shard=20):
    """ctx.correspondence with small shards (a case is a whole page as a
    list literal: parsing dominates, so spread it over the 16 workers)"""
    orig = core.coq_eval

    def small(tag, imp, cs, shard=shard, timeout=900):
        return orig(tag, imp, cs, shard=shard, timeout=timeout)
    core.coq_eval = small
    try:
        return ctx.correspondence(name, imports, cases, describe)
    finally:
        core.coq_eval = orig


def admin_of(host):
    return "webmaster@" + (host if host is not None
                           else "example.org").split(":")[0]


def dir_valuation(results, root, uri, debug, host):
    """valuation of page_directory_index for the listing of root+uri; mirrors
    the row selection of directory_index (not its markup)"""
    path = root + os.path.normpath("/" + uri.lstrip("/"))
    if uri.endswith("/") and not path.endswith("/"):
        pass
    index = os.listdir(path)
    if root != path[:-1]:
        index.append("..")
    index.sort()
    rows = []
    for item in index:
        if item[0] == "." and item != "..":
            continue
        if item[-1] == "~":
            continue
        fpath = "%s/%s" % (path, item)
        if not os.access(fpath, os.R_OK):
            continue
        isd, isf = os.path.isdir(fpath), os.path.isfile(fpath)
        holes = {"item + ('/' if isdir(fpath) else '')":
                 item + ("/" if isd else ""),
                 "strftime('%d-%b-%Y %H:%M', gmtime(getctime(fpath)))":
                 strftime("%d-%b-%Y %H:%M", gmtime(os.path.getctime(fpath)))}
        conds = {"isfile(fpath)": isf, "isdir(fpath)": isd}
        if isf:
            ftype = mimetypes.guess_type(fpath)[0]
            conds["not ftype"] = not ftype
            holes["ftype<-mimetypes.guess_type(fpath)"] = ftype
            num, unit = results.hbytes(os.path.getsize(fpath))
            holes["hbytes(getsize(fpath))#0:%.1f"] = "%.1f" % num
            holes["hbytes(getsize(fpath))#1:%s"] = unit
        rows.append(Val(holes, conds))
    return Val({"req.uri.rstrip('/')": uri.rstrip("/"),
                "req.server_admin": admin_of(host),
                "req.server_software": "verif"},
               {"req.debug": debug}, {"index": rows})


def eval_valuation(nodes, ns):
    """valuation of IR nodes with every hole, test and iterable evaluated
    from its own source text in the real environment ns (the request and
    application objects the page generator ran with)"""
    val = Val({}, {}, {})
    for n in nodes:
        if isinstance(n, py2pages.Hole):
            val.h[n.src] = str(eval(n.src, ns))            # noqa: S307
        elif isinstance(n, py2pages.Cond):
            taken = bool(eval(n.test, ns))                 # noqa: S307
            val.c[n.test] = taken
            sub = eval_valuation(n.a if taken else n.b, ns)
            val.h.update(sub.h)
            val.c.update(sub.c)
            val.l.update(sub.l)
        elif isinstance(n, py2pages.Loop):
            rows = []
            for item in eval(n.it, ns):                    # noqa: S307
                ns2 = dict(ns)
                ns2["__row__"] = item
                exec("%s = __row__" % n.target, ns2)       # noqa: S102
                rows.append(eval_valuation(n.body, ns2))
            val.l[n.it] = rows
    return val


def debug_info_namespace(results, req, app):
    """globals of results.py + the locals debug_info computes before it
    builds markup (state table, padded hook lists, environ copy)"""
    ns = dict(vars(results))
    tmp = {}
    tmp.update((key, val.copy()) for key, val in results.default_states.items())
    for key, val in app.states.items():
        if key in tmp:
            tmp[key].update(val)
        else:
            tmp[key] = val
    pre, post = app.before, app.after
    if len(pre) >= len(post):
        post += (len(pre) - len(post)) * (None, )
    else:
        pre += (len(post) - len(pre)) * (None, )
    env = req.environ.copy()
    if hasattr(os, "getgid"):
        env["os.pgid"], env["os.puid"] = os.getgid(), os.getuid()
        env["os.egid"], env["os.euid"] = os.getegid(), os.geteuid()
    ns.update(req=req, app=app, _tmp_shandlers=tmp, pre=pre, post=post,
              environ=env)
    return ns


def debug_info_cases(ctx, tr, texts):
    """real /debug-info pages (routes, filters, hooks, hostile headers) vs
    page_debug_info rendered with values read from the same request"""
    from poorwsgi import results, wsgi, state
    cases, seen = [], []
    real = wsgi.debug_info

    def spy(req, app):
        seen.append((req, app))
        return real(req, app)

    def hook(req, *args):
        return args[0] if args else None
    wsgi.debug_info = spy
    try:
        for n, text in enumerate(texts):
            app = new_app(debug=True)
            if n % 2:
                app.set_route("/static/" + str(n), lambda req: "x")
                app.set_route("/user/<name:word>/<age:int>",
                              lambda req, name, age: "x", state.METHOD_POST)
                app.set_route("/re/<x:re:[a-z\"']+>", hook)
                app.set_default(hook, state.METHOD_GET_POST)
                app.add_before_response(hook)
                app.add_after_response(hook)
                app.add_after_response(lambda req, res: res)
            headers = {h: text for h in HEADERS}
            ans = call(app, environ(path="/debug-info", query="q=" + text,
                                    headers=headers,
                                    extra={"app_Option": text}))
            if not seen or ans.code != 200:
                ctx.notes.append("debug-info scenario answered %s" %
                                 ans.status)
                continue
            req, app_ = seen.pop()
            seen.clear()
            val = eval_valuation(tr.pages["debug_info"],
                                 debug_info_namespace(results, req, app_))
            cases.append(("debug_info", val, body_text(ans),
                          ("debug_info", n % 2, text)))
    finally:
        wsgi.debug_info = real
    return cases


def correspondence(ctx, tr, gen_ok, tree, real_pages):
    from poorwsgi import results
    rng = ctx.rng
    # -- html_escape
    cases = []
    alphabet = "&\"'<>ab;#x \néЖ\U0001f600/=-"
    samples = ["", "&", "&amp;", "<>\"'&", "a" * 50] + list(KINDS.values()) \
        + list(EXTRA_KINDS.values())
    for _ in range(120 if ctx.quick else 1500):
        samples.append("".join(rng.choice(alphabet)
                               for _ in range(rng.randint(0, 30))))
    for s in samples:
        cases.append(("run_escape %s" % slit(s), results.html_escape(s),
                      ("html_escape", s)))
    ctx.correspondence("escape", IMPORTS, cases, lambda p: list(p))

    # -- pages: model page rendered with the request's values vs real page
    cases = []
    hosts = [None, "h.example:8080"] + list(KINDS.values())[:3]
    texts = ["plain", KINDS["combined"]] + list(KINDS.values())[:3]
    if not ctx.quick:
        hosts += list(EXTRA_KINDS.values())
        texts += list(EXTRA_KINDS.values())
    methods = ["GET", "POST", METHOD_PAYLOAD]

    def request(kind, debug, uri, host, method, message="boom"):
        app = make_app(kind, debug, message,
                       docroot=tree.root if kind == "dir" else None)
        headers = {} if host is None else {"Host": host}
        return app, call(app, environ(method=method, path=uri,
                                      headers=headers))

    simple = {"400": "bad_request", "401": "unauthorized", "403": "forbidden",
              "404": "not_found", "405": "method_not_allowed"}
    for kind, fn in simple.items():
        for text in texts:
            for host in hosts:
                method = rng.choice(methods)
                uri = "/" + text
                _, ans = request(kind, rng.random() < 0.5, uri, host, method)
                val = Val({"req.method": method, "req.uri": uri,
                           "req.server_admin": admin_of(host)})
                cases.append((fn, val, body_text(ans),
                              (fn, uri, host, method)))
    for kind, code in (("501", None), ("501-code", 418)):
        for text in texts:
            for host in hosts[:3]:
                uri = "/" + text
                _, ans = request(kind, False, uri, host, "GET")
                val = Val({"req.uri": uri, "code": code,
                           "req.server_admin": admin_of(host)},
                          {"code": bool(code)})
                cases.append(("not_implemented", val, body_text(ans),
                              ("not_implemented", code, uri, host)))
    # 500 with and without the traceback
    real_fe = results.format_exception
    for debug in (False, True):
        for text in texts:
            for host in hosts[:3]:
                uri, method = "/" + text, rng.choice(methods)
                seen = []

                def spy(*a, **k):
                    out = real_fe(*a, **k)
                    seen.append(out)
                    return out
                results.format_exception = spy
                try:
                    app, ans = request("500", debug, uri, host, method,
                                       message="E " + text)
                finally:
                    results.format_exception = real_fe
                holes = {"req.server_admin": admin_of(host),
                         "req.server_software": "verif",
                         "req.remote_host": "", "req.remote_addr": "127.0.0.1",
                         "req.method": method, "req.uri": uri,
                         "req.uri_rule or ''": "/*"}
                loops = {}
                if debug:
                    hdl = next(iter(app.defaults.values()))
                    holes.update({
                        "req.uri_handler.__module__": hdl.__module__,
                        "req.uri_handler.__name__": hdl.__name__,
                        "', '.join(req.uri_handler.__code__.co_varnames)":
                        ", ".join(hdl.__code__.co_varnames)})
                    lines = "".join(seen[-1]).split("\n") if seen else []
                    loops["enumerate(traceback)"] = [
                        Val({"i % 2": str(i % 2), "line": line})
                        for i, line in enumerate(lines)]
                scope = None
                if debug:
                    import types
                    scope = {"req": types.SimpleNamespace(uri_handler=hdl),
                             "code": getattr(hdl, "__code__", None)}
                val = Val(holes, {"req.debug": debug, "req.uri_handler": True},
                          loops, scope=scope)
                cases.append(("internal_server_error", val, body_text(ans),
                              ("internal_server_error", debug, uri, host,
                               method)))
    # directory listing (hostile names live in the scratch tree)
    for debug in (False, True):
        for uri in ["/", "/sub/"] + ["/d%s/" % n for n in tree.names]:
            for host in hosts[:3]:
                _, ans = request("dir", debug, uri, host, "GET")
                val = dir_valuation(results, tree.root, uri, debug, host)
                cases.append(("directory_index", val, body_text(ans),
                              ("directory_index", debug, uri, host)))
    if tr is not None:
        cases += debug_info_cases(ctx, tr, texts)
    for fn, val, text, payload in cases:
        real_pages.append((payload, text))
    if gen_ok:
        terms = []
        for fn, val, text, payload in cases:
            if text is None:
                ctx.unproved("correspondence pages: no body", list(payload))
                continue
            terms.append(("run_render page_%s %s" % (
                fn, py2pages.env_term(tr.pages[fn], val)), text, payload))
            ctx.count("corr:" + fn)
        corr(ctx, "pages", IMPORTS_GEN, terms, lambda p: list(p))
    else:
        ctx.notes.append("page correspondence skipped: gen/PagesGen.v did "
                         "not compile")


def skeleton_tie(ctx, real_pages):
    """model tokenizer vs html.parser on real pages (benign and hostile)"""
    cases, seen = [], set()
    for payload, text in real_pages:
        if text is None or text in seen:
            continue
        seen.add(text)
        cases.append(("run_skeleton %s" % slit(text), observe(text)[0],
                      ("skeleton",) + tuple(payload)))
    limit = 120 if ctx.quick else 600
    if len(cases) > limit:
        keep = ctx.rng.sample(range(len(cases)), limit)
        cases = [cases[i] for i in sorted(keep)]
    corr(ctx, "tokenizer", IMPORTS, cases, lambda p: [str(x) for x in p])


# --------------------------------------------------------------------- monitor
def locations(kind):
    out = ["QUERY_STRING", "method"] + ["header:" + h for h in HEADERS]
    if kind != "debug-info":
        out.insert(0, "PATH_INFO")
    if kind == "500":
        out.append("exception")
    out.append("all")
    return out


def build_request(kind, loc, text):
    """environ kwargs + exception message for payload `text` at `loc`"""
    kw = {"method": "GET", "path": "/debug-info" if kind == "debug-info"
          else "/some/where", "query": "", "headers": {}}
    message = "boom"
    if loc == "PATH_INFO":
        kw["path"] = "/" + text
    elif loc == "QUERY_STRING":
        kw["query"] = "q=" + text
    elif loc == "method":
        kw["method"] = text
    elif loc == "exception":
        message = "failed: " + text
    elif loc == "all":
        if kind != "debug-info":
            kw["path"] = "/" + text
        kw["query"] = "q=" + text
        kw["headers"] = {h: text for h in HEADERS}
        message = "failed: " + text
    else:
        kw["headers"] = {loc.split(":", 1)[1]: text}
    if kind == "400-natural" and loc != "method":
        kw.update(method="POST", content_type="application/json", body=b"{")
    return kw, message


def excerpt(text, width=200):
    for needle in ("<i id=MARK", "<I ID=MARK", 'onx="MARK', "ony='MARK",
                   'ONX="MARK', MARK):
        pos = text.find(needle)
        if pos >= 0:
            return text[max(0, pos - width // 2):pos + width // 2]
    return text[:width]


def judge(ctx, page, debug, loc, kind_name, payload, ans, base, replay):
    text = body_text(ans)
    sig = (page, debug, loc, kind_name)
    if text is None or ans.raised or ans.iter_raised:
        ctx.violation("no-page", dict(replay, summary=ans.summary()))
        ctx.case(sig, False)
        return None
    skel, hits = observe(text)
    reflected = MARK in text
    ctx.case(sig, reflected, {"page": page, "debug": debug, "where": loc,
                              "payload": payload, "status": ans.status,
                              "reflected": reflected})
    ctx.count("%s:%s" % (page, "reflected" if reflected else "absent"))
    if hits:
        ctx.violation("%s-on-%s" % (hits[0][0], page), dict(
            replay, status=ans.status, parsed=[list(h) for h in hits[:4]],
            excerpt=excerpt(text)))
    elif base is not None and base[0] == ans.status and \
            rows_collapsed(base[1]) != rows_collapsed(skel):
        ctx.violation("structure-differs-on-%s" % page, dict(
            replay, status=ans.status, benign_skeleton=base[1][-300:],
            skeleton=skel[-300:], excerpt=excerpt(text)))
    return text


def monitor(ctx, tree, real_pages):
    kinds = dict(KINDS)
    kinds.update(EXTRA_KINDS)
    pages = list(PAGE_CODES) + ["500", "debug-info", "400-natural"]
    for page in pages:
        for debug in (False, True):
            for loc in locations(page):
                if loc == "method":
                    todo = {"token": METHOD_PAYLOAD}
                else:
                    todo = kinds
                # the same request with a harmless marker: reference skeleton
                kw, msg = build_request(page, loc, MARK)
                app = make_app(page, debug, msg)
                ans0 = call(app, environ(**kw))
                t0 = body_text(ans0)
                base = (ans0.status, observe(t0)[0]) if t0 is not None \
                    else None
                for name, payload in todo.items():
                    kw, msg = build_request(page, loc, payload)
                    app = make_app(page, debug, msg)
                    ans = call(app, environ(**kw))
                    replay = {"page": page, "debug": debug, "where": loc,
                              "payload": payload, "environ": {
                                  k: repr(v) if isinstance(v, bytes) else v
                                  for k, v in kw.items() if v},
                              "handler": "default handler raising %s" % (
                                  "RuntimeError(%r)" % msg if page == "500"
                                  else "HTTPException(%s)" % PAGE_CODES.get(
                                      page)) if page not in (
                                          "404", "debug-info", "400-natural")
                              else None}
                    text = judge(ctx, page, debug, loc, name, payload, ans,
                                 base, replay)
                    if text is not None and name in ("combined", "token") \
                            and ctx.rng.random() < 0.25:
                        real_pages.append(((page, debug, loc, name), text))
    # natural 405: a static route for POST only, requested with GET
    from poorwsgi import state
    for debug in (False, True):
        for name, payload in kinds.items():
            if "<" in payload or ">" in payload:
                continue        # '<' starts a route variable
            app = new_app(debug=debug)
            app.set_route("/" + payload, lambda req: "x", state.METHOD_POST)
            ans = call(app, environ(path="/" + payload, headers={
                "Host": payload}))
            if ans.code != 405:
                ctx.notes.append("natural 405 scenario answered %s" %
                                 ans.status)
            judge(ctx, "405-natural", debug, "PATH_INFO+Host", name, payload,
                  ans, None, {"page": "405 (static route, POST only)",
                              "debug": debug, "path": "/" + payload,
                              "Host": payload})
    # directory listings: hostile file and directory names and hostile uri
    for debug in (False, True):
        app = make_app("dir", debug, docroot=tree.root)
        base_root = None
        for uri in ["/", "/sub/"] + ["/d%s/" % n for n in tree.names]:
            for host in [None] + list(KINDS.values()):
                headers = {} if host is None else {"Host": host}
                ans = call(app, environ(path=uri, headers=headers))
                replay = {"page": "directory listing", "debug": debug,
                          "path": uri, "Host": host,
                          "files": sorted(os.listdir(tree.root))}
                if ans.code != 200:
                    ctx.notes.append("directory listing %r answered %s" % (
                        uri, ans.status))
                if uri == "/" and host is None:
                    base_root = (ans.status, observe(body_text(ans))[0])
                text = judge(ctx, "dir", debug, "names+uri:" + uri,
                             "host=%r" % (host,), uri, ans,
                             base_root if uri == "/" else None, replay)
                if text is not None and host is None:
                    real_pages.append((("dir", debug, uri), text))
    # natural 403: a directory without document_index
    for debug in (False, True):
        app = new_app(debug=debug, document_root=tree.root)
        for uri in ["/d%s/" % n for n in tree.names]:
            for host in [None] + list(KINDS.values()):
                headers = {} if host is None else {"Host": host}
                ans = call(app, environ(path=uri, headers=headers))
                if ans.code != 403:
                    ctx.notes.append("natural 403 scenario %r answered %s" % (
                        uri, ans.status))
                judge(ctx, "403-natural", debug, "uri:" + uri,
                      "host=%r" % (host,), uri, ans, None,
                      {"page": "403 (directory, document_index off)",
                       "debug": debug, "path": uri, "Host": host,
                       "document_root": "directory containing %r" % uri[1:-1]})
    # a listing of the same shape with harmless names: reference skeleton
    benign = Tree(["MARK%d" % i for i in range(len(tree.names))])
    try:
        for debug in (False, True):
            a1 = call(make_app("dir", debug, docroot=tree.root),
                      environ(path="/"))
            a2 = call(make_app("dir", debug, docroot=benign.root),
                      environ(path="/"))
            s1, s2 = observe(body_text(a1))[0], observe(body_text(a2))[0]
            ctx.case(("dir-shape", debug), True)
            if s1 != s2:
                ctx.violation("structure-differs-on-dir", {
                    "page": "directory listing", "debug": debug,
                    "files": sorted(os.listdir(tree.root)),
                    "skeleton": s1[-400:], "benign_skeleton": s2[-400:]})
    finally:
        benign.remove()


def random_sweep(ctx, count):
    """random pages, several locations at once, payloads assembled from the
    marker pieces and markup characters"""
    rng = ctx.rng
    pieces = list(KINDS.values()) + list(EXTRA_KINDS.values()) + [
        "<", ">", '"', "'", "&", "&#60;i id=MARK&#62;", "<i\tid=MARK>",
        "<i/id=MARK>", "\\\"", "%3Ci id=MARK%3E", " ", "=", "/", "\u00e9",
        "<svg onx=MARK>", "<a href='x' ony=MARK>"]
    pages = list(PAGE_CODES) + ["500", "debug-info", "400-natural"]
    for n in range(count):
        page, debug = rng.choice(pages), rng.random() < 0.6
        locs = rng.sample([x for x in locations(page)
                           if x not in ("all", "method")], rng.randint(1, 3))
        kw0, kw1, m0, m1 = None, None, "boom", "boom"
        used = {}
        for loc in locs:
            payload = "".join(rng.choice(pieces)
                              for _ in range(rng.randint(1, 4)))
            if loc.startswith("header:"):
                payload = payload.replace("\t", " ")
            used[loc] = payload
            a, ma = build_request(page, loc, MARK)
            b, mb = build_request(page, loc, payload)
            if kw0 is None:
                kw0, kw1 = a, b
            else:
                for kw, src in ((kw0, a), (kw1, b)):
                    if loc == "PATH_INFO":
                        kw["path"] = src["path"]
                    elif loc == "QUERY_STRING":
                        kw["query"] = src["query"]
                    else:
                        kw["headers"].update(src["headers"])
            if loc == "exception":
                m0, m1 = ma, mb
        ans0 = call(make_app(page, debug, m0), environ(**kw0))
        t0 = body_text(ans0)
        base = (ans0.status, observe(t0)[0]) if t0 is not None else None
        ans = call(make_app(page, debug, m1), environ(**kw1))
        judge(ctx, page, debug, "random:" + "+".join(sorted(used)),
              "random#%d" % n, used, ans, base,
              {"page": page, "debug": debug, "payloads": used,
               "environ": {k: repr(v) if isinstance(v, bytes) else v
                           for k, v in kw1.items() if v},
               "exception_message": m1 if page == "500" else None})


def header_name_probe(ctx):
    """outside the property's quantifier (header VALUES): a hostile header
    NAME as some servers pass it on; recorded as a note, not a violation"""
    app = new_app(debug=True)
    ans = call(app, environ(path="/debug-info",
                            extra={"HTTP_<I ID=MARK>": "v"}))
    text = body_text(ans) or ""
    hits = observe(text)[1]
    ctx.extra["header_name_probe"] = {
        "environ_key": "HTTP_<I ID=MARK>", "status": ans.status,
        "parsed_as_markup": bool(hits),
        "note": "header field names / environ keys are classified "
                "TokenChars (field-name = token); debug_info prints them "
                "unescaped"}


# ------------------------------------------------------------------------- run
def run(ctx):
    from poorwsgi import results
    tr, gen_ok = None, False
    with core.Lock():
        try:
            tr = py2pages.regenerate(core.REPO)
        except py2pages.TranslateError as err:
            ctx.unproved("translator py2pages (results.py -> gen/PagesGen.v)",
                         {"error": str(err)[:1500]})
    ok = ctx.check_obligations()
    vo = py2pages.GEN[:-2] + ".vo"
    gen_ok = tr is not None and os.path.exists(vo)
    if tr is not None:
        ctx.extra["translated_from"] = {"file": tr.path, "sha256": tr.sha}
        ctx.extra["holes"] = {
            name: ["l.%d %s %s %s %s" % (h.line, h.cls,
                                         "esc" if h.esc else "raw", h.ctx,
                                         h.src) for h in tr.holes(name)]
            for name in py2pages.PAGES}
        if not gen_ok:
            rc, out = core.sh(["coqc", "-Q", ".", "PW", "gen/PagesGen.v"],
                              300, cwd=core.COQ)
            failed = [n for n in py2pages.PAGES if tr.problems[n]]
            for name in failed:
                ctx.unproved("page_%s_guarded" % name,
                             {"sites": tr.problems[name],
                              "coqc": out[-600:]})
            if not failed:
                ctx.unproved("gen/PagesGen.v does not compile",
                             {"coqc": out[-1500:]})
        elif any(tr.problems.values()):
            ctx.notes.append("translator mirror reports %r but Coq accepted"
                             % tr.problems)
    # -- table tie at run time
    live = dict(results.HTML_ESCAPE_TABLE)
    if live != MODEL_TABLE or (tr is not None and dict(tr.table) != live):
        ctx.unproved("table tie HTML_ESCAPE_TABLE", {
            "source": live, "model": MODEL_TABLE,
            "translated": tr.table if tr else None})
    names = [v for k, v in KINDS.items() if "/" not in v]
    tree = Tree(names)
    real_pages = []
    try:
        correspondence(ctx, tr, gen_ok and ok, tree, real_pages)
        monitor(ctx, tree, real_pages)
        random_sweep(ctx, 400 if ctx.quick else 6000)
        header_name_probe(ctx)
        skeleton_tie(ctx, real_pages)
    finally:
        tree.remove()
    return ctx.finish(
        "every built-in page (400 401 403 404 405 500 501 501-with-code "
        "debug-info, directory listing) x debug on/off x payload location "
        "(PATH_INFO, QUERY_STRING, REQUEST_METHOD with token characters, 14 "
        "HTTP_* headers incl. Host/Cookie/Referer/User-Agent/X-Forwarded-*, "
        "exception message, file and directory names, listed uri) x payload "
        "(element, double-quote and single-quote break-out, combined, and 9 "
        "closing/upper-case/entity variants), all locations at once, natural "
        "400/403/405, and a random sweep (1-3 locations, payloads assembled "
        "from marker pieces and markup characters; 400 quick / 6000 "
        "thorough); SERVER_ADMIN absent; a case is distinct by (page, debug, "
        "location, payload kind) and non-trivial when the marker text is "
        "reflected in the page",
        assumptions=[
            "taint table of harness/py2pages.py: request- and file-system-"
            "derived expressions Tainted, unknown expressions Tainted; "
            "req.method, header field names, environ keys, numbers "
            "TokenChars; handler/filter names, server_software, remote_host/"
            "addr, versions, dates, mime types Trusted (and well-formed "
            "fragments where interpolated raw: hypothesis of same_trusted)",
            "the tokenizer of model/Pages.v is a simplification of HTML5 "
            "(no character references, comments end at the first '>'); tied "
            "to html.parser on the real pages only",
            "noninterference compares valuations with the same branches "
            "taken and the same number of rows"])
