"""C05 what a handler returns is what the client receives: obligations +
correspondence of to_response/emit + decode oracle and header preservation
for every response class."""
import io
import json
import os
import tempfile

import implrun  # noqa: F401
from implrun import new_app, environ, call
import dispatch_common as dc

SCRATCH = "/root/scratch"
TBODIES = [("bytes", b"tb"), ("str", "tb"),
           ("str", "\u017dlu\u0165ou\u010dk\u00fd"),
           ("bytes", b"\xff\x00"), ("str", "\u4e2d")]
TCTYPES = ["application/x-t", "text/plain", "text/html", "text/css",
           "text/x-t; a=b", "text/plain; charset=iso-8859-2",
           "text/plain; charset=ascii", "application/x-t; charset=utf-16"]
NONASCII = [("X-Greeting", "Dobr\u00fd den \u4e2d"),
            ("X-Looks-Converted", "\u00c3\u00a9")]
EXTRA = [("X-One", "1"), ("Set-Cookie", "a=1"), ("Set-Cookie", "b=2"),
         ("X-Two", "dva")]


def rand_text(rng):
    alphabet = "ab \n<&\"'éš中\U0001f600\x00"
    return "".join(rng.choice(alphabet) for _ in range(rng.randint(0, 12)))


def rand_json(rng, depth=0):
    kinds = ["int", "str", "none", "bool", "float"]
    if depth < 3:
        kinds += ["list", "dict"] * 2
    kind = rng.choice(kinds)
    if kind == "int":
        return rng.randint(-5, 10 ** 6)
    if kind == "str":
        return rand_text(rng)
    if kind == "none":
        return None
    if kind == "bool":
        return rng.random() < 0.5
    if kind == "float":
        return rng.choice([0.5, -1.25, 3.0])
    if kind == "list":
        return [rand_json(rng, depth + 1) for _ in range(rng.randint(0, 3))]
    return {rand_text(rng): rand_json(rng, depth + 1)
            for _ in range(rng.randint(0, 3))}


class RawStream(io.RawIOBase):
    """file-like object of unknown size (a pipe, a zip member): readable,
    not seekable, no fileno"""
    def __init__(self, data):
        self._b = io.BytesIO(data)

    def readable(self):
        return True

    def seekable(self):
        return False

    def readinto(self, buf):
        data = self._b.read(len(buf))
        buf[:len(data)] = data
        return len(data)


def run(ctx):
    from poorwsgi import response as R
    from poorwsgi.headers import Headers
    from http.client import responses
    ctx.check_obligations()
    rng = ctx.rng
    cur = {}
    app = new_app()
    app.set_route("/r", lambda req: cur["v"]())

    app.set_route("/r", lambda req: cur["v"](), 511)
    asked = {"n": 0}

    @app.after_response()
    def peek(req, res):
        # a hook that looks at the finished body (ETag / validator hooks
        # do); .data leaves the response as it was
        if asked["n"] % 3 == 0 and hasattr(res, "data") and \
                cur.get("peekable", True):
            len(res.data)
        return res

    def ask():
        # the property does not depend on the request method: the body a
        # handler returns is what the framework hands to the server
        asked["n"] += 1
        method = ("GET", "HEAD", "POST", "GET", "PUT")[asked["n"] % 5]
        extra = {}
        if asked["n"] % 2:
            # a server that offers a file wrapper (wsgiref's)
            from wsgiref.util import FileWrapper
            extra["wsgi.file_wrapper"] = FileWrapper
        # validators a client may send with any request: what the handler
        # hands back is what goes out, also when its ETag / date match them
        if asked["n"] % 4 != 3:
            extra["HTTP_IF_NONE_MATCH"] = '"v1", W/"w2"'
            extra["HTTP_IF_MODIFIED_SINCE"] = \
                "Fri, 01 Jan 2100 00:00:00 GMT"
        return call(app, environ(method=method, path="/r", extra=extra))

    def bad(key, detail, ans):
        ctx.violation(key, dict(detail, status=ans.status,
                                headers=ans.headers,
                                body=(ans.body or b"")[:60]))

    n = 150 if ctx.quick else 20000
    # ---- correspondence through the model: pool values + random ones
    scenarios = []
    for v in dc.VAL_POOL:
        for method in ("GET", "HEAD"):
            scenarios.append(dc.Scenario(leaf=("endpoint", ("ret", v)),
                                         method=method))
        # an application-wide exception handler is not asked about a value
        # the framework cannot turn into a response
        scenarios.append(dc.Scenario(
            leaf=("endpoint", ("ret", v)), method="GET",
            ehandlers=[(10, {2: ("ret", ("str", "from-error-handler"))})]))
    # a status page is a handler too: what it returns is what is sent, also
    # when it answers 200 for the 404 it was asked about (single-page apps)
    for v in dc.VAL_POOL[::2] + [
            ("tuple", [("str", "spa"), ("str", "text/html; charset=utf-8"),
                       ("hdrs", [("X-Fallback", "spa")]), ("int", 200)]),
            ("tuple", [("bytes", b"x"), ("str", "a/b"), ("none",),
                       ("int", 200)])]:
        scenarios.append(dc.Scenario(leaf=("404",), method="GET",
                                     shandlers={(404, 2): ("ret", v)}))
    # deeply nested JSON values (below what the json module itself refuses;
    # compared as text: Python-level recursion is the thing under test)
    for depth in (50, 400, 900, 1100):
        deep = []
        for _ in range(depth):
            deep = [deep]
        cur["v"] = lambda deep=deep: deep
        ans = ask()
        ctx.case(("deep-json", depth), True, {"nesting": depth})
        ctx.count("deep-json")
        if ans.raised is not None or ans.code != 200 or \
                ans.body != b"[" * (depth + 1) + b"]" * (depth + 1):
            bad("json-not-equal", {"value": "list nested %d deep" % depth},
                ans)
    # every tuple body with every content type, status and headers left out
    for tbody in TBODIES:
        for tct in TCTYPES:
            scenarios.append(dc.Scenario(
                leaf=("endpoint", ("ret", ("tuple", [tbody, ("str", tct)]))),
                method="GET"))
    for _ in range(n):
        roll = rng.random()
        if roll < 0.3:
            v = ("str", rand_text(rng))
        elif roll < 0.45:
            v = ("bytes", bytes(rng.randrange(256)
                                for _ in range(rng.randint(0, 9))))
        elif roll < 0.7:
            j = rand_json(rng)
            v = ("dict", j) if isinstance(j, dict) else \
                ("list", j) if isinstance(j, list) and not (
                    j and isinstance(j[0], bytes)) else ("dict", {"v": j})
        elif roll < 0.8:
            v = ("iter", [bytes(rng.randrange(256)
                                for _ in range(rng.randint(0, 4)))
                          for _ in range(rng.randint(0, 5))])
        else:
            st = rng.choice(sorted(responses))
            hk = rng.choice(["hdrs", "hdrs_list", "hdrs_obj"])
            # the body and the content type of a tuple are independent:
            # text or bytes, of any type, arrive as given
            tbody = rng.choice(TBODIES[:1] * 3 + TBODIES)
            tct = rng.choice(TCTYPES[:1] * 2 + TCTYPES)
            v = ("tuple", [tbody, ("str", tct),
                           (hk, rng.sample(EXTRA + NONASCII,
                                           rng.randint(0, 5))),
                           ("int", st)][:rng.randint(1, 4)])
        scenarios.append(dc.Scenario(
            leaf=("endpoint", ("ret", v)),
            method=rng.choice(["GET", "GET", "HEAD", "POST", "PUT",
                               "DELETE"])))
    for sc, ans, trace in dc.run_scenarios(ctx, "shapes", scenarios):
        if sc.leaf[0] != "endpoint":
            # status pages: judged by the model correspondence; what a page
            # returned with status 200 stays 200
            v = sc.shandlers[(404, 2)][1]
            ctx.case(("status-page", repr(v)), True, None)
            ctx.count("status-page-shape")
            if v[0] == "tuple" and v[1] and v[1][-1] == ("int", 200) and \
                    v[1][0][0] in ("str", "bytes") and ans.code != 200:
                bad("status-page-tuple-status", {"value": repr(v)[:200]}, ans)
            continue
        v = sc.leaf[1][1]
        ctx.case(("shape", repr(v)), True, {"value": repr(v)[:120],
                                            "status": ans.status})
        ctx.count("shape=%s" % v[0])
        det = {"value": repr(v)[:200], "method": sc.method}
        if ans.raised is not None:
            bad("exception-escaped", det, ans)
            continue
        # ---- decode oracle (from the property text)
        if v[0] == "str":
            if ans.code != 200 or ans.body != v[1].encode("utf-8"):
                bad("text-not-utf8", det, ans)
        elif v[0] == "bytes":
            if ans.code != 200 or ans.body != v[1]:
                bad("bytes-not-verbatim", det, ans)
        elif v[0] in ("dict", "list"):
            ct = ans.header("Content-Type") or ""
            try:
                same = json.loads(ans.body.decode("utf-8")) == v[1]
            except ValueError:
                same = False
            if ans.code != 200 or not same or \
                    not ct.startswith("application/json"):
                bad("json-not-equal", det, ans)
        elif v[0] == "none":
            if ans.code != 204 or ans.body:
                bad("none-not-204", det, ans)
        elif v[0] in ("iter", "listbytes"):
            if ans.code != 200 or ans.body != b"".join(v[1]):
                bad("iterable-not-concatenated", det, ans)
        elif v[0] in ("obj", "int", "dict_bad", "list_bad"):
            if ans.code != 500:
                bad("garbage-not-500", det, ans)
        elif v[0] == "tuple" and v[1] and v[1][0] in TBODIES and \
                (len(v[1]) == 1 or v[1][1][0] == "str" and
                 v[1][1][1] in TCTYPES):
            items = v[1]
            want_body = items[0][1] if items[0][0] == "bytes" else \
                items[0][1].encode("utf-8")
            if ans.body != want_body:
                bad("tuple-body", det, ans)
            # a 304 answer carries no representation headers (RFC 9110
            # 15.4.5; the framework leaves Content-Type/-Length out)
            if len(items) > 1 and ans.code != 304 and \
                    ans.header("Content-Type") != items[1][1]:
                bad("tuple-content-type", det, ans)
            if len(items) > 2:
                given = items[2][1]
                if items[2][0] == "hdrs":
                    given = list(dict(given).items())
                for pair in given:
                    wire = tuple(Headers.iso88591(x) for x in pair)
                    if wire not in [tuple(h) for h in ans.headers]:
                        bad("tuple-header-missing", det, ans)
            if len(items) > 3 and ans.code != items[3][1]:
                bad("tuple-status", det, ans)

    # ---- header preservation for every response class
    tmp = tempfile.mkdtemp(prefix="c05_", dir=SCRATCH)
    path = os.path.join(tmp, "f.txt")
    with open(path, "wb") as fil:
        fil.write(b"file-content")

    def mk(name, hdrs, as_obj=False):
        h = list(hdrs)
        if as_obj:
            h = Headers(h)      # a ready Headers collection is adopted as is
        if name == "Response":
            return R.Response("data", headers=h)
        if name == "JSONResponse":
            return R.JSONResponse({"a": 1}, headers=h)
        if name == "TextResponse":
            return R.TextResponse("text", headers=h)
        if name == "FileObjResponse":
            return R.FileObjResponse(io.BytesIO(b"fobj"), headers=h)
        if name == "FileObjResponse(stream)":
            # a stream of unknown size: no seek, no fileno
            return R.FileObjResponse(RawStream(b"stream-data"), headers=h)
        if name == "FileResponse":
            return R.FileResponse(path, headers=h)
        if name == "GeneratorResponse":
            return R.GeneratorResponse(iter([b"g1", b"g2"]), headers=h)
        if name == "StrGeneratorResponse":
            return R.StrGeneratorResponse(iter(["s1", "s2"]), headers=h)
        if name == "JSONGeneratorResponse":
            return R.JSONGeneratorResponse(headers=h, items=[1, 2])
        if name == "NoContentResponse":
            return R.NoContentResponse(headers=h)
        if name == "NotModifiedResponse":
            return R.NotModifiedResponse(headers=h, etag='"tag"')
        if name == "RedirectResponse":
            return R.RedirectResponse("/to", headers=h)
        res = R.PartialResponse("partial", headers=h)
        res.make_range([(0, 3)], "bytes", 7)
        return res
    BODIES = {"Response": b"data", "TextResponse": b"text",
              "FileObjResponse": b"fobj",
              "FileObjResponse(stream)": b"stream-data",
              "FileResponse": b"file-content", "GeneratorResponse": b"g1g2",
              "StrGeneratorResponse": b"s1s2", "NoContentResponse": b"",
              "NotModifiedResponse": b"",
              # the deprecated class sends the data it was given
              "PartialResponse": b"partial"}
    classes = ["Response", "JSONResponse", "TextResponse", "FileObjResponse",
               "FileObjResponse(stream)",
               "FileResponse", "GeneratorResponse", "StrGeneratorResponse",
               "JSONGeneratorResponse", "NoContentResponse",
               "NotModifiedResponse", "RedirectResponse", "PartialResponse"]
    try:
        for name in classes:
            subsets = [[], EXTRA, EXTRA[1:3], [("Content-Type", "x/own")],
                       [("ETag", '"v1"'), ("Set-Cookie", "a=1"),
                        ("Last-Modified", "Thu, 01 Jan 2026 00:00:00 GMT"),
                        ("Set-Cookie", "b=2")],
                       [("Content-Length", "3"), ("X-One", "1")],
                       [("content-type", "x/lower")],
                       [("CONTENT-TYPE", "x/upper"), ("content-length", "4")],
                       [("X-Greeting", "Dobr\u00fd den \u4e2d"),
                        ("Set-Cookie", "city=\u00dast\u00ed"),
                        ("Set-Cookie", "city=\u00c3\u00a9")]]
            for hdrs, as_obj in [(h, o) for h in subsets
                                 for o in (False, True)]:
                holder = {}

                def make(name=name, hdrs=hdrs, as_obj=as_obj):
                    res = mk(name, hdrs, as_obj)
                    if hasattr(res, "add_header"):
                        res.add_header("X-Late", "late")
                    first = list(res.headers.items())   # e.g. logged
                    if hasattr(res, "add_header") and len(hdrs) % 2 == 0:
                        # ... and a header replaced after somebody has
                        # looked at the collection (same number of fields)
                        res.headers["X-Late"] = "later"
                        first = [h for h in first if h[0] != "X-Late"] + \
                            [("X-Late", "later")]
                    holder["before"] = first
                    return res
                cur["v"] = make
                cur["peekable"] = name != "FileObjResponse(stream)"
                ans = ask()
                cur["peekable"] = True
                det = {"class": name, "headers": hdrs,
                       "given_as_Headers_object": as_obj}
                ctx.case(("class", name, repr(hdrs), as_obj), True, det)
                ctx.count("class=%s" % name)
                if ans.raised is not None or len(ans.calls) != 1:
                    bad("class-emission-failed", det, ans)
                    continue
                if name in BODIES and ans.body != BODIES[name]:
                    bad("class-body-not-delivered", dict(
                        det, expected=BODIES[name].decode()), ans)
                emitted = [tuple(h) for h in ans.headers]
                want = [tuple(h) for h in holder["before"]]
                # the texts the handler supplied, transcoded once
                for k, v in hdrs:
                    wire = (Headers.iso88591(k), Headers.iso88591(v))
                    if wire not in want and \
                            wire[0].lower() not in ("content-length",):
                        bad("header-text-changed-on-construction",
                            dict(det, supplied=(k, v)), ans)
                # every header present when handed back appears unchanged
                # (multiset inclusion, in order)
                pos = 0
                for h in want:
                    if h[0] == "Accept-Ranges" and h not in emitted:
                        continue        # consumed by range handling
                    try:
                        pos = emitted.index(h, pos) + 1
                    except ValueError:
                        bad("header-lost", dict(det, lost=h), ans)
                        break
                added = list(emitted)
                for h in want:
                    if h in added:
                        added.remove(h)
                for h in added:
                    if h[0] not in ("Content-Type", "Content-Length"):
                        bad("unexpected-header-added", dict(det, added=h),
                            ans)
                    elif any(w[0].lower() == h[0].lower() for w in want):
                        bad("auto-header-duplicated", dict(det, added=h), ans)
        # ---- all status codes of the registry through the tuple form; the
        # body the handler gave is delivered with every one of them
        for st in sorted(responses):
            for body in ("b", b"bytes", [b"l1", b"l2"]):
                cur["v"] = lambda st=st, body=body: (body, "text/plain",
                                                     None, st)
                ans = ask()
                ctx.case(("status", st, repr(body)), True, None)
                want = body.encode() if isinstance(body, str) else \
                    b"".join(body) if isinstance(body, list) else body
                if ans.code != st:
                    bad("tuple-status", {"status_code": st}, ans)
                elif st in (204, 304) and not ans.body and \
                        (ans.header("Content-Length") or "0") != "0":
                    bad("tuple-body-announced-but-not-sent",
                        {"status_code": st, "value": repr(body)}, ans)
                elif ans.body != want and st not in (204, 304):
                    # 204/304: C06 asks for no body bytes there (known
                    # finding body-on-204); C05 is not asserted for them
                    bad("tuple-body", {"status_code": st,
                                       "value": repr(body)}, ans)
    finally:
        import shutil
        shutil.rmtree(tmp, ignore_errors=True)
    return ctx.finish(
        "return values: the fixed pool of %d shapes plus random Unicode text, "
        "bytes, JSON values to depth 3 (incl. {} and []), byte iterables, "
        "tuples of length 1-4 with headers as dict/list/Headers and every "
        "registered status code, compared with the model and checked by a "
        "decode oracle, under request methods GET/HEAD/POST/PUT; 12 response "
        "classes x 8 header sets (incl. letter case, non-ASCII, repeated "
        "Set-Cookie) x {list, Headers object} for header preservation; distinct by value/class" % len(dc.VAL_POOL),
        assumptions=["json.dumps/json.loads are CPython's (the model takes "
                     "the dumps text as given)"])
