"""C14 Headers: obligations + correspondence (model coq/model/Headers.v vs the
real poorwsgi.headers.Headers on operation histories and on the transcoders)
+ monitor (an independent reference multimap over the supplied texts, written
from the property text, checked after every step)."""
import itertools

import implrun  # noqa: F401  (sets sys.path)
from core import Exn, zlit, clist
from core import slit as lit


# ---------------------------------------------------------------- pools
# US-ASCII token names differing only in case, Set-Cookie in several casings,
# and one unrelated name (to see that only entries of *that* name are touched)
NAMES = ["X-Tok", "x-tok", "X-TOK", "Set-Cookie", "set-cookie", "SET-COOKIE",
         "sEt-cOOkie", "Y-Other"]
# ASCII, Latin-1 range, BMP, astral
VALUES = ["a=1", "café ÿ", "žluť € ￿",
          "\U0001f600 \U0010ffff", "", "b", "\u0080߿ࠀ", "q\"uo\\te",
          # Latin-1-range text whose code points read as well-formed UTF-8
          "\u00c3\u00a9", "caf\u00c2\u00a0au", "\u00e2\u0082\u00ac\u00a3"]
HOSTILE = [None, 5, b"X-Tok", "\ud800", "x\udfffy", -1, b""]
NEGOS = [[("gzip", 1.0), ("*", 0)], (("text/html;level=1",), ("x", 0.5)),
         [], [("café",)], [("a", "\ud800")], ((),)]
PARAM_KEYS = ["filename", "foo_bar", "a b", "é_x", "_", "k\ud800"]
PARAM_VALS = ["image.png", 'x"y\\z', "", None, "ž\U0001f600", 7,
              "\udc00", b"v"]


def u2l(text):
    """the latin-1 str whose bytes are the UTF-8 encoding of text"""
    return text.encode("utf-8").decode("latin-1")


# The pool strings get names in the case files (shorter terms, much faster
# to parse): Definition t<i> : list Z := <code points>.
SYMS = {}
for _text in NAMES + VALUES + [u2l(v) for v in VALUES]:
    if len(_text) > 1 and _text not in SYMS:
        SYMS[_text] = "t%d" % len(SYMS)
IMPORTS = ("Require Import PW.model.Headers.\nImport ListNotations.\n"
           "Open Scope Z_scope.\n" +
           "".join("Definition %s : list Z := %s.\n" % (sym, lit(text))
                   for text, sym in SYMS.items()))


def slit(text):
    """list Z term for a str / bytes"""
    if isinstance(text, str) and text in SYMS:
        return SYMS[text]
    return lit(text)


# ---------------------------------------------------------------- Coq terms
def arg_t(a):
    if a is None:
        return "ANone"
    if isinstance(a, str):
        return "(AStr %s)" % slit(a)
    if isinstance(a, (bytes, bytearray)):
        return "(ABytes %s)" % slit(a)
    if isinstance(a, int) and not isinstance(a, bool):
        return "(AInt %s)" % zlit(a)
    raise TypeError("no model term for %r" % (a,))


def vtext(obj):
    """expected value as the text of a Coq term of type V (own renderer:
    core.to_v does not recognise core.Exn when core.py runs as __main__)"""
    if isinstance(obj, Exn):
        return '(VX "%s")' % obj.name
    if obj is None:
        return "VN"
    if isinstance(obj, bool):
        return "(VB %s)" % ("true" if obj else "false")
    if isinstance(obj, int):
        return "(VZ %s)" % zlit(obj)
    if isinstance(obj, str):
        return "(VS %s)" % slit(obj)
    if isinstance(obj, (bytes, bytearray)):
        return "(VY %s)" % slit(obj)
    if isinstance(obj, (list, tuple)):
        return "(VL %s)" % clist(vtext(x) for x in obj)
    raise TypeError("cannot render %r" % (obj,))


def pair_t(fn, k, v):
    return "(%s,%s)" % (fn(k), fn(v))


def ctor_t(kind, pairs, strict):
    fn = arg_t if strict else slit
    if kind == "none":
        return "CNone"
    if kind == "other":
        return "(COther %s)" % ("true" if pairs else "false")
    cons = "CDict" if kind == "dict" else "CSeq"
    return "(%s %s)" % (cons, clist(pair_t(fn, k, v) for k, v in pairs))


def hval_t(v):
    if isinstance(v, (list, tuple)):
        return "(HNego %s)" % clist(
            clist(slit(str(e)) for e in item) for item in v)
    return "(HArg %s)" % arg_t(v)


def op_t(op):
    kind = op[0]
    if kind == "init":
        _, ckind, seen, strict, _ = op
        return "(%s %s)" % ("OInit" if strict else "OInitRaw",
                            ctor_t(ckind, seen, strict))
    if kind == "add":
        return "(OAdd %s %s)" % (arg_t(op[1]), arg_t(op[2]))
    if kind == "addh":
        return "(OAddHeader %s %s %s)" % (
            arg_t(op[1]), hval_t(op[2]),
            clist("(%s,%s)" % (slit(k), arg_t(v)) for k, v in op[3]))
    if kind == "set":
        return "(OSet %s %s)" % (arg_t(op[1]), arg_t(op[2]))
    if kind == "setdefault":
        return "(OSetdefault %s %s)" % (arg_t(op[1]), arg_t(op[2]))
    one = {"del": "ODel", "get": "OGet", "get_all": "OGetAll",
           "in": "OContains", "getitem": "OGetItem"}
    if kind in one:
        return "(%s %s)" % (one[kind], arg_t(op[1]))
    return {"len": "OLen", "items": "OItems", "names": "ONames",
            "values": "OValues"}[kind]


def mk_init(ckind, pairs, strict):
    """('init', kind, pairs-as-the-constructor-iterates-them, strict, object)"""
    if ckind == "list":
        obj = list(pairs)
        seen = list(obj)
    elif ckind == "tuple":
        obj = tuple(pairs)
        seen = list(obj)
    elif ckind == "set":
        obj = set(pairs)
        seen = list(obj)          # same object, same iteration order
    elif ckind == "dict":
        obj = dict(pairs)
        seen = list(obj.items())
    elif ckind == "none":
        obj, seen = None, []
    else:                         # "other": pairs is the object itself
        obj, seen = pairs, bool(pairs)
    return ("init", ckind, seen, strict, obj)


# ---------------------------------------------------------------- the code
def canon(res):
    if isinstance(res, tuple):
        return [canon(x) for x in res]
    return res


def apply_op(hdr, op):
    """run one operation on the real object; canonical outcome"""
    kind = op[0]
    try:
        if kind == "init":
            hdr.__init__(op[4], strict=op[3])
            return None
        if kind == "add":
            return hdr.add(op[1], op[2])
        if kind == "addh":
            return hdr.add_header(op[1], op[2], **dict(op[3]))
        if kind == "set":
            hdr[op[1]] = op[2]
            return None
        if kind == "del":
            del hdr[op[1]]
            return None
        if kind == "setdefault":
            return canon(hdr.setdefault(op[1], op[2]))
        if kind == "get":
            return hdr.get(op[1])
        if kind == "get_all":
            return canon(hdr.get_all(op[1]))
        if kind == "in":
            return op[1] in hdr
        if kind == "getitem":
            return hdr[op[1]]
        if kind == "len":
            return len(hdr)
        if kind == "items":
            got = canon(hdr.items())
            if got != canon(tuple(hdr)):
                return Exn("items-differs-from-iter")
            return got
        if kind == "names":
            got = canon(hdr.names())
            if got != canon(hdr.keys()):
                return Exn("names-differs-from-keys")
            return got
        if kind == "values":
            return canon(hdr.values())
    except Exception as err:  # noqa: every class is an observable outcome
        return Exn(type(err).__name__)
    raise AssertionError(kind)


def run_history(ops):
    from poorwsgi.headers import Headers
    hdr = Headers()
    return [apply_op(hdr, op) for op in ops]


def readers(i):
    """a rotating battery of lookups to follow a mutator"""
    third = [("get", NAMES[(i + 1) % 8]), ("in", NAMES[(i + 4) % 8]),
             ("getitem", NAMES[(i + 5) % 8]), ("len",)][i % 4]
    return [("items",), ("get_all", NAMES[i % 8]), third]


def mutators(names, wide):
    ops = []
    vi = itertools.count()

    def val():
        return VALUES[next(vi) % 4]
    for name in names:
        ops += [("add", name, val()), ("set", name, val()), ("del", name),
                ("setdefault", name, val()), ("addh", name, val(), [])]
    if wide:
        ops += EXTRA
    return ops


EXTRA = [mk_init("list", [("X-Tok", VALUES[1]), ("x-tok", "b"),
                          ("set-cookie", VALUES[3])], True),
         mk_init("dict", [("X-TOK", "r\xc3\xa9"), ("Set-Cookie", "c")], False),
         ("set", "X-Tok", 5), ("add", None, "v"),
         ("addh", "X-Tok", "attachment",
          [("filename", 'x"y\\z'), ("foo_bar", None)]),
         ("addh", "Set-Cookie", [("gzip", 1.0), ("*", 0)], []),
         ("set", "x-tok", "\ud800"), ("add", b"X-Tok", "v"),
         ("setdefault", "X-TOK", None), ("addh", 5, None, []),
         mk_init("set", [("Y-Other", "1"), ("y-other", "2")], True),
         mk_init("tuple", [("X-Tok", "1"), (None, "2")], True),
         mk_init("other", "abc", True)]


def random_arg(rng, pool, hostile):
    if rng.random() < hostile:
        return rng.choice(HOSTILE)
    return rng.choice(pool)


def random_op(rng, hostile):
    kind = rng.choice(["add", "add", "set", "set", "del", "setdefault",
                       "addh", "addh", "get", "get_all", "in", "getitem",
                       "len", "items", "names", "values", "init"])
    name = random_arg(rng, NAMES, hostile)
    if kind in ("add", "set", "setdefault"):
        return (kind, name, random_arg(rng, VALUES, hostile))
    if kind == "addh":
        roll = rng.random()
        if roll < 0.2:
            value = rng.choice(NEGOS)
        elif roll < 0.3:
            value = None
        else:
            value = random_arg(rng, VALUES, hostile)
        params = []
        if rng.random() < 0.5:
            keys = rng.sample(PARAM_KEYS[:5] if hostile < 0.05
                              else PARAM_KEYS, rng.randint(1, 3))
            for key in keys:
                pv = rng.choice(PARAM_VALS[:5] if hostile < 0.05
                                else PARAM_VALS)
                params.append((key, pv))
        return ("addh", name, value, params)
    if kind == "init":
        strict = rng.random() < 0.6
        ckind = rng.choice(["list", "tuple", "set", "dict", "none", "other"])
        if ckind == "other":
            return mk_init("other", rng.choice(["abc", 0, "", 7]), strict)
        pairs = []
        for _ in range(rng.randint(0, 4)):
            if strict:
                pairs.append((random_arg(rng, NAMES, hostile),
                              random_arg(rng, VALUES, hostile)))
            else:
                pairs.append((rng.choice(NAMES),
                              u2l(rng.choice(VALUES))
                              if rng.random() < 0.7 else rng.choice(VALUES)))
        return mk_init(ckind, pairs, strict)
    if kind in ("len", "items", "names", "values"):
        return (kind,)
    return (kind, name)


def describe(ops):
    out = []
    for op in ops:
        if op[0] == "init":
            out.append(["init", op[1], ascii(op[4]), op[3]])
        else:
            out.append([ascii(x) for x in op])
    return out


# ---------------------------------------------------------------- reference
class Ref:
    """Insertion-ordered, case-insensitive multimap over the SUPPLIED TEXTS.
    Written from the property text.  Entries are [name, value, raw]; raw
    entries (strict=False) are wire strings taken as they are."""

    def __init__(self):
        self.entries = []

    @staticmethod
    def good(text):
        if not isinstance(text, str):
            return False
        return not any(0xD800 <= ord(c) <= 0xDFFF for c in text)

    def find(self, name):
        key = name.lower()
        return [e for e in self.entries if e[0].lower() == key]

    def drop(self, name):
        key = name.lower()
        self.entries = [e for e in self.entries if e[0].lower() != key]


def ref_param(key, val):
    key = key.replace("_", "-")
    if val is None or val == "":
        return key          # an empty value is rendered like no value
    return '%s="%s"' % (key, val.replace("\\", "\\\\").replace('"', '\\"'))


REJECT = ("TypeError", "ValueError")


def ref_step(ref, op):
    """-> (kind, payload): ('ret', value-text or marker) | ('raise', names)
    and updates ref.  Markers: values are compared through transcoding."""
    kind = op[0]
    if kind == "init":
        _, ckind, seen, strict, obj = op
        if ckind == "other":
            if obj:
                return ("raise", REJECT)
            ref.entries = []
            return ("ret", None)
        if strict and not all(Ref.good(k) and Ref.good(v) for k, v in seen):
            return ("raise", REJECT)
        ref.entries = [[k, v, not strict] for k, v in seen]
        return ("ret", None)
    if kind in ("len", "items", "names", "values"):
        return ("observed", None)
    name = op[1]
    if kind == "addh":
        _, _, value, params = op
        parts = []
        ok = Ref.good(name)
        if isinstance(value, (list, tuple)):
            text = ", ".join(";q=".join(str(e) for e in item)
                             for item in value)
            ok = ok and Ref.good(text)
            parts.append(text)
        else:
            if value is not None:
                ok = ok and Ref.good(value)
                parts.append(value)
            for key, val in params:
                ok = ok and Ref.good(key) and (val is None or Ref.good(val))
                if ok:
                    parts.append(ref_param(key, val))
        if not ok or not parts:
            return ("raise", REJECT)
        ref.entries.append([name, "; ".join(parts), False])
        return ("ret", None)
    if not Ref.good(name):
        return ("raise", REJECT)
    found = ref.find(name)
    if kind == "get":
        return ("wire", found[0] if found else None)
    if kind == "get_all":
        return ("wires", found)
    if kind == "in":
        return ("ret", bool(found))
    if kind == "getitem":
        return ("wire", found[0]) if found else ("raise", ("KeyError",))
    if kind == "del":
        ref.drop(name)
        return ("ret", None)
    value = op[2]
    if kind == "add":
        if name.lower() != "set-cookie" and found:
            # refused whether or not the value is acceptable
            return ("raise", ("KeyError",) if Ref.good(value)
                    else ("KeyError",) + REJECT)
        if not Ref.good(value):
            return ("raise", REJECT)
        ref.entries.append([name, value, False])
        return ("ret", None)
    if kind == "set":
        if not Ref.good(value):
            return ("raise", REJECT)
        ref.drop(name)
        ref.entries.append([name, value, False])
        return ("ret", None)
    if kind == "setdefault":
        if found:
            return ("wire-or-reject", found[0]) if not Ref.good(value) \
                else ("wire", found[0])
        if not Ref.good(value):
            return ("raise", REJECT)
        ref.entries.append([name, value, False])
        return ("text-or-wire", value)
    raise AssertionError(kind)


def wire_ok(got, entry):
    """got is the native latin-1 str of the entry's value"""
    if not isinstance(got, str):
        return False
    try:
        raw = got.encode("latin-1")
    except UnicodeError:
        return entry[2] and got == entry[1]
    if entry[2]:
        return got == entry[1]
    return raw == entry[1].encode("utf-8")


class Monitor:
    def __init__(self, ctx):
        from poorwsgi.headers import Headers
        self.ctx = ctx
        self.cls = Headers

    def observe(self, hdr, ref, hist):
        """items(), len, and every lookup under every casing"""
        bad = self.ctx.violation
        items = hdr.items()
        for pair in items:
            if not (isinstance(pair, tuple) and len(pair) == 2 and
                    type(pair[0]) is str and type(pair[1]) is str):
                bad("stored-not-native-str", {"history": describe(hist),
                                              "items": ascii(items)})
                return False
        same = len(items) == len(ref.entries)
        for (key, val), entry in zip(items, ref.entries):
            same = same and wire_ok(key, [None, entry[0], entry[2]]) and \
                wire_ok(val, entry)
        if not same:
            bad("items-order-or-content",
                {"history": describe(hist), "items": ascii(items),
                 "reference_texts": ascii(ref.entries)})
            return False
        for (key, val), entry in zip(items, ref.entries):
            if entry[2]:
                continue
            if max(map(ord, key + val), default=0) > 255 or \
                    self.cls.utf8(key) != entry[0] or \
                    self.cls.utf8(val) != entry[1]:
                bad("transcoding", {"history": describe(hist),
                                    "stored": ascii((key, val)),
                                    "supplied": ascii(entry[:2])})
                return False
        if len(hdr) != len(ref.entries) or \
                list(hdr.names()) != [p[0] for p in items] or \
                list(hdr.values()) != [p[1] for p in items] or \
                list(hdr.keys()) != [p[0] for p in items] or \
                list(hdr) != list(items):
            bad("iteration-views-disagree", {"history": describe(hist)})
            return False
        for name in NAMES:
            found = ref.find(name)
            try:
                res = (hdr.get(name), hdr.get_all(name), name in hdr)
                try:
                    item = hdr[name]
                except KeyError:
                    item = KeyError
            except Exception as err:  # noqa
                bad("lookup-raises", {"history": describe(hist),
                                      "name": name, "error": repr(err)})
                return False
            good = (res[2] is bool(found) and len(res[1]) == len(found) and
                    all(wire_ok(g, e) for g, e in zip(res[1], found)))
            if found:
                good = good and wire_ok(res[0], found[0]) and \
                    item is not KeyError and wire_ok(item, found[0])
            else:
                good = good and res[0] is None and item is KeyError
            if not good:
                bad("lookup-case", {"history": describe(hist), "name": name,
                                    "get/get_all/in": ascii(res),
                                    "getitem": ascii(item),
                                    "reference": ascii(found)})
                return False
        return True

    def step(self, hdr, ref, op, hist):
        """apply op to both, compare the outcome; False = stop this history"""
        before = list(ref.entries)
        want = ref_step(ref, op)
        got = apply_op(hdr, op)
        kind = want[0]
        detail = {"history": describe(hist), "got": ascii(got),
                  "reference": ascii(want)}
        if kind == "observed":
            return True
        if kind == "raise":
            allowed = want[1]
            if not isinstance(got, Exn):
                self.ctx.violation(
                    "add-duplicate-accepted" if allowed[0] == "KeyError"
                    else "not-rejected", detail)
                return False
            if got.name not in allowed:
                if got.name == "AttributeError" and \
                        allowed != ("KeyError",) and \
                        not isinstance(op[1], str):
                    key = "nonstr-name-attributeerror"   # fixed in 46f0b75
                elif got.name == "KeyError":
                    key = "add-refused"
                else:
                    key = "rejected-with-other-exception"
                self.ctx.violation(key, detail)
                return False
            # a rejected operation must not change the collection (observe()
            # also compares items() with the unchanged reference)
            if len(hdr) != len(before):
                self.ctx.violation(
                    "rejected-set-deletes" if op[0] == "set"   # fixed 0231c65
                    else "rejected-operation-changed-collection", detail)
                return False
            return True
        if isinstance(got, Exn):
            if kind == "wire-or-reject" and got.name in REJECT:
                return True
            self.ctx.violation(
                "add-refused" if op[0] == "add" and got.name == "KeyError"
                else "unexpected-exception", detail)
            return False
        if kind == "ret":
            good = got is want[1] if want[1] is None or \
                isinstance(want[1], bool) else got == want[1]
        elif kind in ("wire", "wire-or-reject"):
            good = got is None if want[1] is None else wire_ok(got, want[1])
        elif kind == "wires":
            good = isinstance(got, list) and len(got) == len(want[1]) and \
                all(wire_ok(g, e) for g, e in zip(got, want[1]))
        else:                          # text-or-wire (setdefault, new entry)
            good = got == want[1] or wire_ok(got, [None, want[1], False])
        if not good:
            self.ctx.violation(
                "lookup-case" if op[0] in ("get", "get_all", "in", "getitem",
                                           "setdefault")
                else "wrong-result", detail)
            return False
        return True

    def history(self, ops, check_from=0):
        """run a history from Headers(); observe after every step from
        index check_from on"""
        hdr, ref = self.cls(), Ref()
        for idx, op in enumerate(ops):
            if not self.step(hdr, ref, op, ops[:idx + 1]):
                return False
            if idx >= check_from and \
                    not self.observe(hdr, ref, ops[:idx + 1]):
                return False
        return True


# ---------------------------------------------------------------- strings
EDGES = [0, 1, 0x41, 0x5A, 0x7F, 0x80, 0xC0, 0xFF, 0x100, 0x7FF, 0x800,
         0xFFF, 0x1000, 0xD7FF, 0xD800, 0xDBFF, 0xDC00, 0xDFFF, 0xE000,
         0xFFFD, 0xFFFF, 0x10000, 0x3FFFF, 0x40000, 0xFFFFF, 0x100000,
         0x10FFFF]


def random_text(rng, n, surrogates=0.0):
    out = []
    for _ in range(n):
        roll = rng.random()
        if roll < surrogates:
            out.append(rng.randint(0xD800, 0xDFFF))
        elif roll < surrogates + 0.08:
            # looks converted already: the UTF-8 bytes of a character, as
            # Latin-1-range characters
            out.extend(chr(rng.choice([0xE9, 0xA0, 0x20AC, 0x1F600, 0x7FF,
                                       rng.randint(0x80, 0xFFFF) & ~0x5800]))
                       .encode("utf-8"))
        elif roll < 0.3:
            out.append(rng.randint(0, 0x7F))
        elif roll < 0.5:
            out.append(rng.randint(0x80, 0x7FF))
        elif roll < 0.7:
            cp = rng.randint(0x800, 0xFFFF)
            out.append(cp if not 0xD800 <= cp <= 0xDFFF else 0xFFFD)
        elif roll < 0.85:
            out.append(rng.randint(0x10000, 0x10FFFF))
        else:
            out.append(rng.choice([c for c in EDGES
                                   if not 0xD800 <= c <= 0xDFFF]))
    return "".join(map(chr, out))


def wire_strings(rng, count):
    """latin-1 (and a few wider) strings for Headers.utf8: valid UTF-8,
    truncated, overlong, encoded surrogates, above U+10FFFF, stray bytes"""
    fixed = [b"", b"abc", b"\xc3\xa9", b"\xc3", b"\xa9", b"\xc0\x80",
             b"\xc1\xbf", b"\xc2\x7f", b"\xc2\x80", b"\xdf\xbf", b"\xe0\x80\x80",
             b"\xe0\x9f\xbf", b"\xe0\xa0\x80", b"\xed\x9f\xbf", b"\xed\xa0\x80",
             b"\xed\xbf\xbf", b"\xee\x80\x80", b"\xef\xbf\xbf", b"\xf0\x80\x80\x80",
             b"\xf0\x8f\xbf\xbf", b"\xf0\x90\x80\x80", b"\xf4\x8f\xbf\xbf",
             b"\xf4\x90\x80\x80", b"\xf5\x80\x80\x80", b"\xf7\xbf\xbf\xbf",
             b"\xf8\x88\x80\x80\x80", b"\xff", b"\xfe", b"\xe2\x82", b"\xe2\x82\xac",
             b"\xf0\x9f\x98", b"\xf0\x9f\x98\x80", b"a\xf0\x9f\x98\x80b\xc3",
             b"\xe2\x28\xa1", b"\xf0\x28\x8c\xbc", b"\xf0\x90\x28\xbc",
             b"\xc3\xa9\xc3\xa9", b"\x80abc"]
    out = [b.decode("latin-1") for b in fixed]
    out += ["Ā", "a€b", "\U0001f600", "éĀ"]
    for _ in range(count):
        roll = rng.random()
        if roll < 0.4:
            data = random_text(rng, rng.randint(1, 5)).encode("utf-8")
            if rng.random() < 0.5 and data:
                pos = rng.randrange(len(data))
                data = data[:pos] + bytes([rng.randrange(256)]) + \
                    data[pos + 1:]
            elif rng.random() < 0.3:
                data = data[:-1]
        else:
            data = bytes(rng.choice([rng.randrange(256),
                                     rng.choice([0xC2, 0xE0, 0xED, 0xF0,
                                                 0xF4, 0x80, 0xBF, 0x9F,
                                                 0xA0, 0x8F, 0x90])])
                         for _ in range(rng.randint(1, 6)))
        out.append(data.decode("latin-1"))
    return out


# ---------------------------------------------------------------- the check
def run(ctx):
    from poorwsgi.headers import Headers
    ctx.check_obligations()
    rng = ctx.rng
    quick = ctx.quick

    # ------------------------------------------------ correspondence
    cases = []

    opsyms = {}               # op term -> name defined in the case files

    def op_sym(op):
        term = op_t(op)
        if len(term) > 8 and term not in opsyms and len(opsyms) < 400:
            opsyms[term] = "o%d" % len(opsyms)
        return opsyms.get(term, term)

    def add_case(ops, named=False):
        got = run_history(ops)
        cases.append(("run_ops %s" % clist((op_sym if named else op_t)(op)
                                           for op in ops),
                      vtext(got), ("history", describe(ops), ascii(got))))

    # exhaustive histories of mutators, a battery of lookups after each
    pool = mutators(["X-Tok", "x-tok", "Set-Cookie", "set-cookie"],
                    wide=not quick)
    pools = [pool]
    if quick:       # the hostile / constructor operations in a smaller grid
        pools.append(EXTRA[:4] + pool[0:3] + pool[11:13] + pool[18:19])
    for grid in pools:
        for seq in itertools.product(grid, repeat=3):
            ops = []
            for idx, op in enumerate(seq):
                ops.append(op)
                ops += readers(idx + len(cases))
            add_case(ops, named=True)
            ctx.count("corr:exhaustive-3")
    if not quick:
        small = mutators(["X-Tok", "x-tok", "set-cookie"], wide=False)[:15] \
            + [("set", "X-Tok", 5)]
        for seq in itertools.product(small, repeat=4):
            ops = []
            for idx, op in enumerate(seq):
                ops += [op, ("items",), ("get_all", NAMES[idx % 3]),
                        ("get", NAMES[4 + idx % 2])]
            add_case(ops, named=True)
            ctx.count("corr:exhaustive-4")
    # random long histories: mostly valid, and hostile
    for hostile, count in ((0.02, 300 if quick else 2500),
                           (0.35, 200 if quick else 1500)):
        for _ in range(count):
            ops = [random_op(rng, hostile)
                   for _ in range(rng.randint(6, 40))]
            if rng.random() < 0.5:
                ops.append(("items",))
            add_case(ops)
            ctx.count("corr:random-%s" % ("hostile" if hostile > 0.1
                                          else "valid"))
    imports = IMPORTS + "".join("Definition %s : op := %s.\n" % (sym, term)
                                for term, sym in opsyms.items())
    ctx.correspondence("history", imports, cases, lambda p: list(p))
    for term, got, payload in cases[:3]:
        ctx.case(("corr", term), True,
                 {"history": payload[1][:4], "impl": payload[2][:200]})

    # transcoders
    tcases = []
    texts = ["".join(chr(c) for c in EDGES if not 0xD800 <= c <= 0xDFFF)]
    texts += [chr(c) for c in EDGES] + VALUES + ["\ud800", "a\udfff"]
    texts += [random_text(rng, rng.randint(0, 12),
                          0.05 if i % 5 == 0 else 0.0)
              for i in range(300 if quick else 6000)]
    step = 4099 if quick else 61
    texts += [chr(c) for c in range(0, 0x110000, step)]

    def outcome(func, *args):
        try:
            return func(*args)
        except Exception as err:  # noqa
            return Exn(type(err).__name__)

    for text in texts:
        tcases.append(("run_iso %s" % arg_t(text),
                       vtext(outcome(Headers.iso88591, text)),
                       ("iso", ascii(text))))
        tcases.append(("run_roundtrip %s" % slit(text),
                       vtext(outcome(
                           lambda t: Headers.utf8(Headers.iso88591(t)), text)),
                       ("roundtrip", ascii(text))))
        ctx.count("corr:iso")
    for bad in HOSTILE:
        tcases.append(("run_iso %s" % arg_t(bad),
                       vtext(outcome(Headers.iso88591, bad)),
                       ("iso", ascii(bad))))
    for wire in wire_strings(rng, 600 if quick else 20000):
        tcases.append(("run_utf8 %s" % slit(wire),
                       vtext(outcome(Headers.utf8, wire)),
                       ("utf8", ascii(wire))))
        ctx.count("corr:utf8")
    ctx.correspondence("transcode", IMPORTS, tcases, lambda p: list(p))

    # ------------------------------------------------ monitor
    mon = Monitor(ctx)
    # every history up to the bound over the property's pool
    mpool = [("add", "X-Tok", VALUES[0]), ("add", "x-tok", VALUES[1]),
             ("add", "set-cookie", VALUES[2]), ("add", "Set-Cookie", VALUES[3]),
             ("set", "X-TOK", VALUES[2]), ("set", "SET-COOKIE", VALUES[0]),
             ("del", "x-tok"), ("del", "sEt-cOOkie"),
             ("setdefault", "X-Tok", VALUES[3]),
             ("addh", "x-tok", VALUES[1], [("filename", VALUES[2])]),
             ("add", "Y-Other", VALUES[1])]
    bound = 4 if quick else 6
    if not quick:
        mpool = mpool[:9]            # 9^6 = 531441 histories of length 6
    for length in range(1, bound + 1):
        for seq in itertools.product(mpool, repeat=length):
            ok = mon.history(list(seq), check_from=length - 1)
            ctx.case(("hist", seq), length > 1)
            ctx.count("mon:exhaustive-%d" % length)
            if not ok and len(ctx.violations) > 20:
                break
    # wider pool, shorter
    wide = mutators(NAMES, wide=True)
    for length in (1, 2) if quick else (1, 2, 3):
        for seq in itertools.product(wide, repeat=length):
            if length == 3 and rng.random() > 0.25:
                continue
            mon.history(list(seq), check_from=length - 1)
            ctx.case(("wide", describe(seq)), True)
            ctx.count("mon:wide-%d" % length)
            if len(ctx.violations) > 20:
                break
    # random long histories, valid and hostile
    for hostile, count in ((0.02, 1500 if quick else 20000),
                           (0.35, 1000 if quick else 10000)):
        for _ in range(count):
            ops = [random_op(rng, hostile)
                   for _ in range(rng.randint(6, 60))]
            mon.history(ops)
            ctx.case(("rand", describe(ops)), True,
                     {"history": describe(ops)[:5]})
            ctx.count("mon:random-%s" % ("hostile" if hostile > 0.1
                                         else "valid"))
            if len(ctx.violations) > 20:
                break
    # transcoding of single strings: native str, latin-1 bytes are the UTF-8
    # of the text, utf8() gives the text back; non-str and surrogates refused
    cps = range(0, 0x110000, 7 if quick else 1)
    singles = (chr(c) for c in cps)
    for text in itertools.chain(singles, texts):
        surrogate = any(0xD800 <= ord(c) <= 0xDFFF for c in text)
        got = outcome(Headers.iso88591, text)
        if len(text) != 1:
            ctx.case(("iso", text), True)
        else:
            ctx.evaluations += 1
        if surrogate:
            if not (isinstance(got, Exn) and got.name == "ValueError"):
                ctx.violation("not-rejected", {"iso88591": ascii(text),
                                               "got": ascii(got)})
            continue
        if not (type(got) is str and
                got.encode("latin-1", "replace") == text.encode("utf-8") and
                Headers.utf8(got) == text):
            ctx.violation("transcoding", {"iso88591": ascii(text),
                                          "got": ascii(got)})
            break
    ctx.nontrivial.add(b"all-code-points")
    for bad in HOSTILE[:3] + [1.5, ["a"], ("a",), object()]:
        got = outcome(Headers.iso88591, bad)
        if not (isinstance(got, Exn) and got.name in REJECT):
            ctx.violation("not-rejected", {"iso88591": ascii(bad),
                                           "got": ascii(got)})
    return ctx.finish(
        "correspondence: every history of length 3 over a pool of %d mutators "
        "(add/set/del/setdefault/add_header on X-Tok, x-tok, Set-Cookie, "
        "set-cookie with ASCII/Latin-1/BMP/astral values, list and dict "
        "construction, hostile arguments), lookups after every step "
        "(quick: the hostile/constructor operations in a second grid of 10; "
        "thorough: one pool of 33, and length 4 over 16 mutators); random "
        "histories of 6-40 operations, mostly-valid and 35%%-hostile; "
        "iso88591/utf8 on edge and random strings.  monitor: every history "
        "of length <= %d over %d mutators observed after every step under "
        "all 8 name casings against the reference multimap, all histories "
        "of length <= %d over a %d-operation pool, random histories of 6-60 "
        "operations, every %s code point through iso88591/utf8.  A case is "
        "distinct by its operation sequence; non-trivial = at least two "
        "operations" % (len(pool), bound, len(mpool), 2 if quick else 3,
                        len(wide), "7th" if quick else "single"),
        assumptions=[
            "str.lower()/bytes.lower() modelled for ASCII A-Z only: model "
            "and theorems speak about the code for names without non-ASCII "
            "cased characters (the class requires US-ASCII token names)",
            "utf8_encode/utf8_decode are Gallina re-implementations of "
            "CPython's strict 'utf-8' codec, compared differentially here",
            "str() of negotiation tuple elements (float repr) is rendered "
            "by Python and given to the model as text",
            "strict=False stores its input unchecked; the model takes str "
            "pairs only there",
            "Python str code points are 0..0x10FFFF (hypothesis op_wf of "
            "the latin-1 theorem)"])
