"""C09 caching body reader: obligations + correspondence (model vs
request.CachedInput over an instrumented stream, timeout=None) + monitor (the
property text checked on the implementation's outputs).

Histories are explored per configuration (body, n, block, shorts) as a graph:
a node is the reader's state after a history, an edge one of the six calls of
the property; every (state, call) edge is executed once on the implementation
(by replaying a history that reaches the state), so the monitor covers every
call sequence over the six calls up to two end-of-input reports.  The
correspondence takes whole histories (root-to-leaf paths of that exploration,
sampled to the tier's budget), the readline-only histories of the form parser,
and random long bodies."""
import itertools
import multiprocessing
import random
import time

import implrun  # noqa: F401  (sets sys.path)
from core import slit, zlit, zlist, to_v

IMPORTS = "Require Import PW.model.CachedInput."
ALPHA = b"ab\r\n"
CALLS = (("read", 1), ("read", 2), ("read", -1),
         ("readline", -1), ("readline", 1), ("readline", 3))
SPIN_LIMIT = 60          # reads per call on the small grid
SPIN_LIMIT_LONG = 2000   # reads per call for long bodies


class Spin(Exception):
    pass


class Stream:
    """Instrumented wsgi.input: hands out min(k, next short bound, rest)
    bytes, records (requested, received) and raises Spin when one call of
    the reader issues more than `limit` reads."""
    def __init__(self, data, shorts=(), limit=SPIN_LIMIT):
        self.data, self.pos = data, 0
        self.shorts = list(shorts)
        self.zero_bounds = 0          # zero-byte bounds consumed so far
        self.log = []
        self.limit = limit
        self.call_reads = 0

    def begin(self):
        self.call_reads = 0
        self.log = []
        self.zero_bounds = 0

    def read(self, size=-1):
        self.call_reads += 1
        if self.call_reads > self.limit:
            raise Spin()
        k = size
        if k < 0:       # file.read(-1): everything (outside the model)
            k = len(self.data) - self.pos
        if self.shorts:
            bound = self.shorts.pop(0)
            if bound == 0:
                self.zero_bounds += 1
            k = min(k, bound)
        out = self.data[self.pos:self.pos + k]
        self.pos += len(out)
        self.log.append((size, len(out)))
        return out


def replay(body, n, block, shorts, calls, limit=SPIN_LIMIT):
    """Run the history on a fresh reader.  Returns (entries, reader, stream):
    entries[i] = (result bytes, log, zero_bounds) or None for a spinning
    call (which ends the history)."""
    from poorwsgi.request import CachedInput
    stream = Stream(body, shorts, limit)
    reader = CachedInput(stream, n, block, timeout=None)
    entries = []
    for kind, size in calls:
        stream.begin()
        try:
            if kind == "read":
                res = reader.read(size)
            else:
                res = reader.readline(size)
        except Spin:
            entries.append(None)
            break
        entries.append((res, stream.log, stream.zero_bounds))
    return entries, reader, stream


def rle(data):
    """Coq term for bytes: a literal, or run-length coded when long"""
    if len(data) < 200:
        return slit(data)
    segs = ["(%d,%d)" % (byte, len(list(grp)))
            for byte, grp in itertools.groupby(data)]
    return "(expand [%s])" % ";".join(segs)


def expected(entries):
    """V term text of a history's observable outcome (rendered here: core
    is loaded twice when run as a script, so its Exn class is not shared)"""
    out = []
    for e in entries:
        if e is None:
            out.append('(VX "Spin")')
        else:
            out.append("(VL [(VY %s); %s])" % (
                rle(e[0]), to_v([[k, g] for k, g in e[1]])))
    return "(VL [%s])" % ";".join(out)


def term(body, n, block, shorts, calls, limit=SPIN_LIMIT):
    cs = "[" + ";".join("(%d,%s)" % (0 if k == "read" else 1, zlit(s))
                        for k, s in calls) + "]"
    return "run_hist %d %s %s %s %s %s" % (
        limit + 1, rle(body), zlit(n), zlit(block), zlist(shorts), cs)


def readable(data):
    if len(data) <= 400:
        return data.decode("latin-1")
    return [[chr(byte), len(list(grp))] for byte, grp in
            itertools.groupby(data)]


def describe(payload):
    body, n, block, shorts, calls = payload[:5]
    out = {"body": readable(body), "n": n, "block": block,
           "shorts": list(shorts), "calls": [list(c) for c in calls],
           "replay": "CachedInput(Stream(body, shorts), n, block, "
                     "timeout=None); then the calls in order"}
    if len(payload) > 5:        # what the implementation did
        out["implementation"] = [
            "more reads than the spin limit" if e is None else
            {"result": readable(e[0]), "reads": [list(p) for p in e[1]]}
            for e in payload[5]]
    return out


# ------------------------------------------------------------------ monitor
def monitor(body, n, block, shorts, calls, entries, stream_at_eof):
    """The property text on the outputs of one history.  Returns a list of
    (key, detail).  Checks every call of the history (callers that extend a
    history by one call look only at hits of the last call)."""
    hits = []
    want = body[:n]
    has_zero = 0 in shorts
    returned = b""
    received = 0

    def hit(key, i, **more):
        det = describe((body, n, block, shorts, calls[:i + 1]))
        det["call_index"] = i
        det["results"] = [None if e is None else e[0].decode("latin-1")
                          for e in entries[:i + 1]]
        det.update(more)
        hits.append((key, i, det))

    for i, ent in enumerate(entries):
        kind, size = calls[i]
        if ent is None:
            # more than `limit` underlying reads in one call
            hit("spin-when-stream-ends-before-declared-length"
                if stream_at_eof else "spin", i)
            break
        res, log, zero_bounds = ent
        # -- budget: no request reaches past the n-th byte of the stream
        got_in_call = 0
        for k, g in log:
            if k < 0 or k > n - received:
                hit("over-budget", i, requested=k, budget_left=n - received)
            received += g
            got_in_call += g
        # -- bounded number of underlying reads
        if len(log) > got_in_call + zero_bounds + 2:
            hit("too-many-reads", i, reads=len(log), received=got_in_call)
        # -- in order, nothing lost or duplicated
        returned += res
        if not want.startswith(returned):
            hit("not-a-prefix", i, returned=returned.decode("latin-1"),
                want=want.decode("latin-1"))
            break
        # -- end of input is reported only when everything was returned
        if not res and size != 0 and not has_zero and returned != want:
            hit("empty-result-before-end-of-input", i,
                returned=returned.decode("latin-1"),
                want=want.decode("latin-1"))
        # -- the caller's size limit
        if size >= 0 and len(res) > size:
            hit("longer-than-limit", i)
        if kind == "readline":
            pos = res.find(b"\r\n")
            if pos >= 0 and pos != len(res) - 2:
                hit("crlf-inside-line", i)
            if not res.endswith(b"\r\n"):
                # cut only by the caller's limit or the end of input (all of
                # the body returned, or the stream had nothing to give)
                by_limit = size >= 0 and len(res) == size
                dry = bool(log) and log[-1][1] == 0
                if not by_limit and returned != want and not dry:
                    hit("line-cut-early", i)
    return hits


# ------------------------------------------------------------- exploration
def state_key(reader, stream, returned_len, eofs):
    return (returned_len,
            getattr(reader, "_CachedInput__buffer", None),
            getattr(reader, "_CachedInput__todo", None),
            stream.pos, len(stream.shorts), eofs)


def explore(body, n, block, shorts=(), max_depth=40):
    """All (state, call) edges of one configuration.  Returns
    (edges, hits, leaves): leaves are the histories that were not extended
    (their last state was seen before, reported end of input twice, spun or
    broke the prefix property)."""
    seen = set()
    stack = [((), 0)]
    hits, leaves, edges = [], [], 0
    while stack:
        path, eofs = stack.pop()
        for call in CALLS:
            calls = path + (call,)
            entries, reader, stream = replay(body, n, block, shorts, calls)
            edges += 1
            at_eof = stream.pos >= len(body)
            new = [h for h in monitor(body, n, block, shorts, calls, entries,
                                      at_eof) if h[1] == len(calls) - 1]
            hits.extend(new)
            last = entries[-1]
            fatal = last is None or any(
                h[0] == "not-a-prefix" for h in new)
            if fatal or len(calls) >= max_depth:
                leaves.append(calls)
                continue
            e2 = eofs + (1 if not last[0] else 0)
            key = state_key(reader, stream,
                            sum(len(e[0]) for e in entries), e2)
            if e2 >= 2 or key in seen:
                leaves.append(calls)
                continue
            seen.add(key)
            stack.append((calls, e2))
    return edges, hits, leaves


def bodies(maxlen):
    for size in range(maxlen + 1):
        for tup in itertools.product(ALPHA, repeat=size):
            yield bytes(tup)


def declared(body):
    return [n for n in (len(body) - 1, len(body), len(body) + 2) if n >= 0]


def grid_chunk(args):
    """worker: exploration of a list of configurations"""
    configs, seed, keep = args
    rng = random.Random(seed)
    out = {"edges": 0, "hits": [], "cases": [], "configs": 0, "dist": {}}
    for body, n, block, shorts in configs:
        edges, hits, leaves = explore(body, n, block, shorts)
        out["edges"] += edges
        out["configs"] += 1
        out["hits"].extend(hits)
        rel = "n<len" if n < len(body) else \
            "n=len" if n == len(body) else "n>len"
        out["dist"][rel] = out["dist"].get(rel, 0) + edges
        for calls in rng.sample(leaves, min(keep, len(leaves))):
            out["cases"].append((body, n, block, tuple(shorts), calls))
    return out


def line_history(body, n, block, shorts, size, limit=SPIN_LIMIT):
    """the form parser's history: readline(size) until it returns b''"""
    from poorwsgi.request import CachedInput
    stream = Stream(body, shorts, limit)
    reader = CachedInput(stream, n, block, timeout=None)
    calls, entries = [], []
    for _ in range(len(body) + 3):
        calls.append(("readline", size))
        stream.begin()
        try:
            res = reader.readline(size)
        except Spin:
            entries.append(None)
            break
        entries.append((res, stream.log, stream.zero_bounds))
        if not res:
            break
    return tuple(calls), entries, stream.pos >= len(body)


def lines_chunk(args):
    configs, seed, keep_every = args
    rng = random.Random(seed)
    out = {"hits": [], "cases": [], "histories": 0}
    for body, n, block in configs:
        for size in (-1, 1 << 16):
            calls, entries, at_eof = line_history(body, n, block, (), size)
            out["histories"] += 1
            out["hits"].extend(monitor(body, n, block, (), calls, entries,
                                       at_eof))
            if rng.random() < keep_every:
                out["cases"].append((body, n, block, (), calls))
    return out


def chunks(seq, size):
    for i in range(0, len(seq), size):
        yield seq[i:i + size]


def random_long(rng, quick):
    """long bodies with CRLFs on block edges, short-reading streams"""
    block = rng.choice([3, 4, 5, 7, 8, 16, 31, 32, 33, 64] if quick else
                       [3, 5, 7, 8, 16, 31, 32, 33, 64, 100, 127, 128, 255])
    nblocks = rng.randint(2, 6 if quick else 12)
    body = bytearray()
    while len(body) < block * nblocks:
        body += bytes(rng.choice(b"abcdefgh\r\n\r") for _ in
                      range(rng.randint(0, block + 2)))
        edge = (len(body) // block + 1) * block
        where = rng.choice((-2, -1, 0, None, None))
        if where is not None and edge + where >= len(body):
            body += b"x" * (edge + where - len(body)) + b"\r\n"
    body = bytes(body)
    n = rng.choice([len(body), len(body), len(body) - rng.randint(0, block),
                    len(body) + rng.choice((0, 0, 1, block))])
    n = max(n, 0)
    style = rng.choice(("blocking", "short", "short", "zeros"))
    shorts = []
    if style != "blocking":
        low = 0 if style == "zeros" else 1
        shorts = [rng.randint(low, rng.choice((2, block, block + 3)))
                  for _ in range(rng.randint(1, 40))]
    calls = []
    family = rng.choice(("lines", "lines16", "mixed", "mixed"))
    for _ in range(rng.randint(3, 30)):
        if family == "lines":
            calls.append(("readline", -1))
        elif family == "lines16":
            calls.append(("readline", 1 << 16))
        else:
            kind = rng.choice(("read", "readline"))
            calls.append((kind, rng.choice(
                (-1, -1, 0, 1, 2, 3, block - 1, block, block + 1,
                 2 * block + 1, 1 << 16))))
    return body, n, block, tuple(shorts), tuple(calls)


def production_block(rng):
    """block size near the production value (cached_size 65365); runs of
    equal bytes so that the Coq terms stay small"""
    block = rng.choice((65365, 65364, 65366, 32768))
    body = bytearray()
    for _ in range(rng.randint(2, 4)):
        for _ in range(rng.randint(1, 4)):
            body += bytes([rng.choice(b"abc\r\n")]) * rng.randint(1, block // 2)
        edge = (len(body) // block + 1) * block + rng.choice((-2, -1, 0, 5))
        if edge > len(body):
            body += b"y" * (edge - len(body))
        body += b"\r\n"
    body = bytes(body)
    n = len(body) - rng.choice((0, 0, 1, 2))
    shorts = tuple(rng.choice((1, 1460, 8192, block)) for _ in
                   range(rng.randint(0, 6)))
    calls = tuple(rng.choice((("readline", -1), ("readline", 1 << 16),
                              ("read", -1), ("read", 1000)))
                  for _ in range(rng.randint(4, 10)))
    return body, n, block, shorts, calls


def timeout_probe(ctx):
    """Outside the model: the path with a timeout configured.  A stream that
    ends before the declared length, a controlled clock (1 ms per time()
    call) and timeout=0.05: count the underlying reads of one readline."""
    from poorwsgi import request
    from poorwsgi.request import CachedInput
    ticks = [0]

    def clock():
        ticks[0] += 1
        return ticks[0] / 1000.0

    real = request.time
    request.time = clock
    try:
        for body, n, block, size, tmo in (
                (b"", 2, 1, -1, 0.05), (b"ab", 4, 8, -1, 0.05),
                (b"ab\r\ncd", 9, 3, 5, 0.05),
                # a zero timeout is a timeout too (the deadline is now)
                (b"ab", 4, 8, -1, 0), (b"ab\r\ncd", 8, 3, -1, 0.0)):
            stream = Stream(body, (), 100000)
            reader = CachedInput(stream, n, block, timeout=tmo)
            outcome, lines = "returned", []
            try:
                for _ in range(4):
                    stream.begin()
                    line = reader.readline(size)
                    lines.append(line)
                    if not line.endswith(b"\r\n"):
                        break
            except TimeoutError:
                outcome = "TimeoutError"
            except Spin:
                outcome = "more than 100000 reads"
            bound = (n if size < 0 else size) + 2
            ctx.case(("timeout", body, n, block, size, tmo))
            ctx.count("timeout probe: " + outcome)
            if outcome == "more than 100000 reads":
                # the deadline (50 ticks of the controlled clock) passed long
                # ago: the timeout itself no longer fires -- not the known
                # busy-wait, which ends with TimeoutError
                ctx.violation("timeout-never-fires", {
                    "body": body.decode("latin-1"), "n": n, "block": block,
                    "timeout": tmo, "clock": "1 ms per time() call",
                    "call": "readline(%d)" % size,
                    "underlying_reads_in_call": len(stream.log)})
            elif len(stream.log) > bound or outcome != "returned":
                ctx.violation("timeout-busy-wait-on-early-eof", {
                    "body": body.decode("latin-1"), "n": n, "block": block,
                    "timeout": 0.05, "clock": "1 ms per time() call",
                    "call": "readline(%d)" % size, "outcome": outcome,
                    "lines_before": [x.decode("latin-1") for x in lines],
                    "underlying_reads_in_call": len(stream.log),
                    "bound": bound})
    finally:
        request.time = real


def request_input_probe(ctx):
    """the reader as a handler gets it: whenever block caching is configured
    (cached_size > 0) and the body was not read into memory, req.input keeps
    the declared length whatever the sizes involved"""
    from implrun import new_app, environ, call
    body = b"line one\r\nline two\r\nrest of the body"
    trail = b"GET /next HTTP/1.1\r\n\r\n"
    plans = [[("read", -1)], [("readline", -1)] * 5,
             [("read", 4), ("readline", -1), ("read", -1)],
             [("readline", 3), ("read", 1000)], [("read", 1000)]]
    for n in (0, 1, 10, len(body) - 1, len(body)):
        for cached in (1, 7, n or 1, n + 1, n + 100, 65536):
            for auto_data, data_size in ((False, 32768), (True, max(0, n - 1)),
                                         (True, 0)):
                for plan in plans:
                    stream = Stream(body + trail, limit=SPIN_LIMIT_LONG)
                    got = []
                    app = new_app(auto_data=auto_data, data_size=data_size,
                                  cached_size=cached, auto_form=False,
                                  auto_json=False, read_timeout=None)

                    def handler(req, plan=plan, got=got, stream=stream):
                        for op, size in plan:
                            stream.call_reads = 0
                            got.append(getattr(req.input, op)(size))
                        return "ok"
                    app.set_route("/in", handler, 511)
                    env = environ(method="POST", path="/in",
                                  content_type="application/octet-stream",
                                  content_length=str(n))
                    env["wsgi.input"] = stream
                    ans = call(app, env)
                    det = {"declared": n, "cached_size": cached,
                           "auto_data": auto_data, "data_size": data_size,
                           "calls": plan, "returned": repr(got),
                           "consumed_from_stream": stream.pos,
                           "status": ans.status}
                    ctx.case(("request-input", n, cached, auto_data,
                              data_size, repr(plan)), True, None)
                    ctx.count("request-input")
                    data = b"".join(got)
                    if ans.code != 200 or stream.pos > n or \
                            data != body[:len(data)] or len(data) > n:
                        ctx.violation("request-input-ignores-length", det)


def run(ctx):
    marks = [("start", time.time())]

    def mark(name):
        marks.append((name, time.time()))
        ctx.notes.append("phase %s: %.1fs" %
                         (name, marks[-1][1] - marks[-2][1]))

    ctx.check_obligations()
    mark("obligations")
    quick = ctx.quick
    rng = ctx.rng
    cases = []
    hits_all = []

    def note_hits(hits):
        for key, _, det in hits:
            hits_all.append((key, det))

    # ---------------- the exhaustive grid of the property
    maxlen, blocks = (4, range(1, 5)) if quick else (6, range(1, 9))
    configs = [(b, n, k, ()) for b in bodies(maxlen) for n in declared(b)
               for k in blocks]
    # hostile streams on the small grid: short and momentarily empty reads
    for b in bodies(3 if quick else 4):
        for n in declared(b):
            for k in (1, 2, 3):
                configs.append((b, n, k, (1, 0, 1, 0, 0, 2, 1)))
    per_config = 2 if quick else 3
    jobs = [(c, rng.getrandbits(32), per_config)
            for c in chunks(configs, 200)]
    with multiprocessing.Pool(16) as pool:
        grid_cases = []
        for out in pool.imap(grid_chunk, jobs):
            ctx.count("grid configurations", out["configs"])
            ctx.count("grid (state, call) edges", out["edges"])
            for rel, cnt in out["dist"].items():
                ctx.count("edges " + rel, cnt)
            ctx.evaluations += out["edges"]
            note_hits(out["hits"])
            grid_cases.extend(out["cases"])
        # ---------------- readline-only histories (form parser)
        lmax = 6 if quick else 8
        lconfigs = [(b, n, k) for b in bodies(lmax) for n in declared(b)
                    for k in blocks]
        keep = (3000.0 if quick else 60000.0) / (2 * len(lconfigs))
        ljobs = [(c, rng.getrandbits(32), keep)
                 for c in chunks(lconfigs, 2000)]
        line_cases = []
        for out in pool.imap(lines_chunk, ljobs):
            ctx.count("readline-only histories", out["histories"])
            ctx.evaluations += out["histories"]
            note_hits(out["hits"])
            line_cases.extend(out["cases"])
    mark("exploration (monitor)")
    budget = 5000 if quick else 135000
    if len(grid_cases) > budget:
        grid_cases = rng.sample(grid_cases, budget)
    for payload in grid_cases + line_cases:
        body, n, block, shorts, calls = payload
        entries, _, _ = replay(body, n, block, shorts, calls)
        cases.append((term(body, n, block, shorts, calls),
                      expected(entries), payload + (entries,)))
        ctx.case(("h",) + payload, any(e and e[0] for e in entries),
                 describe(payload + (entries,)))

    # ---------------- random long bodies, short-reading streams
    long_cases = []
    for i in range(240 if quick else 4000):
        body, n, block, shorts, calls = random_long(rng, quick)
        long_cases.append((body, n, block, shorts, calls, SPIN_LIMIT_LONG))
    for i in range(3 if quick else 40):
        body, n, block, shorts, calls = production_block(rng)
        long_cases.append((body, n, block, shorts, calls, SPIN_LIMIT_LONG))
    for body, n, block, shorts, calls, limit in long_cases:
        entries, _, stream = replay(body, n, block, shorts, calls, limit)
        calls = calls[:len(entries)]
        payload = (body, n, block, shorts, calls)
        note_hits(monitor(body, n, block, shorts, calls, entries,
                          stream.pos >= len(body)))
        cases.append((term(body, n, block, shorts, calls, limit),
                      expected(entries), payload + (entries,)))
        ctx.count("long: " + ("blocking" if not shorts else
                              "zeros" if 0 in shorts else "short reads"))
        ctx.case(("long", body, n, block, shorts, calls), True)

    rng.shuffle(cases)       # spread the expensive long cases over the shards
    mark("case generation")
    ctx.correspondence("reader", IMPORTS, cases, describe)
    mark("correspondence (coqc)")
    timeout_probe(ctx)
    request_input_probe(ctx)

    # ---------------- verdict of the monitor
    seen_keys = {}
    for key, det in hits_all:
        seen_keys[key] = seen_keys.get(key, 0) + 1
        if seen_keys[key] <= 3:
            ctx.violation(key, det)
    for key, cnt in seen_keys.items():
        ctx.count("monitor hits: " + key, cnt)
    return ctx.finish(
        "every (reader state, call) edge over the six calls of the property "
        "for all bodies over {a,b,CR,LF} up to length %d, n in {len-1,len,"
        "len+2} (n>=0), blocks %d..%d, until two end-of-input reports; the "
        "readline(-1) and readline(65536) histories for all bodies up to "
        "length %d; random long bodies with CRLFs on block edges and short/"
        "momentarily empty reads; production block sizes.  A correspondence "
        "case is one whole history; it is non-trivial when some call "
        "returned bytes" % (maxlen, blocks[0], blocks[-1], lmax),
        assumptions=[
            "timeout=None: the clock-based TimeoutError exit of readline is "
            "outside the model; a call issuing more than %d (long bodies: "
            "%d) underlying reads is taken as spinning (model: OutOfFuel)"
            % (SPIN_LIMIT, SPIN_LIMIT_LONG),
            "declared length n >= 0 (a negative n makes the code call "
            "file.read(-1); outside the model)",
            "the underlying stream returns min(requested, short bound, "
            "rest) bytes and never raises"])
