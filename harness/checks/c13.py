"""C13 session cookies: obligations + correspondence (hidden with the real
SHA-512 digest as key stream; write/destroy/load/header state machine on
operation histories with the codec calls of the real code recorded and given
to the model as tables) + monitor written from the property text (round trip
through the Request cookie parser, attributes, destroy, rejection)."""
import base64
import bz2
import calendar
import gzip
import hashlib
import itertools
import json
import time
import zlib
from http.cookies import SimpleCookie

import implrun  # noqa: F401  (sets sys.path)
from implrun import new_app, environ
from core import Exn, slit, zlit, optz, zlist, blit, clist, to_v

IMPORTS = "Require Import PW.model.Session."
NOW = 1790000000          # frozen clock while a header is rendered


# ------------------------------------------------------------------ helpers
def hx(data):
    """list Z literal of a byte string / ASCII text: hex text decoded inside
    Coq (parsing one token per byte is what makes big case files slow)"""
    if isinstance(data, str):
        if not data.isascii():
            return slit(data)
        data = data.encode("ascii")
    elif not isinstance(data, (bytes, bytearray)):
        data = list(data)
        if any(not 0 <= x < 256 for x in data):
            return zlist(data)
        data = bytes(data)
    return '(hx "%s")' % bytes(data).hex()


def v_text(obj):
    """core.to_v with byte strings and ASCII text in hex.  Rendered here
    also because core.py runs as __main__: its to_v does not know the Exn
    class of the imported module."""
    if isinstance(obj, (bytes, bytearray)):
        return "(VY %s)" % hx(obj)
    if isinstance(obj, str):
        return "(VS %s)" % hx(obj)
    if isinstance(obj, (list, tuple)):
        return "(VL %s)" % clist(v_text(x) for x in obj)
    return to_v(obj)


class ZL:
    """a zlib-like object with the two methods the session needs"""
    @staticmethod
    def compress(data, compresslevel=9):
        return zlib.compress(bytes(data), compresslevel)

    @staticmethod
    def decompress(data):
        return zlib.decompress(bytes(data))


COMPRESS = {"bz2": bz2, "zlib-like": ZL, "none": None, "gzip": gzip,
            "zlib": zlib}


class Frozen:
    """http.cookies._getdate does `from time import time` at call time"""
    def __enter__(self):
        self.real = time.time
        time.time = lambda: float(NOW)

    def __exit__(self, *exc):
        time.time = self.real


def digest(secret):
    if isinstance(secret, bytes):
        return hashlib.sha512(secret).digest()
    return hashlib.sha512(secret.encode("utf-8")).digest()


def canon(obj):
    """J of the model: canonical JSON text of a Python object"""
    try:
        return json.dumps(obj, sort_keys=True)
    except Exception:                                   # noqa
        return "!" + repr(obj)


def parse_date(text):
    return calendar.timegm(time.strptime(text, "%a, %d %b %Y %H:%M:%S GMT"))


def split_header(val):
    """Set-Cookie value -> (name, raw value, [[attr, value], ...]) the way
    the model observes it (expires as offset from the frozen clock)"""
    parts = val.split("; ")
    name, coded = parts[0].split("=", 1)
    if len(coded) >= 2 and coded[0] == '"' and coded[-1] == '"':
        coded = coded[1:-1]
    attrs = []
    for part in parts[1:]:
        if "=" in part:
            key, text = part.split("=", 1)
            if key == "expires":
                attrs.append([key, parse_date(text) - NOW])
            elif key == "Max-Age":
                attrs.append([key, int(text)])
            else:
                attrs.append([key, text])
        else:
            attrs.append([part, True])
    return name, coded, attrs


def cookie_of(sid, raw):
    jar = SimpleCookie()
    jar[sid] = raw
    return jar


def truthy_text(val):
    return str(val) if val else ""


def py_xor(data, secret):
    key = digest(secret)
    return bytes(b ^ key[i % 64] for i, b in enumerate(data))


def make_value(data_bytes, secret, cps):
    """a cookie value built by the harness (not by the session)"""
    mod = COMPRESS[cps]
    masked = py_xor(data_bytes, secret)
    packed = masked if mod is None else mod.compress(masked, 9)
    return base64.b64encode(packed).decode()


# ------------------------------------------------------------------ recorder
class Recorder:
    """wraps the codec functions session.py calls; every call is logged as
    (input, output or None when it raised)"""
    def __init__(self, session, cps):
        self.session = session
        self.cps = cps
        self.mod = COMPRESS[cps]
        self.td, self.tl, self.tc, self.tdc, self.tb, self.tub = \
            [], [], [], [], [], []

    def _wrap(self, fun, table, key, out):
        def wrapper(*args, **kwargs):
            k = key(args[0])
            try:
                res = fun(*args, **kwargs)
            except Exception:                           # noqa
                table.append((k, None))
                raise
            table.append((k, out(res)))
            return res
        return wrapper

    def __enter__(self):
        ses = self.session
        self.saved = (ses.dumps, ses.loads, ses.b64encode, ses.b64decode)
        ses.dumps = self._wrap(self.saved[0], self.td,
                               lambda o: list(canon(o).encode()),
                               lambda s: list(s.encode("utf-8")))
        ses.loads = self._wrap(self.saved[1], self.tl,
                               lambda b: list(bytes(b)),
                               lambda o: list(canon(o).encode()))
        ses.b64encode = self._wrap(self.saved[2], self.tb,
                                   lambda b: list(bytes(b)),
                                   lambda b: list(b))
        ses.b64decode = self._wrap(
            self.saved[3], self.tub,
            lambda b: [ord(c) for c in bytes(b).decode("utf-8")],
            lambda b: list(bytes(b)))
        return self

    def __exit__(self, *exc):
        ses = self.session
        ses.dumps, ses.loads, ses.b64encode, ses.b64decode = self.saved

    def compress_arg(self):
        """object to pass as compress=...; None stays None (NoCompress)"""
        if self.mod is None:
            return None
        rec = self

        class Wrapped:
            compress = staticmethod(rec._wrap(
                rec.mod.compress, rec.tc, lambda b: list(bytes(b)),
                lambda b: list(bytes(b))))
            decompress = staticmethod(rec._wrap(
                rec.mod.decompress, rec.tdc, lambda b: list(bytes(b)),
                lambda b: list(bytes(b))))
        return Wrapped

    def tables(self):
        tc, tdc = self.tc, self.tdc
        if self.mod is None:
            # NoCompress is the identity: what reaches b64encode is what
            # compress was given; what b64decode returns is what decompress
            # returns
            tc = [(k, k) for k, _ in self.tb]
            tdc = [(v, v) for _, v in self.tub if v is not None]
        return [self.td, self.tl, tc, tdc, self.tb, self.tub]


def correspondence(ctx, name, cases, chunk=70, workers=14):
    """ctx.correspondence over small chunks run side by side: elaborating
    the byte-string literals of a case file costs Coq ~50us per byte, so the
    default 400-case shards of these cases take a minute each."""
    from concurrent.futures import ThreadPoolExecutor
    # the few huge cases first, one per file
    big = [c for c in cases if len(c[0]) > 40000]
    rest = [c for c in cases if len(c[0]) <= 40000]
    chunks = [[c] for c in big] + \
        [rest[k:k + chunk] for k in range(0, len(rest), chunk)]
    with ThreadPoolExecutor(max_workers=workers) as pool:
        jobs = [pool.submit(ctx.correspondence, "%s%03d" % (name, n), IMPORTS,
                            part, lambda p: p)
                for n, part in enumerate(chunks)]
        for job in jobs:
            job.result()


def tbl_lit(table):
    seen, out = set(), []
    for key, val in table:
        sig = tuple(key)
        if sig in seen:
            continue
        seen.add(sig)
        out.append("(%s, %s)" % (hx(key), "None" if val is None
                                 else "(Some %s)" % hx(val)))
    return clist(out)


# ------------------------------------------------------------------ history
def cfg_term(cfg):
    return "(mkcfg %s %s %s %s %s %s)" % (
        zlit(cfg.get("expires", 0)), optz(cfg.get("max_age")),
        slit(truthy_text(cfg.get("domain", ""))),
        slit(truthy_text(cfg.get("path", "/"))),
        blit(bool(cfg.get("secure", False))),
        slit(truthy_text(cfg.get("same_site", False))))


def run_history(session, secret, cps, sid, cfg, d0, ops):
    """ops: list of ("W",) ("D",) ("H",) ("L", raw-or-None, how) ("S", obj).
    Returns (observations, tables, final canon data)."""
    obs = []
    with Recorder(session, cps) as rec:
        kwargs = dict(cfg)
        kwargs["compress"] = rec.compress_arg()
        kwargs["sid"] = sid
        sess = session.PoorSession(secret, **kwargs)
        if d0 is not None:
            sess.data = d0
        for op in ops:
            try:
                if op[0] == "W":
                    obs.append(["wrote", sess.write()])
                elif op[0] == "D":
                    sess.destroy()
                    obs.append(None)
                elif op[0] == "S":
                    sess.data = op[1]
                    obs.append(None)
                elif op[0] == "H":
                    with Frozen():
                        pairs = sess.header()
                    if len(pairs) != 1 or pairs[0][0] != "Set-Cookie":
                        obs.append(Exn("BadHeaderShape"))
                        continue
                    name, raw, attrs = split_header(pairs[0][1])
                    if name != sid:
                        obs.append(Exn("BadCookieName"))
                        continue
                    obs.append(["header", raw, attrs])
                elif op[0] == "L":
                    before = sess.data
                    if op[2] == "nojar":
                        jar = None
                    elif op[2] == "noname":
                        jar = cookie_of("other" + sid, "x")
                    else:
                        jar = cookie_of(sid, op[1])
                    try:
                        sess.load(jar)
                    except session.SessionError:
                        obs.append(Exn("SessionError"))
                    else:
                        obs.append("loaded" if sess.data is not before
                                   else "skipped")
            except Exception:                           # noqa
                obs.append(Exn("Exception"))
        final = canon(sess.data)
        tables = rec.tables()
    return obs, tables, final


def op_term(op):
    if op[0] == "W":
        return "Write"
    if op[0] == "D":
        return "Destroy"
    if op[0] == "H":
        return "Header"
    if op[0] == "S":
        return "SetData %s" % hx(canon(op[1]))
    if op[2] in ("nojar", "noname"):
        return "Load None"
    return "Load (Some %s)" % hx(op[1])


def history_case(session, secret, cps, sid, cfg, d0, ops):
    obs, tables, final = run_history(session, secret, cps, sid, cfg, d0, ops)
    term = "run_hist %s (tcodec %s) %s %s %s" % (
        hx(digest(secret)), " ".join(tbl_lit(t) for t in tables),
        cfg_term(cfg), hx(canon({} if d0 is None else d0)),
        clist(op_term(op) for op in ops))
    payload = {"secret": repr(secret), "compress": cps, "sid": sid,
               "config": cfg, "data": canon({} if d0 is None else d0),
               "ops": [[repr(x)[:80] for x in op] for op in ops],
               "observed": repr(obs + [final])[:600]}
    return term, v_text(obs + [final]), payload


# ------------------------------------------------------------------ generators
ALPHA = "abcxyz0189 _-\"\\/\n\t{}[],:éčž中文\U0001f600"


def rnd_text(rng, lo=0, hi=12):
    return "".join(rng.choice(ALPHA) for _ in range(rng.randint(lo, hi)))


# text that merely looks like a value of another type stays text
LOOKALIKES = ["2024-05-01T12:30:00", "2023-12-31T23:59:59.123456",
              "2024-05-01", "12:30:00", "1970-01-01T00:00:00Z", "true",
              "null", "NaN", "Infinity", "-0", "1e5", "0x10", "[1, 2]",
              '{"a": 1}', "b'bytes'", "aGVsbG8=", "\\u0041",
              "550e8400-e29b-41d4-a716-446655440000", "1.0", "007", " 1 "]


def rnd_scalar(rng):
    kind = rng.randrange(9)
    if kind == 8:
        return rng.choice(LOOKALIKES)
    if kind == 0:
        return None
    if kind == 1:
        return rng.random() < 0.5
    if kind == 2:
        return rng.randint(-10 ** 6, 10 ** 6)
    if kind == 3:
        return rng.choice([0, -1, 2 ** 63, -2 ** 70, 10 ** 30])
    if kind == 4:
        return rng.choice([0.5, -1.25, 1e100, 3.141592653589793, 1e-7, 0.0])
    return rnd_text(rng, 0, 40 if kind == 7 else 10)


def rnd_value(rng, depth):
    if depth <= 0 or rng.random() < 0.5:
        return rnd_scalar(rng)
    if rng.random() < 0.5:
        return [rnd_value(rng, depth - 1) for _ in range(rng.randint(0, 4))]
    return {rnd_text(rng, 0, 8): rnd_value(rng, depth - 1)
            for _ in range(rng.randint(0, 4))}


def rnd_dict(rng, target):
    """JSON dictionary, depth <= 3, serialised size close to target bytes"""
    out = {}
    if target <= 2:
        return out
    while len(json.dumps(out)) < target:
        key = rnd_text(rng, 0, 8)
        val = rnd_value(rng, 2)
        out[key] = val
        if len(json.dumps(out)) > 5000:
            del out[key]
            room = 5000 - len(json.dumps(out)) - 12
            if room > 0:
                out["pad"] = "p" * min(room, max(0, target
                                                 - len(json.dumps(out)) - 12))
            break
    return out


def rnd_secret(rng, as_bytes=None, lo=1, hi=128):
    size = rng.choice([lo, 2, 8, 16, 32, 64, hi, rng.randint(lo, hi)])
    if as_bytes is None:
        as_bytes = rng.random() < 0.5
    if as_bytes:
        return rng.randbytes(size)
    return "".join(rng.choice("abcXYZ019 !éž中\U0001f600")
                   for _ in range(size))


ATTR_VALUES = {
    "expires": [3600, -5, 86400 * 365],
    "max_age": [100, 0, 31536000],
    "domain": ["example.net", ".example.org"],
    "path": ["/application", "/a/b/"],
    "secure": [True],
    "same_site": ["Strict", "Lax", "None", True],
}
ATTR_OFF = {"expires": 0, "max_age": None, "domain": "", "path": "",
            "secure": False, "same_site": False}


def attr_subsets(rng):
    names = sorted(ATTR_VALUES)
    for mask in range(1 << len(names)):
        cfg = {}
        for i, name in enumerate(names):
            if mask >> i & 1:
                cfg[name] = rng.choice(ATTR_VALUES[name])
            elif name == "path":
                # absent from the subset: either the default '/' or off
                if rng.random() < 0.5:
                    cfg[name] = ""
            elif rng.random() < 0.3:
                cfg[name] = ATTR_OFF[name]
        yield cfg


SIDS = ["SESSID", "MYSID", "sid-1", "a.b_c", "S"]


# ------------------------------------------------------------------ the check
def run(ctx):
    from poorwsgi import session
    from poorwsgi.request import Request
    from poorwsgi.headers import Headers
    rng = ctx.rng
    phases = ctx.extra.setdefault("phase_seconds", {})
    mark = [time.time()]

    def phase(name):
        phases[name] = round(time.time() - mark[0], 1)
        mark[0] = time.time()
    ctx.check_obligations()
    phase("obligations")

    # ---------------- corpus: replay of the defect of the design round
    import probes
    for prop, key, fun in probes.PROBES:
        if prop == "C13":
            hit, detail = fun()
            ctx.case(("probe", key))
            if hit:
                ctx.violation(key, {"probe": key, "detail": detail})

    # ================= correspondence 1: hidden
    cases = []
    sizes = [0, 1, 2, 63, 64, 65, 127, 128, 129, 200, 1000, 5000]
    if not ctx.quick:
        sizes += [3, 7, 31, 32, 33, 191, 192, 193, 256, 2500, 4999]
    for rep in range(12 if ctx.quick else 40):
        for size in sizes:
            if ctx.quick and size >= 1000 and rep >= 2:
                continue
            secret = rnd_secret(rng)
            if rng.random() < 0.3:
                text = rnd_text(rng, size, size)        # str path of hidden
                data = text.encode("utf-8")
            else:
                text = data = rng.randbytes(size)
            got = bytes(session.hidden(text, secret))
            cases.append(("run_hidden %s %s" % (hx(digest(secret)), hx(data)),
                          v_text(got),
                          {"fn": "hidden", "secret": repr(secret),
                                "text": repr(text)[:200]}))
            ctx.count("hidden:%s-secret" % type(secret).__name__)
    phase("hidden-impl")
    correspondence(ctx, "hidden", cases, chunk=12)
    phase("hidden-coq")
    for term, exp, payload in cases:
        ctx.case(("hidden", payload["secret"], payload["text"]), True)

    # ================= correspondence 2: histories
    cases = []
    cps_names = ["bz2", "zlib-like", "none"]
    configs = list(attr_subsets(rng))
    small = [{"a": 1}, {"user": "žofka", "n": [1, 2, {"x": None}]},
             {}, {"kéy": "v" * 30, "t": True},
             {"since": "2024-05-01T12:30:00", "flag": "true", "n": "1e5",
              "in": {"at": "2023-12-31T23:59:59.123456"}}]

    def load_pool(secret, cps, sid):
        other = rnd_secret(rng)
        valid = make_value(json.dumps(rng.choice(small[:2])).encode(),
                           secret, cps)
        return {
            "v": ("L", valid, "valid"),
            "f": ("L", make_value(b'{"a": 1, "b": "foreign-secret"}', other,
                                  cps), "foreign"),
            "n": ("L", make_value(rng.choice([b"[1, 2]", b'"text"', b"17",
                                              b"null"]), secret, cps),
                  "nondict"),
            "t": ("L", valid[:rng.randint(1, len(valid) - 1)], "truncated"),
            "g": ("L", rng.choice(["garbage", "čé中", "====",
                                   "\ud800", "e30=", "AAAA", " "]),
                  "garbage"),
            "e": ("L", "", "empty"),
            "x": rng.choice([("L", None, "nojar"), ("L", None, "noname")]),
        }

    def add_history(letters, cfg=None, cps=None):
        secret = rnd_secret(rng, hi=40)
        cps = cps or rng.choice(cps_names)
        sid = rng.choice(SIDS)
        cfg = rng.choice(configs) if cfg is None else cfg
        pool = load_pool(secret, cps, sid)
        d0 = rng.choice(small + [None])
        ops = []
        for ch in letters:
            if ch in "WDH":
                ops.append((ch,))
            elif ch == "S":
                ops.append(("S", rng.choice(
                    small + [[1, 2], {"bad": {1, 2}}]
                    if rng.random() < 0.2 else small)))
            else:
                ops.append(pool[ch])
        cases.append(history_case(session, secret, cps, sid, cfg, d0, ops))
        ctx.count("hist:len%d" % len(letters))
        ctx.count("hist:%s" % cps)

    alphabet = "WDHvfnS" + "x"
    for n in range(0, 4 if ctx.quick else 5):
        for letters in itertools.product(alphabet, repeat=n):
            add_history(letters)
    # every attribute subset, destroy in all positions
    for cfg in configs:
        for letters in (["H", "DH", "HDH", "vDH", "DvH", "WDWH"]
                        if not ctx.quick else
                        [rng.choice(["H", "DH"]),
                         rng.choice(["HDH", "vDH", "DvH", "WDWH"])]):
            add_history(letters, cfg=cfg)
    # random longer ones over the full alphabet (hostile loads included)
    for _ in range(250 if ctx.quick else 4000):
        n = rng.randint(4, 6 if ctx.quick else 8)
        add_history([rng.choice("WDHvfntgexS") for _ in range(n)])
    # a few with large data
    for size in ([600, 5000] if ctx.quick else [300, 600, 1200, 2500, 5000]):
        for cps in ([rng.choice(cps_names)] if ctx.quick and size > 1000
                    else cps_names):
            secret = rnd_secret(rng)
            big = rnd_dict(rng, size)
            raw = make_value(json.dumps(big).encode(), secret, cps)
            cases.append(history_case(
                session, secret, cps, "SESSID", {"expires": 60}, big,
                [("H",), ("L", raw, "valid"), ("D",), ("H",)]))
            ctx.count("hist:large")
    phase("history-impl")
    correspondence(ctx, "history", cases)
    phase("history-coq")
    for term, exp, payload in cases:
        ctx.case(("hist", payload["compress"], repr(payload["config"]),
                  repr(payload["ops"])), True,
                 {"history": payload["ops"], "config": payload["config"],
                  "impl": payload["observed"][:200]})

    # ================= monitor (from the property text)
    app = new_app()

    def request_cookies(header_value):
        env = environ(headers={"Cookie": header_value},
                      extra={"REQUEST_STARTTIME": time.time()})
        return Request(env, app).cookies

    def emitted(sess, via=None):
        """the Set-Cookie value of sess.header(), optionally through a
        Headers object as the applications do"""
        if via is None:
            pairs = sess.header()
        else:
            hdrs = Headers([("X-Test", "1")])   # header() tests `if headers:`
            pairs = sess.header(hdrs)
            got = [v for k, v in hdrs.items() if k == "Set-Cookie"]
            if got != [v for _, v in pairs]:
                ctx.violation("header-not-added", {"pairs": repr(pairs),
                                                   "headers": repr(got)})
        if len(pairs) != 1 or pairs[0][0] != "Set-Cookie":
            ctx.violation("header-shape", {"pairs": repr(pairs)})
        return pairs[0][1]

    def try_load(sess, jar):
        """'ok' | 'SessionError' | other exception class name"""
        try:
            sess.load(jar)
        except session.SessionError:
            return "SessionError"
        except BaseException as err:                    # noqa
            return type(err).__name__
        return "ok"

    # ---- assumptions of the theorems (codec laws) on the real codecs
    for cps in COMPRESS:
        mod = COMPRESS[cps] or session.NoCompress
        for _ in range(30 if ctx.quick else 200):
            blob = rng.randbytes(rng.choice([1, 2, 3, 10, 100, 3000]))
            packed = mod.compress(blob, 9)
            text = base64.b64encode(packed).decode()
            okay = bytes(mod.decompress(packed)) == blob and packed and \
                text and base64.b64decode(text.encode()) == packed
            ctx.case(("law", cps, blob[:16]), True)
            if not okay:
                ctx.violation("assumption-codec-law",
                              {"compress": cps, "blob": blob.hex()})

    # ---- round trip through the real Cookie header parser
    n_rt = 250 if ctx.quick else 3000
    targets = [2, 3, 16, 40, 100, 400, 1000, 2500, 4000, 5000]
    attr_cycle = itertools.cycle(configs)
    for i in range(n_rt):
        target = targets[i % len(targets)] if i < 4 * len(targets) \
            else rng.choice(targets + [rng.randint(2, 5000)])
        data = rnd_dict(rng, target)
        size = len(json.dumps(data))
        secret = rnd_secret(rng)
        cps = rng.choice(list(COMPRESS))
        sid = rng.choice(SIDS)
        cfg = next(attr_cycle)
        kwargs = dict(cfg, compress=COMPRESS[cps], sid=sid)
        sess = session.PoorSession(secret, **kwargs)
        sess.data = json.loads(json.dumps(data))
        before = time.time()
        val = emitted(sess, via=(i % 3 == 0) or None)
        after = time.time()
        ctx.count("roundtrip:%s" % cps)
        ctx.count("roundtrip:size<=%d" % next(t for t in targets
                                              if size <= t))
        detail = {"secret": repr(secret), "compress": cps, "sid": sid,
                  "config": cfg, "data": json.dumps(data),
                  "set_cookie": val[:300]}
        # what the browser sends back: the name=value pair
        jar = request_cookies(val.split(";", 1)[0])
        back = session.PoorSession(secret, compress=COMPRESS[cps], sid=sid)
        res = try_load(back, jar)
        ctx.case(("rt", i, size, cps), size > 2,
                 {"roundtrip": detail["data"][:120], "compress": cps,
                  "secret": repr(secret)[:40], "config": cfg})
        if res != "ok":
            ctx.violation("roundtrip-load-fails", dict(detail, outcome=res))
        elif back.data != data:
            ctx.violation("roundtrip-data-differs",
                          dict(detail, restored=repr(back.data)[:300]))
        # ---- attributes as configured (parsed by the stdlib, not by hand)
        got = SimpleCookie()
        got.load(val)
        if sid not in got:
            ctx.violation("set-cookie-unparsable", detail)
            continue
        mrs = got[sid]
        want = {
            "httponly": True,
            "path": truthy_text(cfg.get("path", "/")),
            "domain": truthy_text(cfg.get("domain", "")),
            "secure": True if cfg.get("secure") else "",
            "samesite": truthy_text(cfg.get("same_site", "")),
            "max-age": "" if cfg.get("max_age") is None
            else str(cfg["max_age"]),
        }
        bad = {k: [mrs[k], w] for k, w in want.items() if mrs[k] != w}
        exp = cfg.get("expires", 0)
        if exp:
            try:
                when = parse_date(mrs["expires"])
                if not before - 1 + exp <= when <= after + 1 + exp:
                    bad["expires"] = [mrs["expires"], exp]
            except ValueError:
                bad["expires"] = [mrs["expires"], exp]
        elif mrs["expires"] != "":
            bad["expires"] = [mrs["expires"], exp]
        if bad:
            ctx.violation("attributes-not-as-configured",
                          dict(detail, wrong=bad))

        # ---- rejection: foreign secret, for payloads of >= 16 bytes
        if size >= 16:
            other = rnd_secret(rng, as_bytes=isinstance(secret, bytes)
                               if rng.random() < 0.5 else None)
            if digest(other) != digest(secret):
                fsess = session.PoorSession(other, compress=COMPRESS[cps],
                                            sid=sid)
                res = try_load(fsess, jar)
                ctx.case(("foreign", i), True)
                ctx.count("reject:foreign-secret")
                if res not in ("ok", "SessionError"):
                    ctx.violation("load-other-exception", dict(
                        detail, other=repr(other), outcome=res))
                elif res == "ok" and fsess.data == data:
                    ctx.violation("foreign-secret-restores",
                                  dict(detail, other=repr(other)))

        # ---- rejection: every proper prefix of the value
        raw = jar[sid].value
        if data and (len(raw) <= 600 or i % 25 == 0 or not ctx.quick
                     and i % 5 == 0):
            for cut in range(len(raw)):
                psess = session.PoorSession(secret, compress=COMPRESS[cps],
                                            sid=sid)
                res = try_load(psess, cookie_of(sid, raw[:cut]))
                if res not in ("ok", "SessionError"):
                    ctx.violation("load-other-exception", dict(
                        detail, value=raw[:cut], outcome=res))
                elif res == "ok" and psess.data == data:
                    ctx.violation("truncated-value-restores",
                                  dict(detail, cut=cut))
            ctx.case(("prefixes", i, len(raw)), True)
            ctx.count("reject:prefixes", len(raw))
            # a truncated header through the request parser as well
            cut = rng.randint(0, len(raw))
            jar2 = request_cookies('%s=%s' % (sid, val.split(";", 1)[0]
                                              .split("=", 1)[1][:cut]))
            psess = session.PoorSession(secret, compress=COMPRESS[cps],
                                        sid=sid)
            res = try_load(psess, jar2)
            if res not in ("ok", "SessionError"):
                ctx.violation("load-other-exception", dict(
                    detail, cut_header=cut, outcome=res))
            elif res == "ok" and psess.data == data and cut < len(raw):
                ctx.violation("truncated-value-restores",
                              dict(detail, cut_header=cut))

    phase("monitor-roundtrip")
    # ---- rejection: arbitrary text and valid base64 of random bytes
    n_junk = 1500 if ctx.quick else 20000
    deep = "[" * 100000 + "]" * 100000
    for i in range(n_junk):
        secret = rnd_secret(rng, hi=32)
        cps = rng.choice(list(COMPRESS))
        kind = i % 6
        if kind == 0:
            raw, bucket = rnd_text(rng, 1, 60), "arbitrary-text"
        elif kind == 1:
            raw = base64.b64encode(rng.randbytes(rng.randint(0, 200))) \
                .decode()
            bucket = "base64-of-random-bytes"
        elif kind == 2:
            raw = "".join(chr(rng.choice([rng.randint(1, 255),
                                          rng.randint(256, 0x2fff),
                                          rng.randint(0xd800, 0xdfff),
                                          rng.randint(0x10000, 0x10ffff)]))
                          for _ in range(rng.randint(1, 30)))
            bucket = "arbitrary-unicode"
        elif kind == 3:
            # well-formed up to the last step: valid JSON that is no dict
            text = rng.choice([b"[1, 2]", b'"s"', b"1", b"null", b"true",
                               b"[{}]", b"1.5", b"", b"{", b'{"a":}',
                               b"\xff\xfe", b"NaN"])
            raw, bucket = make_value(text, secret, cps), "valid-non-dict"
        elif kind == 4:
            # right base64, right compression, wrong mask
            other = rnd_secret(rng)
            while digest(other) == digest(secret):
                other = rnd_secret(rng)
            raw = make_value(b'{"user": "admin", "id": 1234567}', other, cps)
            bucket = "foreign-built"
        else:
            raw = rng.choice([
                "=", "A", "AA=", "A===", "!!!!", "\x00", " ", "e30",
                make_value(deep.encode(), secret, "none")
                if i % 120 == 5 else "QlpoOQ==",
                base64.b64encode(bz2.compress(b"x" * 10)[:-4]).decode(),
                base64.b64encode(zlib.compress(b"y" * 50)[:-3]).decode()])
            bucket = "malformed"
            if len(raw) > 1000:
                cps = "none"
        sess = session.PoorSession(secret, compress=COMPRESS[cps])
        sess.data = {"mine": 1}
        res = try_load(sess, cookie_of("SESSID", raw))
        ctx.case(("junk", bucket, raw[:80], cps), True)
        ctx.count("reject:%s" % bucket)
        ctx.count("reject-outcome:%s" % res)
        if res not in ("ok", "SessionError"):
            ctx.violation("load-other-exception", {
                "secret": repr(secret), "compress": cps,
                "value": raw[:300], "outcome": res})
        elif res == "ok" and not isinstance(sess.data, dict):
            ctx.violation("non-dict-accepted", {
                "secret": repr(secret), "compress": cps, "value": raw[:300],
                "data": repr(sess.data)[:100]})
        elif res == "ok" and bucket == "foreign-built" and \
                sess.data == {"user": "admin", "id": 1234567}:
            ctx.violation("foreign-secret-restores", {
                "secret": repr(secret), "compress": cps, "value": raw})

    phase("monitor-junk")
    # ---- destroy: an already expired cookie, in all four orders, with and
    #      without Expires / Max-Age
    orders = ["D", "LD", "DL", "WD", "HD", "DW", "LDL", "DD"]
    for exp, age in itertools.product([None, 3600, 86400 * 400, -7],
                                      [None, 100, 0, 31536000]):
        for order in orders:
            for cps in ("bz2", "none"):
                secret = rnd_secret(rng, hi=16)
                cfg = {}
                if exp is not None:
                    cfg["expires"] = exp
                if age is not None:
                    cfg["max_age"] = age
                if rng.random() < 0.5:
                    cfg["secure"] = True
                valid = make_value(b'{"login": "x"}', secret, cps)
                sess = session.PoorSession(secret, compress=COMPRESS[cps],
                                           **cfg)
                sess.data = {"login": "x"}
                for ch in order:
                    if ch == "D":
                        sess.destroy()
                    elif ch == "L":
                        try_load(sess, cookie_of("SESSID", valid))
                    elif ch == "W":
                        sess.write()
                    else:
                        sess.header()
                val = emitted(sess)
                now = time.time()
                got = SimpleCookie()
                got.load(val)
                mrs = got["SESSID"] if "SESSID" in got else None
                ctx.case(("destroy", exp, age, order, cps), True,
                         {"destroy": order, "expires": exp, "max_age": age,
                          "set_cookie": val[-90:]})
                ctx.count("destroy:%s" % order)
                problems = []
                if mrs is None:
                    problems.append("unparsable")
                else:
                    try:
                        if not parse_date(mrs["expires"]) < now:
                            problems.append("expires in the future")
                    except ValueError:
                        problems.append("no expires date")
                    # Max-Age has precedence over Expires in the browser
                    if mrs["max-age"] != "":
                        try:
                            if int(mrs["max-age"]) > 0:
                                problems.append("positive Max-Age")
                        except ValueError:
                            problems.append("bad Max-Age")
                    if age is not None and mrs["max-age"] == "":
                        problems.append("configured Max-Age missing")
                    if mrs["httponly"] is not True:
                        problems.append("no HttpOnly")
                if problems:
                    key = "destroy-not-expired-when-expires-configured" \
                        if (exp or age is not None) and \
                        set(problems) <= {"expires in the future",
                                          "positive Max-Age"} \
                        else "destroy-not-expired"
                    ctx.violation(key, {
                        "secret": repr(secret), "compress": cps,
                        "config": cfg, "order": order, "set_cookie": val,
                        "problems": problems})

    phase("monitor-destroy")
    return ctx.finish(
        "hidden: random secrets (str/bytes, 1..128) x texts of sizes on and "
        "around multiples of 64 up to 5000; histories: every sequence over "
        "{write, destroy, header, load valid/foreign/non-dict/absent, "
        "set-data} up to length 3 (thorough: 4) with a configuration drawn "
        "from the 64 attribute subsets and compress in {bz2, zlib-like, "
        "none}, every attribute subset with destroy before/after "
        "load/write/header, random histories of length 4..8 with truncated/"
        "garbage/empty loads, large dictionaries; monitor: random JSON "
        "dictionaries of depth <= 3 with non-ASCII text and serialised size "
        "2..5000 through the real Request cookie parser, foreign secret, "
        "every prefix, arbitrary text, base64 of random bytes, crafted "
        "non-dictionaries, destroy orders x Expires x Max-Age. A case is "
        "distinct by its inputs; round trips of {} are counted trivial.",
        assumptions=[
            "codec laws (hypotheses codec_laws/codec_total/json_roundtrips "
            "of the theorems): b64decode inverts b64encode, decompress "
            "inverts compress, both map non-empty to non-empty and do not "
            "raise on bytes; json.loads(json.dumps(d)) == d for the "
            "dictionary (sampled by the monitor)",
            "K is the SHA-512 digest of the secret (64 bytes); SHA-512 is "
            "outside the model",
            "that bytes differing from the serialised text never decode to "
            "an equal dictionary is not proved (theorem "
            "C13_foreign_secret_never_restores_partial); checked by the "
            "monitor",
            "the rendering of an int expires as the date now+expires by "
            "http.cookies is observed under a frozen clock, the model keeps "
            "the offset"])
