"""C20 diagnostic detail only when debug is on: obligations + correspondence
(effective flag; the 500 page rebuilt by the model from the literal chunks of
the current source) + monitor with secret tokens at every failure site."""
import ast
import itertools
import os
import shutil
import tempfile

import implrun  # noqa: F401
from implrun import new_app, environ, call, REPO
from core import slit, clist, blit

IMPORTS = "Require Import PW.model.Debug."
TOKEN = "S3CR3T-T0K3N"
OVERRIDES = [None, "", "On", "on", "ON", "oN", "Off", "off", "OFF", "yes",
             " on", "1", "true",
             # parts and neighbours of the word: only the whole word counts
             "o", "n", "N", "O", "onn", "no", "of", "0", "false"]


def opt(s):
    return "None" if s is None else "(Some %s)" % slit(s)


def spec_effective(attr, override):
    """written from the property text"""
    if override:
        return override.lower() == "on"
    return attr


def page500_literals():
    """literal chunks of results.internal_server_error, in source order"""
    src = open(os.path.join(REPO, "poorwsgi", "results.py")).read()
    tree = ast.parse(src)
    fun = [n for n in tree.body if isinstance(n, ast.FunctionDef)
           and n.name == "internal_server_error"][0]
    writes = []
    for node in ast.walk(fun):
        if isinstance(node, ast.Call) and \
                isinstance(node.func, ast.Attribute) and \
                node.func.attr == "write":
            writes.append(node)
    writes.sort(key=lambda n: (n.lineno, n.col_offset))
    chunks = []
    for call_ in writes:
        arg = call_.args[0]
        if isinstance(arg, ast.BinOp) and isinstance(arg.op, ast.Mod):
            arg = arg.left
        if isinstance(arg, ast.Constant):
            chunks.append(arg.value.split("%s"))
        elif isinstance(arg, ast.JoinedStr):
            parts, cur = [], ""
            for val in arg.values:
                if isinstance(val, ast.Constant):
                    cur += val.value
                else:
                    parts.append(cur)
                    cur = ""
            parts.append(cur)
            chunks.append(parts)
        else:
            raise ValueError("unexpected write argument at line %d"
                             % call_.lineno)
    return chunks


def lits_term(chunks):
    """map the chunks onto model/Debug.v [lits]; fail closed on any shape
    change of the function"""
    if [len(c) for c in chunks] != [1, 9, 1, 3, 3, 2, 1]:
        raise ValueError("internal_server_error changed shape: %r"
                         % [len(c) for c in chunks])
    head, det, tbh, span, on, off, foot = chunks
    # det: rh, ra, me, uri, rule, hd, '.', '(', ')...' -> handler text is
    # module + det[6] + name + det[7] + args ; det[8] starts with ')'
    fields = [head[0], det[0], det[1], det[2], det[3], det[4], det[5],
              det[8], tbh[0], span[0] + "0" + span[1], span[0] + "1" + span[1],
              span[2], on[0], on[1], on[2], off[0], off[1], foot[0]]
    return "(mkLits %s)" % " ".join(slit(f) for f in fields), det


def run(ctx):
    from poorwsgi.request import SimpleRequest
    from poorwsgi.response import abort
    import poorwsgi.results as results
    ctx.check_obligations()
    rng = ctx.rng
    cases = []
    saved_env = os.environ.get("poor_Debug")
    tmp = tempfile.mkdtemp(prefix="c20_", dir="/root/scratch")
    os.makedirs(os.path.join(tmp, "root", "sub"))
    try:
        # ------------------------------------------------ effective flag
        for attr in (None, True, False):
            for via_os in (False, True):
                for ov, other in itertools.product(OVERRIDES, [None, "On",
                                                               "Off"]):
                    env = environ()
                    env["REQUEST_STARTTIME"] = 0.0
                    os.environ.pop("poor_Debug", None)
                    # ov = value in the source that counts, other = value in
                    # the source that must be ignored
                    if via_os:
                        env["uwsgi.version"] = "2.0"
                        if ov is not None:
                            os.environ["poor_Debug"] = ov
                        if other is not None:
                            env["poor_Debug"] = other
                    else:
                        if ov is not None:
                            env["poor_Debug"] = ov
                        if other is not None:
                            os.environ["poor_Debug"] = other
                    # the application is built in the same process
                    # environment its requests run in
                    app = new_app()
                    if attr is not None:
                        app.debug = attr
                    got = SimpleRequest(env, app).debug
                    os.environ.pop("poor_Debug", None)
                    eattr = bool(attr)
                    e_ov, o_ov = (other, ov) if via_os else (ov, other)
                    cases.append((
                        "run_effective %s false %s %s %s" % (
                            blit(via_os), opt(e_ov), opt(o_ov), blit(eattr)),
                        bool(got), ["effective", attr, via_os, ov, other]))
                    ctx.case(("eff", attr, via_os, ov, other), ov is not None,
                             {"attr": attr, "via_os": via_os, "override": ov,
                              "ignored_source": other, "debug": got})
                    ctx.count("effective")
                    if bool(got) is not spec_effective(eattr, ov):
                        ctx.violation("effective-debug-wrong", {
                            "attr": attr, "via_os_environ": via_os,
                            "override": ov, "other_source": other,
                            "got": got})
        # ------------------------------------------------ 500 page text
        try:
            lterm, det = lits_term(page500_literals())
        except ValueError as err:
            ctx.unproved("correspondence page500 (source shape)",
                         {"error": str(err)})
            lterm = None
        recorded = {}
        real_fe = results.format_exception

        def fake_fe(*args):
            out = real_fe(*args)
            recorded["tb"] = "".join(out).split("\n")
            return out
        results.format_exception = fake_fe
        try:
            for debug in (False, True):
                for host in ("example.org", "<b>&\"'"):
                    app = new_app(debug=debug)

                    def secret_endpoint_fn(req):
                        raise RuntimeError(TOKEN + " <tag> & \"q\"")
                    app.set_route("/boom", secret_endpoint_fn)
                    ans = call(app, environ(path="/boom",
                                            headers={"Host": host},
                                            extra={"REMOTE_HOST": "rh"}))
                    if lterm is None or ans.body is None:
                        continue
                    admin = "webmaster@" + host
                    if not debug:
                        cases.append((
                            "run_page500_off %s %s %s" % (
                                lterm, slit("verif"), slit(admin)),
                            ans.body.decode("utf-8"), ["page500-off", host]))
                    else:
                        handler = "%s%s%s%s%s" % (
                            secret_endpoint_fn.__module__, det[6],
                            secret_endpoint_fn.__name__, det[7], "req")
                        diag = "(mkDiag %s %s %s %s %s %s %s)" % (
                            slit("rh"), slit("127.0.0.1"), slit("GET"),
                            slit("/boom"), slit("/boom"), slit(handler),
                            clist(slit(x) for x in recorded["tb"]))
                        cases.append((
                            "VS (page500 %s true %s %s %s)" % (
                                lterm, slit("verif"), slit(admin), diag),
                            ans.body.decode("utf-8"), ["page500-on", host]))
        finally:
            results.format_exception = real_fe
        ctx.correspondence("debug", IMPORTS, cases, lambda p: p)

        # ------------------------------------------------ monitor
        sites = ["construct", "construct-json", "before", "endpoint", "status",
                 "after", "stream-first", "stream-mid"]
        methods = ["GET", "HEAD", "POST", "PUT", "DELETE", "PATCH",
                   "OPTIONS", "TRACE", "CONNECT"]
        combos = list(itertools.product((None, True, False), OVERRIDES,
                                        (False, True), sites))
        if ctx.quick:
            combos = rng.sample(combos, 160)
        with open(os.path.join(tmp, "root", "sub", "f.txt"), "w") as fil:
            fil.write("x")
        EXC = [RuntimeError, NotImplementedError, PermissionError,
               TimeoutError, KeyError, ArithmeticError, FileNotFoundError,
               AssertionError, StopIteration, LookupError,
               # the two classes the request cycle answers with silence
               ConnectionResetError, BrokenPipeError, SystemExit]
        plan = [combo + (rng.choice(EXC + [RuntimeError]),)
                for combo in combos]
        # every class at every site once with debug plainly off and on
        for cls in EXC:
            for site in ("before", "endpoint", "status", "after",
                         "stream-mid"):
                plan.append((False, None, False, site, cls))
                if not ctx.quick or cls is not RuntimeError:
                    plan.append((None, "On", False, site, cls))
        for attr, ov, via_os, site, exc_cls in plan:
            eff = spec_effective(bool(attr), ov)
            method = rng.choice(methods)

            # the failure may be of any class (also ones that read like a
            # status: NotImplementedError, PermissionError, TimeoutError)
            def build():
                # on a plain server the process environment says nothing
                # about debug: a stray value there (left by a shell or
                # another service) is ignored when the application is built
                # and when it answers
                if not via_os:
                    os.environ["poor_Debug"] = "On" if not eff else "Off"
                app = new_app()
                os.environ.pop("poor_Debug", None)
                if attr is not None:
                    app.debug = attr

                def module_internal_handler_fn(req):
                    if site == "endpoint":
                        raise exc_cls(TOKEN)
                    if site == "status":
                        abort(404)
                    if site in ("stream-first", "stream-mid"):
                        # the failure happens while the server iterates the
                        # body: nothing about it may be written to the client
                        def module_internal_stream_fn():
                            if site == "stream-mid":
                                yield b"first chunk"
                            raise exc_cls(TOKEN)
                            yield b"never"
                        return module_internal_stream_fn()
                    return "fine"
                app.set_route("/boom", module_internal_handler_fn, 511)
                if site == "before":
                    def hook_b(req):
                        raise exc_cls(TOKEN)
                    app.add_before_response(hook_b)
                if site == "after":
                    def hook_a(req, res):
                        raise exc_cls(TOKEN)
                    app.add_after_response(hook_a)
                if site == "status":
                    def nf(req, *a, **k):
                        raise exc_cls(TOKEN)
                    app.set_http_state(404, nf, 511)
                return app

            def env_for(path, **kw):
                # what the client says it accepts must not change what an
                # error page discloses
                accept = rng.choice([None, "application/json", "text/html",
                                     "application/json, */*;q=0.1", "*/*"])
                if accept is not None:
                    kw["headers"] = dict(kw.get("headers") or {},
                                         Accept=accept)
                env = environ(method=method, path=path, **kw)
                os.environ.pop("poor_Debug", None)
                if via_os:
                    env["uwsgi.version"] = "2.0"
                    if ov is not None:
                        os.environ["poor_Debug"] = ov
                    env["poor_Debug"] = "On" if not eff else "Off"
                else:
                    if ov is not None:
                        env["poor_Debug"] = ov
                    os.environ["poor_Debug"] = "On" if not eff else "Off"
                return env
            kw = {}
            if site == "construct":
                kw = {"content_length": TOKEN}
            elif site == "construct-json":
                # the decoding error names the charset: unknown encoding TOKEN
                method = "POST"
                kw = {"body": b'{"a": 1}',
                      "content_type": "application/json; charset=" + TOKEN}
            app0 = build()
            ans = call(app0, env_for("/boom", **kw))
            os.environ.pop("poor_Debug", None)
            body = ans.body or b""
            detail = {"attr": attr, "override": ov, "via_os_environ": via_os,
                      "site": site, "method": method, "effective": eff,
                      "raises": exc_cls.__name__, "status": ans.status}
            ctx.case(("mon", attr, ov, via_os, site, method), True, detail)
            ctx.count("site=%s/%s" % (site, "on" if eff else "off"))
            if ans.raised is not None:
                ctx.violation("exception-escaped", dict(
                    detail, exc=repr(ans.raised)))
                continue
            leaks = [w for w in (TOKEN.encode(), b"Traceback",
                                 b"RuntimeError", exc_cls.__name__.encode(),
                                 b"module_internal_handler_fn", b"hook_b",
                                 b"hook_a", b"wsgi.input", b"SERVER_SOFTWARE",
                                 b"checks.c20") if w in body]
            if not eff and leaks:
                ctx.violation("detail-disclosed-with-debug-off",
                              dict(detail, leaked=[x.decode() for x in leaks]))
            if eff and ans.code == 500 and TOKEN.encode() not in body \
                    and method != "HEAD":
                ctx.violation("debug-on-hides-traceback", detail)
            # /debug-info versus an unknown path, with and without a
            # document root (two dispatch sites), and a directory
            for with_root in (False, True):
                apps = [build(), build()]
                if with_root:
                    for app in apps:
                        app.document_root = os.path.join(tmp, "root")
                m2 = method if not with_root else rng.choice(["GET", "HEAD"])
                env_a, env_b = env_for("/debug-info"), \
                    env_for("/no-such-path-xyz")
                env_a["REQUEST_METHOD"] = env_b["REQUEST_METHOD"] = m2
                r_dbg = call(apps[0], env_a)
                r_unk = call(apps[1], env_b)
                os.environ.pop("poor_Debug", None)
                if site in ("before", "after"):
                    continue
                if not eff and (r_dbg.code != r_unk.code or
                                b"Poor Wsgi Debug" in (r_dbg.body or b"")):
                    ctx.violation("debug-info-reachable-with-debug-off",
                                  dict(detail, document_root=with_root,
                                       method2=m2, debug_info=r_dbg.status,
                                       unknown=r_unk.status))
                if eff and r_dbg.code != 200:
                    ctx.violation("debug-info-unreachable-with-debug-on",
                                  dict(detail, document_root=with_root,
                                       debug_info=r_dbg.status))
            app = build()
            app.document_root = os.path.join(tmp, "root")
            app.document_index = True
            a_dir = call(app, env_for("/sub"))
            os.environ.pop("poor_Debug", None)
            if not eff and a_dir.body and \
                    any(w in a_dir.body for w in (b"Traceback", b"wsgi.input",
                                                  TOKEN.encode())):
                ctx.violation("detail-disclosed-with-debug-off",
                              dict(detail, page="directory"))
        # ------------------------------------------------ histories: an
        # override belongs to its request; the next request of the same
        # application is judged by its own override or the attribute
        hist = [None, "On", None, "", "Off", None, "oN", "off", None, "On",
                "0", None]
        fresh = new_app(document_root=os.path.join(tmp, "root"),
                        document_index=True)
        listing_off = call(fresh, environ(path="/sub")).body
        for attr in (None, False, True):
            app = new_app()
            if attr is not None:
                app.debug = attr
            # built-in pages that are the same for every request with debug
            # off must not remember a request that had it on
            app.document_root = os.path.join(tmp, "root")
            app.document_index = True

            def failing(req):
                raise RuntimeError(TOKEN)
            app.set_route("/boom", failing, 511)
            for step, ov in enumerate(hist):
                extra = {} if ov is None else {"poor_Debug": ov}
                eff = spec_effective(bool(attr), ov)
                boom = call(app, environ(path="/boom", extra=extra))
                dbg = call(app, environ(path="/debug-info", extra=extra))
                unk = call(app, environ(path="/no-such-path", extra=extra))
                det = {"attr": attr, "history": hist[:step + 1],
                       "override_of_this_request": ov, "effective": eff,
                       "status_500": boom.status, "debug_info": dbg.status}
                ctx.case(("history", attr, step), step > 0, det)
                ctx.count("history")
                leak = TOKEN.encode() in (boom.body or b"")
                page = b"Poor Wsgi Debug" in (dbg.body or b"")
                if leak != eff or page != eff or \
                        (not eff and dbg.code != unk.code):
                    ctx.violation("override-outlives-its-request", det)
                lst = call(app, environ(path="/sub", extra=extra))
                if not eff and lst.body != listing_off:
                    ctx.violation("override-outlives-its-request", dict(
                        det, page="directory listing differs from the one "
                        "of a fresh application with debug off",
                        listing=(lst.body or b"")[-300:].decode("latin-1")))
        # a page first rendered for a request with debug on, then asked
        # again with debug off (same application, same address): the second
        # answer says nothing a debug-off page does not say
        for n, first_on in enumerate(("attribute", "override")):
            name = "hist%d" % n
            os.makedirs(os.path.join(tmp, "root", name))
            with open(os.path.join(tmp, "root", name, "f.txt"), "w") as fil:
                fil.write("x")
            app = new_app(document_root=os.path.join(tmp, "root"),
                          document_index=True)
            soft = "srvsoft-%s/9.9" % TOKEN
            for method in ("GET", "HEAD", "GET"):
                env_on = environ(method=method, path="/" + name)
                env_off = environ(method=method, path="/" + name)
                env_on["SERVER_SOFTWARE"] = env_off["SERVER_SOFTWARE"] = soft
                if first_on == "attribute":
                    app.debug = True
                    env_off["poor_Debug"] = "Off"
                else:
                    app.debug = False
                    env_on["poor_Debug"] = "On"
                on = call(app, env_on)
                off = call(app, env_off)
                det = {"page": "directory listing", "debug_on_by": first_on,
                       "method": method, "first": on.status,
                       "second": off.status}
                ctx.case(("on-then-off", first_on, method, n), True, det)
                ctx.count("history")
                body = off.body or b""
                if soft.encode() in body or b"Poor WSGI for Python" in body:
                    ctx.violation("override-outlives-its-request", dict(
                        det, tail=body[-200:].decode("latin-1")))
    finally:
        os.environ.pop("poor_Debug", None)
        if saved_env is not None:
            os.environ["poor_Debug"] = saved_env
        shutil.rmtree(tmp, ignore_errors=True)
    return ctx.finish(
        "effective flag: attribute {default,True,False} x override from %d "
        "texts x source {request environ, process environ} x a conflicting "
        "value in the other source (exhaustive); 500 page rebuilt by the "
        "model from the literal chunks of the current results.py for debug "
        "on/off; monitor: failures carrying a secret token at {request "
        "construction, before hook, endpoint, status handler, after hook} x "
        "the same flag grid x methods (the construction failure also "
        "through an unknown JSON charset carrying the token), /debug-info vs "
        "unknown path with and without a document root, directory listing" % len(OVERRIDES),
        assumptions=["str.lower() is modelled for ASCII letters",
                     "literal text of the 500 page is a parameter of the "
                     "theorem and is taken from the source on every run"])
