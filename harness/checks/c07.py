"""C07 byte ranges: obligations + correspondence of model/Range.v with
response.py on the property's grid + RFC 9110 slice oracle."""
import io
import itertools
import os
import tempfile

import implrun  # noqa: F401
from implrun import new_app, environ, call
from core import slit, optz, zlit, clist

IMPORTS = "Require Import PW.model.Range."
SCRATCH = "/root/scratch"


def rng_term(r):
    return "(%s,%s)" % (optz(r[0]), optz(r[1]))


def ranges_term(rs):
    return clist(rng_term(r) for r in rs)


def compositions(n, with_empty, rng, limit):
    """chunk-length lists summing to n (all when few, else sampled)"""
    out = []
    if n <= 6:
        for mask in range(1 << max(0, n - 1)):
            parts, cur = [], 1
            for i in range(n - 1):
                if mask >> i & 1:
                    parts.append(cur)
                    cur = 1
                else:
                    cur += 1
            out.append(parts + [cur] if n else [])
    else:
        for _ in range(limit):
            cuts = sorted(rng.sample(range(1, n), rng.randint(0, min(5, n - 1))))
            out.append([b - a for a, b in zip([0] + cuts, cuts + [n])])
    if with_empty:
        extra = []
        for parts in out[:limit]:
            parts = list(parts)
            for _ in range(rng.randint(1, 2)):
                parts.insert(rng.randint(0, len(parts)), 0)
            extra.append(parts)
        out += extra
    if len(out) > limit:
        out = rng.sample(out, limit)
    return out or [[]]


def oracle(L, ranges):
    """RFC 9110: (status, first, last) for the first consistent range"""
    usable = [r for r in ranges
              if not (r[0] is not None and r[1] is not None and r[1] < r[0])]
    if not usable:
        return (200, None, None)
    first, last = usable[0]
    if first is None:
        if last == 0 or L == 0:
            return (416, None, None)
        return (206, max(0, L - last), L - 1)
    if first >= L:
        return (416, None, None)
    return (206, first, L - 1 if last is None else min(last, L - 1))


def observe(ans, chunks=False):
    body = ans.body
    out = [ans.code, ans.header("Content-Range"), ans.header("Content-Length")]
    out.append([bytes(c) for c in ans.chunks] if chunks else body)
    return out


def run(ctx):
    from poorwsgi.response import Response, FileObjResponse, FileResponse, \
        GeneratorResponse
    from poorwsgi.headers import parse_range
    ctx.check_obligations()
    rng = ctx.rng
    maxL = 6 if ctx.quick else 12
    cases = []
    tmpdir = tempfile.mkdtemp(prefix="c07_", dir=SCRATCH)
    cur = {}
    app = new_app()

    @app.route("/r")
    def handler(req):
        kind, data, ranges, extra = cur["k"]
        if kind == "buf":
            res = Response(data)
        elif kind == "bufw":
            # buffer filled by a write history of str (UTF-8) and bytes
            res = Response(extra[0])
            for piece in extra[1:]:
                if piece is None:
                    _ = res.data        # reading the buffer in between
                else:
                    res.write(piece)
        elif kind == "bytesio":
            fobj = io.BytesIO(data)
            fobj.seek(extra)
            res = FileObjResponse(fobj)
        elif kind == "realfile":
            fobj = open(cur["path"], "rb")
            fobj.seek(extra)
            res = FileObjResponse(fobj)
        elif kind == "path":
            res = FileResponse(cur["path"])
        elif kind == "gen":
            chunks = []
            ofs = 0
            for size in extra:
                chunks.append(data[ofs:ofs + size])
                ofs += size
            res = GeneratorResponse(iter(chunks), content_length=len(data))
        elif kind == "e2e":
            res = Response(data)
            if "Range" in req.headers:
                ranges = parse_range(req.headers["Range"]).get("bytes", [])
        if cur.get("declare"):
            # the handler declares the full length itself, any letter case
            res.add_header(cur["declare"], str(len(data)))
        res.make_partial(ranges)
        return res

    class UwsgiWrapper:
        """uWSGI's wrapper: an object with a working descriptor is sent by
        sendfile, whole and from offset 0, whatever the Python-level file
        position is; anything else is read in blocks"""
        def __init__(self, filelike, blksize=8192):
            self.filelike, self.blksize = filelike, blksize

        def __iter__(self):
            try:
                fd = self.filelike.fileno()
            except (AttributeError, OSError):
                return iter(lambda: self.filelike.read(self.blksize), b"")
            size = os.fstat(fd).st_size
            return iter([os.pread(fd, size, 0)] if size else [])

        def close(self):
            if hasattr(self.filelike, "close"):
                self.filelike.close()

    class FileWrapper:
        """what a server installs as wsgi.file_wrapper"""
        def __init__(self, filelike, blksize=8192):
            self.filelike, self.blksize = filelike, blksize

        def __iter__(self):
            return iter(lambda: self.filelike.read(self.blksize), b"")

        def close(self):
            if hasattr(self.filelike, "close"):
                self.filelike.close()

    def enc(piece):
        return piece.encode("utf-8") if isinstance(piece, str) else piece

    def one(kind, data, ranges, extra=None, hdr=None, declare=None):
        cur["k"] = (kind, data, ranges, extra)
        cur["declare"] = declare
        if kind in ("realfile", "path"):
            cur["path"] = os.path.join(tmpdir, "f%d.bin" % len(data))
            with open(cur["path"], "wb") as fil:
                fil.write(data)
        env_extra = {}
        if kind in ("bytesio", "realfile", "path"):
            # server variants: plain, with a file wrapper, uWSGI (which
            # must not use the wrapper for partial answers)
            variant = rng.choice(["plain", "wrapper", "wrapper", "uwsgi"])
            ctx.count("server=" + variant)
            if variant != "plain":
                env_extra["wsgi.file_wrapper"] = FileWrapper
            if variant == "uwsgi":
                env_extra["uwsgi.version"] = b"2.0"
                # with sendfile semantics when the object is served from
                # its beginning (the framework must keep partial answers
                # away from such a wrapper); what uWSGI does with an object
                # positioned elsewhere is not emulated
                if not extra:
                    env_extra["wsgi.file_wrapper"] = UwsgiWrapper
        env = environ(path="/r", headers=hdr, extra=env_extra)
        if "uwsgi.version" in env_extra:
            del env["SERVER_SOFTWARE"]      # uWSGI does not set it
        ans = call(app, env)
        if ans.raised or ans.iter_raised or len(ans.calls) != 1:
            ctx.violation("emission-failed", {
                "kind": kind, "L": len(data), "ranges": ranges,
                "extra": extra, "answer": ans.summary()})
            return
        L = len(data)
        offset = extra if kind in ("bytesio", "realfile") else 0
        repr_ = data[offset:]
        # ---- correspondence case (the model has no handler-declared
        # length header: those cases are for the oracle below only)
        if declare:
            pass
        elif kind == "gen":
            term = "run_generator %s %s %s" % (
                clist(slit(data[sum(extra[:i]):sum(extra[:i + 1])])
                      for i in range(len(extra))), zlit(L),
                ranges_term(ranges))
            cases.append((term, observe(ans, True),
                          [kind, L, ranges, extra]))
        elif kind in ("bytesio", "realfile"):
            term = "run_fileobj %s %s %s" % (slit(data), zlit(offset),
                                            ranges_term(ranges))
            cases.append((term, observe(ans), [kind, L, ranges, extra]))
        elif kind == "bufw":
            term = "run_response %s %s %s" % (
                slit(enc(extra[0])),
                clist("None" if x is None else "(Some %s)" % slit(enc(x))
                      for x in extra[1:]),
                ranges_term(ranges))
            cases.append((term, observe(ans),
                          [kind, L, ranges, [repr(x) for x in extra]]))
        else:
            term = "run_response %s [] %s" % (slit(data), ranges_term(ranges))
            cases.append((term, observe(ans), [kind, L, ranges, extra]))
        # ---- monitor: RFC 9110 oracle
        status, first, last = oracle(len(repr_), ranges)
        ctx.case((kind, L, tuple(ranges), str(extra)), bool(ranges),
                 {"kind": kind, "L": L, "ranges": ranges, "extra": extra,
                  "status": ans.code})
        ctx.count("%s/%s" % (kind, status))
        bad = None
        if ans.code != status:
            bad = "status %s, expected %s" % (ans.code, status)
        elif status == 206:
            want = repr_[first:last + 1]
            if ans.body != want:
                bad = "body %r, expected %r" % (ans.body[:40], want[:40])
            elif ans.header("Content-Range") != "bytes %d-%d/%d" % (
                    first, last, len(repr_)):
                bad = "Content-Range %r" % ans.header("Content-Range")
            elif ans.header("Content-Length") != str(len(want)):
                bad = "Content-Length %r" % ans.header("Content-Length")
        elif status == 200:
            if ans.body != repr_:
                bad = "full body expected"
            elif ans.header("Content-Range") is not None:
                bad = "Content-Range on 200"
        clens = [v for k, v in ans.headers if k.lower() == "content-length"]
        if not bad and status in (200, 206) and (
                len(clens) > 1 or clens and clens[0] != str(len(ans.body))):
            bad = "Content-Length headers %r for %d body bytes" % (
                clens, len(ans.body))
        if bad:
            ctx.violation("rfc9110", {"kind": kind, "L": L, "ranges": ranges,
                                      "extra": repr(extra)[:200],
                                      "offset": offset, "declared": declare,
                                      "what": bad})

    try:
        for L in range(0, maxL + 1):
            data = bytes((48 + i % 75) for i in range(L))
            vals = [None] + list(range(0, L + 3))
            singles = [(f, l) for f in vals for l in vals
                       if not (f is None and l is None)]
            if ctx.quick and L > 4:
                singles = rng.sample(singles, 40)
            for r in singles:
                one("buf", data, [r])
                one("bytesio", data, [r], 0)
                if L:
                    one("bytesio", data, [r], rng.randint(1, L))
                for parts in compositions(L, True, rng,
                                          2 if ctx.quick else 6):
                    one("gen", data, [r], parts)
                if not ctx.quick or rng.random() < 0.15:
                    one("realfile", data, [r], rng.randint(0, L))
                    if L:   # FileResponse refuses nothing, but mime by name
                        one("path", data, [r])
                hdr = "bytes=%s-%s" % ("" if r[0] is None else r[0],
                                       "" if r[1] is None else r[1])
                one("e2e", data, [r], hdr={"Range": hdr})
            # write histories with multi-byte text; lengths declared by
            # the handler under any spelling of the header name
            pieces = ["\u010ce\u0161tina", b"\xff\x00", "\u20ac", "ab", b"",
                      "\U0001f600"]
            for r in (singles if not ctx.quick else rng.sample(
                    singles, min(len(singles), 12))):
                hist = [rng.choice(pieces)
                        for _ in range(rng.randint(1, 4))]
                if rng.random() < 0.3:
                    hist.insert(rng.randint(1, len(hist)), None)
                whole = b"".join(enc(x) for x in hist if x is not None)
                one("bufw", whole, [r], hist)
                spell = rng.choice(["Content-Length", "content-length",
                                    "CONTENT-LENGTH", "Content-length"])
                one("buf", data, [r], declare=spell)
                one("gen", data, [r], compositions(L, True, rng, 1)[0],
                    declare=spell)
            # positions with more digits than their neighbour (9-10, 2-10):
            # numbers, not digit strings
            if L == maxL:
                big = bytes((48 + i % 75) for i in range(13))
                for first, last in ((9, 10), (2, 10), (5, 12), (9, 12),
                                    (10, 11), (99, 100), (9, None)):
                    hdr = "bytes=%d-%s" % (first,
                                           "" if last is None else last)
                    one("e2e", big, [(first, last)], hdr={"Range": hdr})
                # positions are numbers of any size, with or without
                # leading zeros
                for (first, last), hdr in (
                        ((3, 10 ** 20), "bytes=3-1" + "0" * 20),
                        ((None, 10 ** 20), "bytes=-1" + "0" * 20),
                        ((10 ** 20, None), "bytes=1" + "0" * 20 + "-"),
                        ((2, 5), "bytes=2-" + "0" * 19 + "5"),
                        ((2, 5), "bytes=" + "0" * 25 + "2-5"),
                        ((0, 2 ** 63), "bytes=0-%d" % 2 ** 63)):
                    one("e2e", big, [(first, last)], hdr={"Range": hdr})
            # range lists of length 0 and 2
            one("buf", data, [])
            one("gen", data, [], compositions(L, False, rng, 1)[0])
            one("bytesio", data, [], min(L, 2))
            for _ in range(10 if ctx.quick else 60):
                pair = [rng.choice(singles), rng.choice(singles)]
                one(rng.choice(["buf", "bytesio"]), data, pair, 0)
                one("gen", data, pair, compositions(L, True, rng, 1)[0])
                # the same list as a client writes it: optional white space
                # around the commas (RFC 9110 5.6.1)
                spec = ["%s-%s" % ("" if f is None else f,
                                   "" if l is None else l) for f, l in pair]
                sep = rng.choice([",", ", ", " , ", ",\t", " ,"])
                one("e2e", data, pair, hdr={"Range": "bytes=" +
                                            sep.join(spec)})
        # random large
        for _ in range(20 if ctx.quick else 300):
            L = rng.choice([1, 2, 100, 1000, 65536, 10 ** 5]) \
                if ctx.quick else rng.randint(1, 10 ** 6)
            L = min(L, 3000)       # model side literal size; see rule
            data = bytes(rng.randrange(256) for _ in range(L))
            near = [0, 1, L - 2, L - 1, L, L + 1, rng.randrange(L)]
            f = rng.choice([None] + near)
            l = rng.choice([None] + near)
            if f is None and l is None:
                continue
            if f is not None and f < 0 or l is not None and l < 0:
                continue
            kind = rng.choice(["buf", "bytesio", "gen"])
            extra = 0 if kind == "bytesio" else \
                compositions(L, True, rng, 1)[0]
            one(kind, data, [(f, l)], extra)
        # an application with its own 416 page for some methods only: the
        # answer to an unsatisfiable range is 416 for every method,
        # whichever pages are registered
        for mask in (None, 2, 1, 4, 511):
            app2 = new_app()
            if mask is not None:
                app2.set_http_state(
                    416, lambda req, *a, **k: ("own 416 page", "text/plain",
                                               None, 416), mask)

            def ranged(req):
                res = Response(b"0123456789")
                res.make_partial(parse_range(
                    req.headers.get("Range", "")).get("bytes", []))
                return res
            app2.set_route("/r", ranged, 511)
            for method in ("GET", "HEAD", "POST"):
                for hdr, sat in (("bytes=10-", False), ("bytes=-0", False),
                                 ("bytes=99-100", False), ("bytes=2-3", True)):
                    ans = call(app2, environ(method=method, path="/r",
                                             headers={"Range": hdr}))
                    ctx.case(("own-416", mask, method, hdr), True, None)
                    ctx.count("own-416-page")
                    good = ans.code == 206 and ans.body == b"23" if sat \
                        else ans.code == 416
                    if ans.raised or not good:
                        ctx.violation("unsatisfiable-range-answer", {
                            "own_416_page_mask": mask, "method": method,
                            "Range": hdr, "answer": ans.summary()})
        ctx.correspondence("range", IMPORTS, cases, lambda p: p)
    finally:
        import shutil
        shutil.rmtree(tmpdir, ignore_errors=True)
    return ctx.finish(
        "exhaustive grid L in 0..%d, first/last in {absent}+0..L+2, kinds "
        "buf/buffer built by write histories of multi-byte str and bytes/"
        "BytesIO(offset 0 and >0)/real file/path/generator(all or sampled "
        "compositions incl. empty chunks)/end-to-end Range header, range "
        "lists of length 0-2, full length pre-declared by the handler under four "
        "spellings of Content-Length; random L<=3000 near 0,L-1,L; a case is "
        "distinct by (kind,L,ranges,chunking/offset) and non-trivial when a "
        "range is present" % maxL,
        assumptions=["io.BytesIO / file seek+read semantics as modelled "
                     "(ztake/zdrop)"])
