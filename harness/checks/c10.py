"""C10 query / form / JSON data reach handlers exactly as sent.

obligations (coq/props/C10.v) + correspondence (coq/model/QueryForm.v vs a
real Request built by Application.__call__: req.args / req.form / req.json
with the accessor trio, CPython's quote_plus/urlencode/parse_qsl/UTF-8
decoder, and the list of reads issued on an instrumented wsgi.input) +
monitor (reference multimap, JSON equality, header table, byte counter and
the 400 rule, all written from the property text)."""
import io
import itertools
import json
import urllib.parse

import implrun  # noqa: F401  (sets sys.path)
from implrun import new_app, environ, call
from core import Exn, slit, zlit, clist, blit, to_v

IMPORTS = "Require Import PW.model.QueryForm."

ATOMS = ["a", "b", "k1", "key", "v", " ", "&", "=", "+", "%", "\xe9",
         "ž", "€", "\U0001f600", "", "a b", "a&b", "x=y", "1+1",
         "100%", "%41", "%zz", "\xe4 \xf6", "\xa0", "~-._", "/?#:;",
         "日本", "߿ࠀ", "퟿", "\U00010000",
         "\U0010ffff", "\x7f\x80"]
KEYS = ["a", "b", "", " ", "&", "=", "+", "%", "\xe9", "k ey", "\U0001f600",
        "a=b&c", "k1"]
ABSENT = "absent-key"
TRAIL = b"GET /next HTTP/1.1\r\nHost: following.example\r\n\r\n"
URLENC = "application/x-www-form-urlencoded"
MULTI = "multipart/form-data; boundary=BnD"
JSON_TYPES = ["application/json", "application/javascript",
              "application/merge-patch+json"]


# ------------------------------------------------------------ generators
def gen_text(rng):
    r = rng.random()
    if r < 0.6:
        return rng.choice(ATOMS)
    return "".join(rng.choice(ATOMS) for _ in range(rng.randrange(0, 4)))


def gen_pairs(rng, n):
    out = []
    for _ in range(n):
        key = rng.choice(KEYS) if rng.random() < 0.75 else gen_text(rng)
        val = "" if rng.random() < 0.2 else gen_text(rng)
        out.append((key, val))
    # the same key with the very same value again (equal short strings are
    # one object in CPython: identity must not stand in for position)
    while out and rng.random() < 0.35:
        out.insert(rng.randrange(len(out) + 1), rng.choice(out))
    return out


def alt_bytes(rng, data, style):
    out = []
    for byte in data:
        lit_ok = 33 <= byte < 127 and byte not in b"%&+="
        r = rng.random()
        if style == "pct":
            r = 1.0
        if byte == 32 and r < 0.5:
            out.append("+")
        elif lit_ok and r < 0.5:
            out.append(chr(byte))
        else:
            hexa = "%02X" % byte
            out.append("%" + "".join(
                c.lower() if rng.random() < 0.5 else c for c in hexa))
    return "".join(out)


def alt_encode(rng, pairs, style):
    """another legal encoding of the same pairs: %XX in both cases for any
    byte, '+' or %20 for a space, visible ASCII literal, empty pieces"""
    parts = [alt_bytes(rng, k.encode("utf-8"), style) + "=" +
             alt_bytes(rng, v.encode("utf-8"), style) for k, v in pairs]
    if style == "mix" and parts and rng.random() < 0.3:
        parts.insert(rng.randrange(len(parts) + 1), "")
    return "&".join(parts)


HOSTILE_BITS = ["%", "%4", "%zz", "%C3", "%c3%a9", "%E2%82", "%ED%A0%80",
                "%F4%90%80%80", "%C0%AF", "%FF", "%41", "%2", "=", "==", "&",
                "&&", ";", "+", " ", "\t", "\n", "a", "b", "k", "\xe9",
                "€", "\xa0", "　", "%25", "%26", "%3D", "%2B",
                "%00", "\x00", "%e2%82%ac", "%F0%9F%98%80", "%f0%9f",
                "\x85", " ", "%80", "%BF%41"]


def gen_hostile(rng):
    return "".join(rng.choice(HOSTILE_BITS)
                   for _ in range(rng.randrange(0, 9)))


HOSTILE_BYTES = [b"\xc3", b"\xa9", b"\xe2\x82", b"\xff", b"\xed\xa0\x80",
                 b"\xf0\x9f\x98\x80", b"\xf4\x90", b"\xc0\xaf", b"\xe0\x80",
                 b"\x80", b"\xc3\xa9"]


def gen_hostile_body(rng):
    out = b""
    for _ in range(rng.randrange(1, 9)):
        if rng.random() < 0.25:
            out += rng.choice(HOSTILE_BYTES)
        else:
            out += rng.choice(HOSTILE_BITS).encode("utf-8")
    return out or b"%"


JSON_SCALARS = [None, True, False, 0, 1, -7, 2 ** 40, 1.5, "", "a",
                "\xe9ž", "€ \U0001f600", "a\"b\\c\n", "k"]
JSON_KEYS = ["k", "a", "", "\xe9", "k ey", "\U0001f600", "list", "none"]


def gen_json(rng, depth):
    r = rng.random()
    if depth == 0 or r < 0.3:
        return rng.choice(JSON_SCALARS)
    if r < 0.65:
        return [gen_json(rng, depth - 1) for _ in range(rng.randrange(0, 4))]
    return {rng.choice(JSON_KEYS): gen_json(rng, depth - 1)
            for _ in range(rng.randrange(0, 4))}


def json_depth(val):
    if isinstance(val, list):
        return 1 + max([json_depth(x) for x in val] or [0])
    if isinstance(val, dict):
        return 1 + max([json_depth(x) for x in val.values()] or [0])
    return 0


# ---------------------------------------------------------------- Coq terms
def pairs_t(pairs):
    return clist("(%s,%s)" % (slit(k), slit(v)) for k, v in pairs)


def keys_t(keys):
    return clist(slit(k) for k in keys)


def jterm(val):
    if val is None:
        return "JNull"
    if isinstance(val, bool):
        return "(JBool %s)" % blit(val)
    if isinstance(val, int):
        return "(JInt %s)" % zlit(val)
    if isinstance(val, float):
        return "(JFlt %s)" % slit(repr(val))
    if isinstance(val, str):
        return "(JStr %s)" % slit(val)
    if isinstance(val, list):
        return "(JArr %s)" % clist(jterm(x) for x in val)
    if isinstance(val, dict):
        return "(JObj %s)" % clist("(%s,%s)" % (slit(k), jterm(v))
                                   for k, v in val.items())
    raise TypeError(repr(val))


class Default:
    """sentinel default handed to getvalue/getfirst"""


DEFAULT = Default()


def jv(val):
    """V text of a value seen by the handler (dict/list tagged)"""
    if isinstance(val, Exn):
        return '(VX "%s")' % val.name
    if val is DEFAULT:
        return '(VX "default")'
    if val is None:
        return "VN"
    if isinstance(val, bool):
        return "(VB %s)" % blit(val)
    if isinstance(val, int):
        return "(VZ %s)" % zlit(val)
    if isinstance(val, float):
        return '(VL [(VX "float");(VS %s)])' % slit(repr(val))
    if isinstance(val, str):
        return "(VS %s)" % slit(val)
    if isinstance(val, list):
        return "(VL %s)" % clist(['(VX "list")'] + [jv(x) for x in val])
    if isinstance(val, dict):
        return "(VL %s)" % clist(
            ['(VX "dict")'] + ["(VL [%s;%s])" % (jv(k), jv(v))
                               for k, v in val.items()])
    return '(VX "unrenderable:%s")' % type(val).__name__


# ------------------------------------------------------- instrumented input
class RecInput:
    """wsgi.input that records every request and holds the bytes of a
    following request after the body"""
    def __init__(self, data):
        self.data = data
        self.pos = 0
        self.log = []           # (op, requested, returned)

    def read(self, size=-1):
        if size is None:
            size = -1
        end = len(self.data) if size < 0 else min(len(self.data),
                                                  self.pos + size)
        out = self.data[self.pos:end]
        self.pos = end
        self.log.append(("read", size, len(out)))
        return out

    def readline(self, size=-1):
        if size is None:
            size = -1
        end = self.data.find(b"\n", self.pos)
        end = len(self.data) if end < 0 else end + 1
        if size >= 0:
            end = min(end, self.pos + size)
        out = self.data[self.pos:end]
        self.pos = end
        self.log.append(("readline", size, len(out)))
        return out

    def readlines(self, hint=-1):
        out = []
        while True:
            line = self.readline()
            if not line:
                return out
            out.append(line)

    def __iter__(self):
        return iter(self.readlines())


def canon_log(log, cached_multi, clen):
    """reads as requested sizes; every run of readline calls -> 'lines';
    a line parser working through CachedInput -> ('cached', length) provided
    no request exceeded the remaining declared length"""
    if cached_multi:
        left = clen
        for op, size, got in log:
            if op != "read" or (clen >= 0 and size > left):
                return [Exn("over-budget")]
            left -= got
        return [(Exn("cached"), clen)]
    out = []
    for op, size, got in log:
        if op == "readline":
            if not out or not isinstance(out[-1], Exn):
                out.append(Exn("lines"))
        else:
            out.append(size)
    return out


# ---------------------------------------------------------------- the app
class Probe:
    """one Application whose switches are set per request and whose handler
    records what the property observes"""
    def __init__(self, extra_form=()):
        self.app = new_app()
        for mime in extra_form:
            self.app.form_mime_types.append(mime)
        self.seen = None
        self.keys = []
        self.hdr_names = []
        app = self.app

        @app.route("/", method=511)
        def handler(req):
            self.seen = self.observe(req)
            return "ok"

    @staticmethod
    def trio(obj, key, sentinel=False):
        out = []
        for name in ("getvalue", "getfirst", "getlist"):
            try:
                if sentinel and name != "getlist":
                    out.append(getattr(obj, name)(key, DEFAULT))
                else:
                    out.append(getattr(obj, name)(key))
            except Exception as err:  # noqa
                out.append(Exn(type(err).__name__))
        return out

    def observe(self, req):
        seen = {"ran": True}
        args = req.args
        seen["args_type"] = type(args).__name__
        seen["args"] = dict(args)
        seen["args_trio"] = [self.trio(args, k) for k in self.keys]
        form = req.form
        seen["form_type"] = type(form).__name__
        if hasattr(form, "list"):
            seen["form"] = [(f.name, f.value) for f in form.list]
        else:
            seen["form"] = None
        seen["form_trio"] = [self.trio(form, k) for k in self.keys]
        js = req.json
        seen["json_type"] = type(js).__name__
        seen["json"] = js
        if seen["json_type"] in ("JsonDict", "JsonList"):
            seen["json_trio"] = [self.trio(js, k, True) for k in self.keys]
        seen["cached_input"] = \
            getattr(req, "_Request__cached_input", None) is not None
        seen["headers"] = [(n, req.headers.get(n), n in req.headers)
                           for n in self.hdr_names]
        seen["data"] = req.data
        return seen

    def request(self, env, keys=(), hdr_names=(), **cfg):
        conf = dict(auto_args=True, auto_form=True, auto_json=True,
                    auto_data=True, cached_size=65365, data_size=65365,
                    keep_blank_values=0)
        conf.update(cfg)
        for key, val in conf.items():
            setattr(self.app, key, val)
        self.seen = None
        self.keys = list(keys)
        self.hdr_names = list(hdr_names)
        ans = call(self.app, env)
        return ans, self.seen


def distinct(seq):
    return list(dict.fromkeys(seq))


# ---------------------------------------------------------------- oracles
def expect_values(pairs, keep, key):
    """property text: blanks kept or dropped; all values of key in order"""
    return [v for k, v in pairs if k == key and (keep or v != "")]


def none_blank_trio(vals):
    """exactly the case class 'a kept blank form value is None': what the
    trio answers when every '' among the values is replaced by None (getlist
    is derived from getvalue: list -> itself, None -> [], other -> [it])"""
    vs = [v or None for v in vals]
    value = None if not vs else vs[0] if len(vs) == 1 else vs
    first = vs[0] if vs else None
    if isinstance(value, list):
        lst = value
    elif value is None:
        lst = []
    else:
        lst = [value]
    return [value, first, lst]


def check_container(ctx, where, trio, as_item, pairs, keep, key, replay):
    """trio = (getvalue, getfirst, getlist) seen; as_item = container[key]
    or Exn('missing')"""
    vals = expect_values(pairs, keep, key)
    want_value = None if not vals else vals[0] if len(vals) == 1 else vals
    want_first = vals[0] if vals else None
    bad = None
    if trio[2] != vals:
        bad = ("getlist", trio[2], vals)
    elif trio[1] != want_first:
        bad = ("getfirst", trio[1], want_first)
    elif trio[0] != want_value:
        bad = ("getvalue", trio[0], want_value)
    elif as_item is not None:
        want_item = Exn("missing") if not vals else want_value
        if isinstance(as_item, Exn) != isinstance(want_item, Exn) or \
                (not isinstance(as_item, Exn) and as_item != want_item):
            bad = ("item", as_item, want_item)
    if bad is None:
        return True
    blank = keep and any(k == key and v == "" for k, v in pairs)
    if where == "form" and blank and list(trio) == none_blank_trio(vals):
        name = "form-kept-blank-is-none"
    else:
        name = "%s-value-mismatch" % where
    detail = dict(replay)
    detail.update({"key": key, "accessor": bad[0], "got": repr(bad[1]),
                   "want": repr(bad[2])})
    ctx.violation(name, detail)
    return False


def multipart_body(fields, final_eol=True):
    out = b""
    for name, val in fields:
        out += (b"--BnD\r\nContent-Disposition: form-data; name=\"" +
                name.encode() + b"\"\r\n\r\n" + val.encode() + b"\r\n")
    out += b"--BnD--" + (b"\r\n" if final_eol else b"")
    return out


# ======================================================================
def limit_violations(ctx, per_key=3):
    """keep the replay readable: the first per_key inputs of every class
    are recorded, the rest only counted"""
    raw = ctx.violation
    counts = {}

    def violation(key, detail):
        counts[key] = counts.get(key, 0) + 1
        if counts[key] <= per_key:
            raw(key, detail)
    ctx.violation = violation
    ctx.extra["monitor_hits_by_class"] = counts


HEAD_IMPORTS = "Require Import PW.model.EnvHeaders."
HEAD_KEYS = ["HTTP_X_FOO", "HTTP_ACCEPT", "HTTP_content_type", "HTTP_",
             "HTTP__A", "HTTP_A__B_", "HTTP_CONTENT_TYPE",
             "HTTP_CONTENT_LENGTH", "http_lower", "HTTPX", "CONTENT_MD5",
             "content_type", "X_HTTP_Y", "HTTP_X-DASH", "HTTP_a1_2b",
             "HTTP_X_REQUESTED_WITH", "HTTP_COOKIE", "HTTP_Content_Length",
             "CONTENT_TYPE_", "HTTP_HOST", "REMOTE_USER", "HTTP_Z"]
HEAD_CTYPES = ["text/plain", "application/json; charset=latin2",
               'text/html; charset="utf-8"', "", "a;charset", "; charset=x",
               "multipart/form-data; boundary=x", "Text/HTML;CHARSET=UTF-8",
               'x/y; charset="a\\"b"; q=1', "x/y;charset=a;charset=b",
               " text/css ; charset = iso-8859-2 ", "\xe9/\xe9"]
HEAD_CLENS = ["0", "12", " 7 ", "+5", "-3", "1_0", "abc", "", "1__0", "_1",
              "12_", "0x10", "1.5", "  ", "007", "\t42\n", "--1", "+", "-",
              "1 2", "9999999999999999999999", "1_2_3", "+_1"]


def head_cases(ctx, rng, count):
    """random environments through the real Request constructor against
    run_request_head; the primitives capitalize/split/join and int() of the
    model against CPython's"""
    from poorwsgi.request import Request
    app = new_app(auto_json=False, auto_form=False, auto_data=False,
                  auto_cookies=False)
    cases = []
    for idx in range(count):
        base = environ(content_length=None)
        base["REQUEST_STARTTIME"] = 0.0
        extra = []
        for key in rng.sample(HEAD_KEYS, rng.randrange(0, 6)):
            extra.append((key, rng.choice(HEAD_CTYPES + HEAD_CLENS + ["v"])))
        roll = rng.random()
        if roll < 0.8:
            extra.append(("CONTENT_TYPE", rng.choice(HEAD_CTYPES)))
        if rng.random() < 0.8:
            extra.append(("CONTENT_LENGTH", rng.choice(
                HEAD_CLENS if rng.random() < 0.6 else
                [str(rng.randrange(0, 10 ** rng.randrange(1, 12)))])))
        items = list(base.items()) + extra
        rng.shuffle(items)
        env = dict(items)
        if rng.random() < 0.04:
            del env["PATH_INFO"]
        try:
            req = Request(env, app)
            seen = [[list(kv) for kv in req.headers.items()], req.mime_type,
                    req.charset, req.content_length]
        except (ConnectionError, ValueError) as err:
            seen = Exn(type(err).__name__)
        model_env = [(k, v) for k, v in env.items() if isinstance(v, str)]
        term = "run_request_head %s" % clist(
            "(%s, %s)" % (slit(k), slit(v)) for k, v in model_env)
        cases.append((term, seen, ("request head", model_env)))
        shadow = [k for k in env if k.upper().replace("-", "_") in (
            "HTTP_CONTENT_TYPE", "HTTP_CONTENT_LENGTH")]
        ctx.count("head: %s" % ("error" if isinstance(seen, Exn) else
                                "shadowing key present" if shadow else "ok"))
        ctx.case(("head", tuple(model_env)), bool(extra),
                 {"environ": model_env, "seen": repr(seen)})
        # monitor, from the property text: what the parsers are told about
        # the body is what was sent -- on an environment without a competing
        # HTTP_CONTENT_* key the length is the decimal CONTENT_LENGTH
        if not shadow and not isinstance(seen, Exn):
            sent = env.get("CONTENT_LENGTH", "")
            if sent.isascii() and sent.isdigit() and seen[3] != int(sent):
                ctx.violation("content-length-not-as-sent", {
                    "environ": model_env, "content_length": seen[3]})
            if not sent and seen[3] != -1:
                ctx.violation("content-length-not-as-sent", {
                    "environ": model_env, "content_length": seen[3]})
            if "CONTENT_TYPE" in env:
                want = env["CONTENT_TYPE"].split(";")[0].strip()
                if seen[1] != want:
                    ctx.violation("mime-type-not-as-sent", {
                        "environ": model_env, "mime_type": seen[1]})
    for key in HEAD_KEYS + ["", "_", "A", "a_b", "AB_cD_", "__", "x_Y_z9"]:
        cases.append(("run_cgi_name %s" % slit(key),
                      "-".join(w.capitalize() for w in key.split("_")),
                      ("capitalize/split/join", key)))
    for text in HEAD_CLENS + [str(n) for n in (0, 7, 10, 65535, 10 ** 20)]:
        try:
            want = int(text)
        except ValueError:
            want = Exn("ValueError")
        cases.append(("run_py_int %s" % slit(text), want, ("int()", text)))
    ctx.correspondence("head", HEAD_IMPORTS,
                       [(t, to_v(e), p) for t, e, p in cases],
                       lambda p: [repr(x) for x in p])


def run(ctx):
    limit_violations(ctx)
    ctx.check_obligations()
    rng = ctx.rng
    quick = ctx.quick
    probe = Probe()
    probe_plain = Probe(extra_form=("text/plain",))

    # ------------------------------------------------------------------
    # (i) query string / urlencoded body through a real Request
    cases = []
    maxlen = 4 if quick else 8
    per_len = 30 if quick else 320
    for n in range(0, maxlen + 1):
        for rep in range(per_len if n else 2):
            pairs = gen_pairs(rng, n)
            keys = distinct([k for k, _ in pairs]) + [ABSENT]
            for keep in (0, 1):
                style = ("std", "mix", "pct")[(rep + keep) % 3]
                if style == "std":
                    query = urllib.parse.urlencode(pairs)
                    body = urllib.parse.urlencode(pairs)
                else:
                    query = alt_encode(rng, pairs, style)
                    body = alt_encode(rng, pairs, style)
                method = ("POST", "PUT", "PATCH", "GET", "DELETE")[rep % 5]
                if method in ("GET", "DELETE"):     # bodiless
                    body = ""
                env = environ(method=method,
                              query=query, body=body.encode("ascii"),
                              content_type=URLENC if body else None)
                ans, seen = probe.request(env, keys, keep_blank_values=keep)
                ctx.count("method=%s" % method)
                replay = {"pairs": pairs, "keep_blank_values": keep,
                          "method": method, "QUERY_STRING": query,
                          "body": body,
                          "content_type": URLENC if body else None}
                ctx.count("pairs len=%d" % n)
                ctx.count("encoding=%s" % style)
                if seen is None:
                    ctx.violation("endpoint-not-run", dict(
                        replay, status=ans.status))
                    continue
                # correspondence
                cases.append((
                    "run_query %s %s %s" % (blit(keep), slit(query),
                                            keys_t(keys)),
                    [seen["args"], seen["args_trio"]],
                    ("query", keep, query, keys)))
                if body:
                    cases.append((
                        "run_form %s %s %s" % (blit(keep), slit(body),
                                               keys_t(keys)),
                        [seen["form"], seen["form_trio"]],
                        ("form", keep, body, keys)))
                cases.append(("run_encode %s" % pairs_t(pairs),
                              urllib.parse.urlencode(pairs),
                              ("urlencode", pairs)))
                # monitor
                good = True
                for idx, key in enumerate(keys):
                    item = seen["args"].get(key, Exn("missing"))
                    good &= check_container(
                        ctx, "args", seen["args_trio"][idx], item, pairs,
                        keep, key, replay)
                    if body:
                        good &= check_container(
                            ctx, "form", seen["form_trio"][idx], None, pairs,
                            keep, key, replay)
                if not body and (seen["form_type"] != "EmptyForm" or
                                 seen["json_type"] != "EmptyForm"):
                    ctx.violation("bodiless-request-has-form", dict(
                        replay, form=seen["form_type"],
                        json=seen["json_type"]))
                if body and seen["form"] is not None:
                    want = [(k, v) for k, v in pairs if keep or v != ""]
                    if seen["form"] != want:
                        shape = [(k, v or None) for k, v in want]
                        ctx.violation(
                            "form-kept-blank-is-none"
                            if keep and seen["form"] == shape
                            else "form-value-mismatch",
                            dict(replay, got=repr(seen["form"]),
                                 want=repr(want)))
                if seen["args_type"] != "Args":
                    ctx.violation("args-type", dict(replay,
                                                    got=seen["args_type"]))
                ctx.case(("pairs", tuple(pairs), keep, query),
                         n > 0, {"pairs": pairs, "keep": keep,
                                 "query": query, "args": repr(seen["args"])})
    # the encoder specification itself
    for text in ATOMS + [gen_text(rng) + gen_text(rng) for _ in range(40)] \
            + ["\ud800", "a\udfff"]:
        try:
            want = urllib.parse.quote_plus(text)
        except UnicodeEncodeError:
            want = Exn("UnicodeEncodeError")
        cases.append(("run_quote %s" % slit(text), want, ("quote_plus", text)))
    # auto_args off / no form: EmptyForm
    for key in ("a", ""):
        ans, seen = probe.request(environ(query="a=1"), [key],
                                  auto_args=False)
        cases.append(("run_empty %s" % slit(key), seen["args_trio"][0],
                      ("EmptyForm args", key)))
        cases.append(("run_empty %s" % slit(key), seen["form_trio"][0],
                      ("EmptyForm form", key)))
        if seen["args_type"] != "EmptyForm" or seen["args"]:
            ctx.violation("auto-args-off-not-empty", {"seen": repr(seen)})
        ctx.case(("emptyform", key))

    # hostile stream: arbitrary query strings / bodies (invalid escapes,
    # broken UTF-8, whitespace, empty pieces)
    nhost = 250 if quick else 5000
    for i in range(nhost):
        query = gen_hostile(rng)
        body = gen_hostile_body(rng)
        keep = i % 2
        env = environ(method="POST", query=query, body=body,
                      content_type=URLENC)
        ans, seen = probe.request(env, [], keep_blank_values=keep)
        ctx.count("hostile")
        if seen is None:
            ctx.violation("hostile-endpoint-not-run", {
                "QUERY_STRING": query, "body": repr(body),
                "status": ans.status})
            continue
        keys = distinct(list(seen["args"]) +
                        [n for n, _ in seen["form"]])[:6] + [ABSENT]
        ans, seen = probe.request(
            environ(method="POST", query=query, body=body,
                    content_type=URLENC), keys, keep_blank_values=keep)
        cases.append(("run_query %s %s %s" % (blit(keep), slit(query),
                                              keys_t(keys)),
                      [seen["args"], seen["args_trio"]],
                      ("hostile query", keep, query, keys)))
        cases.append(("run_form %s %s %s" % (blit(keep), slit(body),
                                             keys_t(keys)),
                      [seen["form"], seen["form_trio"]],
                      ("hostile form", keep, repr(body), keys)))
        cases.append(("run_qsl %s %s" % (blit(keep), slit(query)),
                      urllib.parse.parse_qsl(query, keep),
                      ("parse_qsl", keep, query)))
        cases.append(("run_utf8_dec %s" % slit(body),
                      body.decode("utf-8", "replace"),
                      ("utf8 replace", repr(body))))
        ctx.case(("hostile", query, body, keep), True)
    ctx.correspondence("codec", IMPORTS,
                       [(t, to_v(e), p) for t, e, p in cases],
                       lambda p: [repr(x) for x in p])

    # ------------------------------------------------------------------
    # JSON: depth <= 3, utf-8 and declared charsets
    jcases = []
    njson = 150 if quick else 3000
    fixed = [None, True, 0, "", [], {}, [[]], {"k": []}, {"k": {}},
             {"k": [1, 2]}, {"k": None}, ["\xe9"], {"\xe9": "€"},
             [[["deep"]]], {"a": {"b": {"c": 1}}}, "\U0001f600", 1.5, [None]]
    charsets = [None, "utf-8", "latin-1", "utf-16", "cp1250", "UTF-8"]
    for i in range(njson):
        val = fixed[i] if i < len(fixed) else gen_json(rng, 3)
        charset = charsets[i % len(charsets)] if i >= len(fixed) else None
        text = json.dumps(val, ensure_ascii=bool(i % 2))
        try:
            raw = text.encode(charset or "utf-8")
        except UnicodeEncodeError:
            charset = "utf-8"
            raw = text.encode("utf-8")
        # parameter names are case-insensitive (RFC 9110 8.3.1)
        pname = ("charset", "Charset", "CHARSET", "charset")[i % 4]
        ctype = JSON_TYPES[i % 3] + \
            ("; %s=%s" % (pname, charset) if charset else "")
        keys = (list(val)[:4] if isinstance(val, dict) else []) + [ABSENT]
        cfg = {}
        if i % 5 == 3:
            cfg = {"data_size": 0, "cached_size": 0}    # raw stream
        elif i % 5 == 4:
            cfg = {"auto_data": False}
        stream = RecInput(raw + TRAIL)
        env = environ(method=("POST", "PUT", "PATCH")[i % 3],
                      content_type=ctype, content_length=str(len(raw)))
        env["wsgi.input"] = stream
        ans, seen = probe.request(env, keys, **cfg)
        replay = {"json": text, "content_type": ctype, "body": repr(raw),
                  "config": cfg}
        ctx.count("json depth=%d" % json_depth(val))
        ctx.count("json charset=%s" % charset)
        if stream.pos > len(raw):
            ctx.violation("body-read-past-content-length", dict(
                replay, consumed=stream.pos, declared=len(raw)))
        if seen is None:
            ctx.violation("json-endpoint-not-run", dict(replay,
                                                        status=ans.status))
            continue
        got = seen["json"]
        if got != val or type(got) is not type(val) and not (
                isinstance(val, dict) and isinstance(got, dict) or
                isinstance(val, list) and isinstance(got, list)):
            ctx.violation("json-value-mismatch", dict(replay, got=repr(got)))
        if isinstance(val, dict) and seen["json_type"] != "JsonDict" or \
                isinstance(val, list) and seen["json_type"] != "JsonList":
            ctx.violation("json-container-type", dict(
                replay, got=seen["json_type"]))
        if isinstance(val, (dict, list)):
            for idx, key in enumerate(keys):
                gval, gfirst, glist = seen["json_trio"][idx]
                jcases.append((
                    "run_json %s %s" % (jterm(val), slit(key)),
                    "(VL [%s;%s;%s])" % (jv(gval), jv(gfirst), jv(glist)),
                    ("json trio", text, key)))
                # oracle: the accessors agree with the value
                if isinstance(val, dict):
                    present = key in val
                    item = val.get(key)
                    wlist = [] if not present else \
                        item if isinstance(item, list) else [item]
                    wvalue = item if present else DEFAULT
                    wfirst = DEFAULT if not present else \
                        item if not isinstance(item, list) else \
                        item[0] if item else DEFAULT
                else:
                    wlist = val
                    wvalue = wfirst = val[0] if val else DEFAULT
                if isinstance(gfirst, Exn) and isinstance(val, dict) \
                        and val.get(key) == []:
                    ctx.violation("json-getfirst-empty-list-raises", dict(
                        replay, key=key, got=repr(gfirst)))
                elif (gval, gfirst, glist) != (wvalue, wfirst, wlist) or \
                        any(isinstance(x, Exn) for x in (gval, gfirst, glist)):
                    ctx.violation("json-accessor-mismatch", dict(
                        replay, key=key, got=repr((gval, gfirst, glist)),
                        want=repr((wvalue, wfirst, wlist))))
        jcases.append(("enc_j %s" % jterm(val), jv(got),
                       ("json value", text)))
        ctx.case(("json", text, ctype, tuple(sorted(cfg))),
                 True, {"json": text, "content_type": ctype})
    ctx.correspondence("json", IMPORTS, jcases,
                       lambda p: [repr(x) for x in p])

    # invalid JSON under a JSON content type -> 400, endpoint not run
    bad_bodies = [b"{bad", b"{", b"[1,", b"nul", b"\xff\xfe\xfd", b"'a'",
                  b"{\"a\":1}x", b" ", b"\xe9", b"{\"a\":}", b"[1 2]",
                  # well-formed JSON syntax around bytes that are not valid
                  # in the declared / default charset
                  b"{\"name\": \"\xff\xfe\"}", b"[\"\xc3\"]",
                  b"\"\xed\xa0\x80\"", b"{\"\x80\": 1}"]
    for body, jtype, cfg in itertools.product(
            bad_bodies, JSON_TYPES if not quick else JSON_TYPES[:2],
            [{}, {"auto_data": False}, {"data_size": 0, "cached_size": 0},
             {"auto_form": False, "auto_args": False}]):
        for ctype in (jtype, jtype + "; charset=utf-8",
                      jtype + "; charset=no-such-charset"):
            stream = RecInput(body + TRAIL)
            env = environ(method="POST", content_type=ctype,
                          content_length=str(len(body)))
            env["wsgi.input"] = stream
            ans, seen = probe.request(env, [], **cfg)
            ctx.count("invalid json")
            ctx.case(("badjson", body, ctype, tuple(sorted(cfg))))
            replay = {"body": repr(body), "content_type": ctype,
                      "config": cfg, "status": ans.status}
            if ans.code != 400 or seen is not None:
                ctx.violation("invalid-json-not-400", dict(
                    replay, endpoint_ran=seen is not None))
            if stream.pos > len(body):
                ctx.violation("body-read-past-content-length", dict(
                    replay, consumed=stream.pos, declared=len(body)))
    # a valid body with an unknown charset is not decodable either
    ans, seen = probe.request(environ(
        method="POST", body=b"{}",
        content_type="application/json; charset=no-such-charset"))
    if ans.code != 400 or seen is not None:
        ctx.violation("invalid-json-not-400", {"charset": "no-such-charset",
                                               "status": ans.status})
    # auto_json off: the endpoint runs and sees no JSON
    ans, seen = probe.request(environ(method="POST", body=b"{bad",
                                      content_type="application/json"),
                              auto_json=False)
    if seen is None or seen["json_type"] != "EmptyForm":
        ctx.violation("auto-json-off-parsed", {"status": ans.status})

    # ------------------------------------------------------------------
    # headers: case-insensitive, server's values
    hnames = ["X-Tok", "Accept", "X-Long-Header-Name", "User-Agent", "Te",
              "X-1", "Host", "Cookie2"]
    hvalues = ["v", "text/html, */*;q=0.1", "", " spaced  value ", "caf\xe9",
               "a=1; b=2", "\xff\x00\x7f", "UPPER lower"]
    for i in range(40 if quick else 400):
        chosen = rng.sample(hnames, rng.randrange(1, 5))
        sent = {n: rng.choice(hvalues) for n in chosen}
        ctype = rng.choice([None, "text/plain", "Text/Plain; Charset=X"])
        body = rng.choice([b"", b"abc"])
        lookups = []
        for name in chosen + ["Content-Type", "Content-Length", "X-Absent"]:
            lookups += [name, name.lower(), name.upper(),
                        "".join(rng.choice((c.lower(), c.upper()))
                                for c in name)]
        env = environ(method="POST", headers=sent, body=body,
                      content_type=ctype)
        ans, seen = probe.request(env, [], lookups)
        ctx.count("headers")
        ctx.case(("headers", tuple(sorted(sent.items())), ctype, body))
        if seen is None:
            ctx.violation("endpoint-not-run", {"headers": sent,
                                               "status": ans.status})
            continue
        ref = {k.lower(): v for k, v in sent.items()}
        if ctype is not None:
            ref["content-type"] = ctype
        if body:
            ref["content-length"] = str(len(body))
        for name, got, present in seen["headers"]:
            want = ref.get(name.lower())
            if got != want or present != (want is not None):
                ctx.violation("header-lookup", {
                    "sent": sent, "content_type": ctype, "lookup": name,
                    "got": repr(got), "in": present, "want": repr(want)})

    # ------------------------------------------------------------------
    # (ii) body read plan and the byte budget on an instrumented stream
    pcases = []
    form_body = b"a=1&b=%C3%A9&a=2"
    json_body = b'{"a": [1, 2], "b": "x"}'
    multi_ok = multipart_body([("a", "1"), ("b", "two")])
    multi_noeol = multipart_body([("a", "1")], final_eol=False)
    plain_body = b"plain text body, no structure\r\nsecond line\r\n"
    big_plain = b"0123456789abcdef" * 1300          # 20800 bytes, 3 chunks
    # bodies of more than one 8 KiB block, not a whole number of blocks
    big_form = b"&".join(b"k%d=%s" % (i, b"v" * (i % 40)) for i in range(400))
    big_json = json.dumps({"k%d" % i: [i, "x" * (i % 50)]
                           for i in range(500)}).encode()
    # (content type, body, parser kind, variant)
    bodies = [
        ("application/json", json_body, 0, "json"),
        (URLENC, form_body, 0, "urlencoded"),
        (MULTI, multi_ok, 1, "multipart"),
        (MULTI, multi_noeol, 1, "multipart-no-final-eol"),
        ("text/plain", plain_body, 2, "plain"),
        ("text/plain", big_plain, 2, "plain-big"),
        (URLENC, big_form, 0, "urlencoded-big"),
        ("application/json", big_json, 0, "json-big"),
        (None, plain_body, 2, "no-type"),
        ("application/octet-stream", plain_body, 2, "other"),
    ]
    methods = ["POST", "PUT", "PATCH", "GET", "DELETE"]
    combos = list(itertools.product(
        (True, False), (True, False), (True, False), (True, False),
        ("below", "equal", "above"), ("zero", "below", "above"),
        (False, True)))
    count = 0
    for (ctype, body, kind, variant) in bodies:
        for (adata, ajson, aform, aargs, dsz, csz, plain_in_form) in combos:
            if plain_in_form and kind != 2:
                continue
            if quick and variant in ("plain-big", "no-type", "other",
                                     "urlencoded-big", "json-big") \
                    and (dsz == "equal" or not aargs):
                continue
            if quick and not aargs and csz == "above":
                continue
            count += 1
            size = len(body)
            data_size = {"below": size - 1, "equal": size,
                         "above": size + 7}[dsz]
            cached_size = {"zero": 0, "below": max(1, size // 3),
                           "above": size + 11}[csz]
            declared = [size]
            if variant in ("multipart", "urlencoded", "json") and \
                    (count % 3 == 0 or not quick):
                declared.append(size - 9)     # short declared length
            if kind == 1 and (count % 2 == 0 or not quick):
                declared.append(size // 3)    # cut inside the first part
            if count % 7 == 0:
                declared.append(0)
            if count % 11 == 0:
                declared.append(None)
            for clen in declared:
                prb = probe_plain if plain_in_form else probe
                stream = RecInput(body + TRAIL)
                method = methods[count % len(methods)]
                env = environ(method=method, content_type=ctype,
                              content_length=None if clen is None
                              else str(clen))
                env["wsgi.input"] = stream
                cfg = dict(auto_data=adata, auto_json=ajson, auto_form=aform,
                           auto_args=aargs, data_size=data_size,
                           cached_size=cached_size)
                ans, seen = prb.request(env, [], **cfg)
                replay = {"config": cfg, "method": method,
                          "content_type": ctype,
                          "CONTENT_LENGTH": clen, "body": repr(body[:80]),
                          "body_len": size,
                          "form_mime_types": list(prb.app.form_mime_types),
                          "then_on_stream": repr(TRAIL[:18]),
                          "requests_on_wsgi_input": stream.log[:12],
                          "status": ans.status}
                ctx.count("plan %s" % variant)
                if ans.code == 500 and kind == 2 and plain_in_form:
                    # outside the property: a configured form type that is
                    # neither urlencoded nor multipart always fails
                    # (read_binary writes bytes into a text-mode temp file)
                    ctx.count("note: single-part form type answered 500")
                limit = max(0, clen if clen is not None else 0)
                # ---- monitor: never read beyond the declared length
                if stream.pos > limit:
                    # the known finding, exactly: the line parser
                    # (multipart, or a single part without length) runs on
                    # the raw stream: cached_size = 0 and body not buffered
                    buffered = adata and clen is not None and \
                        0 <= clen <= data_size
                    line_kind = (ctype or "").startswith("multipart/") or \
                        (kind == 2 and clen is None)
                    raw_multi = line_kind and cached_size == 0 and \
                        not buffered and aform and \
                        any(op == "readline" for op, _, _ in stream.log)
                    ctx.violation(
                        "multipart-raw-stream-reads-past-content-length"
                        if raw_multi else "body-read-past-content-length",
                        dict(replay, consumed=stream.pos, declared=clen,
                             form=None if seen is None else
                             repr(seen["form"])[:200]))
                # ---- monitor: data reaches the handler when parsed
                full = clen == size
                if seen is not None and full:
                    if variant == "json" and ajson and \
                            seen["json"] != json.loads(body):
                        ctx.violation("json-value-mismatch", dict(
                            replay, got=repr(seen["json"])))
                    if variant == "urlencoded" and aform and \
                            seen["form"] != [("a", "1"), ("b", "\xe9"),
                                             ("a", "2")]:
                        ctx.violation("form-value-mismatch", dict(
                            replay, got=repr(seen["form"])))
                    if variant == "multipart" and aform and \
                            seen["form"] != [("a", "1"), ("b", "two")]:
                        ctx.violation("form-value-mismatch", dict(
                            replay, got=repr(seen["form"])))
                    if adata and size <= data_size and \
                            seen["data"] != body:
                        ctx.violation("data-mismatch", dict(
                            replay, got=repr(seen["data"])[:200]))
                    if (aargs and seen["args_type"] != "Args") or \
                            (not aargs and seen["args_type"] != "EmptyForm"):
                        ctx.violation("args-type", dict(
                            replay, got=seen["args_type"]))
                ctx.case(("plan", variant, tuple(sorted(cfg.items())), clen,
                          plain_in_form), True,
                         {"config": cfg, "content_type": ctype,
                          "CONTENT_LENGTH": clen,
                          "requests": stream.log[:6]})
                # ---- correspondence of the plan
                if variant == "multipart-no-final-eol" or \
                        (clen != size and kind == 1):
                    continue    # line plans are classes, covered above
                mime = (ctype or "").split(";")[0].strip()
                in_json = mime in prb.app.json_mime_types
                in_form = mime in prb.app.form_mime_types
                cl = -1 if clen is None else clen
                line_parser = kind == 1 or (kind == 2 and cl < 0)
                cached_multi = bool(
                    seen is not None and seen["cached_input"] and
                    seen["form_type"] == "FieldStorage" and line_parser)
                pcases.append((
                    "run_plan %s %s %s false %s %s %d %s %s %s" % (
                        blit(adata), zlit(data_size), zlit(cl),
                        blit(in_json), blit(in_form), kind, blit(ajson),
                        blit(aform), zlit(cached_size)),
                    canon_log(stream.log, cached_multi, cl),
                    ("plan", variant, cfg, clen, plain_in_form)))
    # HTTP/0.9 switch of the code (outside the property's quantifier):
    # correspondence only
    for (ctype, body, kind, variant) in bodies[:3] + bodies[4:5]:
        for adata, csz, clen in itertools.product(
                (True, False), (0, 5), (None, 0, len(body))):
            prb = probe_plain
            stream = RecInput(body + (b"" if clen is None else TRAIL))
            env = environ(method="POST", content_type=ctype,
                          content_length=None if clen is None else str(clen),
                          extra={"SERVER_PROTOCOL": "HTTP/0.9"})
            env["wsgi.input"] = stream
            cfg = dict(auto_data=adata, data_size=10 ** 6, cached_size=csz)
            ans, seen = prb.request(env, [], **cfg)
            mime = (ctype or "").split(";")[0].strip()
            cl = -1 if clen is None else clen
            line_parser = kind == 1 or (kind == 2 and cl < 0)
            cached_multi = bool(csz and not (adata and cl >= 0)
                                and line_parser)
            pcases.append((
                "run_plan %s %s %s true %s %s %d true true %s" % (
                    blit(adata), zlit(10 ** 6), zlit(cl),
                    blit(mime in prb.app.json_mime_types),
                    blit(mime in prb.app.form_mime_types), kind, zlit(csz)),
                canon_log(stream.log, cached_multi, cl),
                ("plan http/0.9", variant, cfg, clen)))
            ctx.count("plan http/0.9")
    ctx.correspondence("plan", IMPORTS,
                       [(t, to_v(e), p) for t, e, p in pcases],
                       lambda p: [repr(x) for x in p])

    # ------------------------------------------------------------------
    # (vi) the head of Request.__init__: headers rebuilt from the CGI
    # variables, media type, charset, content length (model/EnvHeaders.v)
    head_cases(ctx, rng, 300 if quick else 4000)

    return ctx.finish(
        "pair lists of length 0-8 (quick 0-4) over keys/values from the "
        "property's alphabet (ASCII, space, & = + %, non-ASCII of every "
        "UTF-8 length, empty), three encodings (urlencode; mixed literal/"
        "%XX in both cases/'+' or %20 with empty pieces; all-%XX), "
        "keep_blank_values 0/1, sent as QUERY_STRING and as urlencoded body "
        "of POST/PUT/PATCH; a hostile stream of arbitrary query strings and "
        "bodies; JSON values of depth <= 3 in utf-8/latin-1/utf-16/cp1250 "
        "under the three JSON types, buffered and raw; invalid JSON bodies; "
        "header tables looked up in 4 spellings; all combinations of "
        "auto_data/auto_json/auto_form/auto_args x data_size below/equal/"
        "above x cached_size zero/below/above x 8 body kinds x declared "
        "length full/short/0/absent on an instrumented wsgi.input followed "
        "by the bytes of another request. A case is distinct by its full "
        "input tuple; pair lists of length 0 count as trivial.",
        assumptions=[
            "json.loads / codecs other than UTF-8 are CPython's (Section "
            "variables of the model); urllib.parse.parse_qsl, quote_plus, "
            "UTF-8 decoding with errors=replace are re-implemented in the "
            "model and compared with CPython's on every case",
            "strict_parsing=0, max_num_fields=None (defaults)",
            "reads of the multipart line parser are modelled as a class "
            "(raw readline calls / CachedInput with the declared length); "
            "that CachedInput keeps its budget is C09",
            "instrumented wsgi.input returns every requested byte (no "
            "short reads)"])
