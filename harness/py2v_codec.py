"""Translator plugin: the header codecs of poorwsgi/headers.py other than
_parseparam / parse_header -> coq/gen/CodecGen.v (proved equal to
model/HeaderCodec.v in proofs/CodecGenEq.v, theorems C18_generated_*_is_model).

Translated: parse_range, ContentRange.__init__/__str__, parse_negotiation,
render_negotiation, datetime_to_http, time_to_http, http_to_datetime,
http_to_time.

Reuses the general translator (py2v.Unit over lib/Py.v: CPS/SSA, `if` join
points, `for` over the item list with the code after the loop in the
Fixpoint, `x.append(e)`, `a, b = e`, dict and tuple displays, f-strings,
inlined constructor + __str__) and adds, with the semantics of
lib/PyCodec.v:

  * `try: ... except (A, B): ...` (ptry / exc_in; no else/finally/as): either
    as the last statement of the function (a `return` inside is the result)
    or inside a loop body without return/break/continue in it (the variables
    assigned in it come back as a tuple);
  * the conditional expression `a if c else b`;
  * `x: T = e` as `x = e` (annotations, also of parameters, are dropped);
  * str: `.split(sep)`, `.strip()`, `sep.join(x)`; `int(e)` (cint), `e[i]`
    for a constant index;
  * `float(e)`, `map(str, e)`, float literals and `datetime.now(tz)` through
    the Section variables pfloat, pstr_v, flit (given the literal's repr) and
    now of the generated file;
  * module constants, read from the source: NAME = "<text>" (its text) and
    NAME = re.compile(r"<text>") (NAME.findall(e) -> pfindall <text> e);
  * `datetime.fromtimestamp(e, tz)`, `datetime.strptime(e, f)`,
    `e.strftime(f)`, `e.replace(tzinfo=tz)`, `e.timestamp()`, `timezone.utc`
    (only under `from datetime import datetime, timezone`);
  * calls of the other translated functions of this file.

Trusted tables: METHODS, CLASSMETHODS, EXCEPTIONS, BUILTINS below.  The
names in them must not be bound anywhere else in the module, nor may an
attribute of a translated function / class / imported module be assigned
(check_names).  Parameters are named by position (a0, a1, ...), locals by
SSA position, so the generated terms do not depend on their spelling.

Dropped by name: docstrings and `log.*(...)` statement calls
(py2v.Unit.block); comments and annotations.  Every other call, method,
subscript or statement raises py2v.Unsupported; the generated file and the
compiled forms of it and of proofs/CodecGenEq are then removed.
"""
import ast
import os

import py2v
from py2v import Unsupported, strlit

SOURCE = "poorwsgi/headers.py"
# str / datetime methods: (name, number of arguments) -> lib operation
METHODS = {("split", 1): "psplit", ("strip", 0): "pstrip",
           ("join", 1): "pjoin", ("strftime", 1): "pstrftime",
           ("timestamp", 0): "ptimestamp"}
# datetime.<name>(args)
CLASSMETHODS = {("fromtimestamp", 2): "pfromtimestamp",
                ("strptime", 2): "pstrptime", ("now", 1): "pnow now"}
EXCEPTIONS = ("ValueError", "IndexError", "TypeError", "ZeroDivisionError")
BUILTINS = ("int", "float", "str", "map")
SECTION_VARS = (("pfloat", "pv -> res pv"), ("pstr_v", "pv -> res pv"),
                ("flit", "list Z -> pv"), ("now", "pv"))
FUNCTIONS = ("parse_range", "parse_negotiation", "render_negotiation",
             "datetime_to_http", "time_to_http", "http_to_datetime",
             "http_to_time")


class CodecUnit(py2v.Unit):
    def __init__(self):
        super().__init__()
        self.strconsts = {}     # NAME -> text
        self.regexes = {}       # NAME -> pattern text
        self.datetime_ok = False
        self.fstring_ok = False
        self.in_try = 0
        self.depth = 0

    # ---------------------------------------------------------- expressions
    def expr(self, cx, env, node, k):
        if isinstance(node, ast.Constant) and isinstance(node.value, float):
            return k("(flit %s)" % strlit(repr(node.value)))
        if isinstance(node, ast.Constant) and not isinstance(
                node.value, (int, str, type(None))):
            raise Unsupported(node, "constant")
        if isinstance(node, ast.IfExp):
            join, arg = cx.fresh("j"), cx.fresh("b")
            return self.expr(cx, env, node.test, lambda c: (
                "let %s := fun (%s : pv) => (%s) in\nif truthy %s then (%s)\n"
                "else (%s)" % (
                    join, arg, k(arg), c,
                    self.expr(cx, env, node.body,
                              lambda a: "%s %s" % (join, a)),
                    self.expr(cx, env, node.orelse,
                              lambda a: "%s %s" % (join, a)))))
        if isinstance(node, ast.Name) and node.id not in env and \
                node.id in self.strconsts:
            return k("(PStr %s)" % strlit(self.strconsts[node.id]))
        if isinstance(node, ast.Attribute) and self.datetime_ok and \
                self.dotted(node) == "timezone.utc" and \
                "timezone" not in env and "timezone.utc" not in env:
            return k("putc")
        if isinstance(node, ast.JoinedStr) and not self.fstring_ok:
            raise Unsupported(node, "expression")
        return super().expr(cx, env, node, k)

    def call(self, cx, env, node, k):
        fn = node.func
        if any(isinstance(a, ast.Starred) for a in node.args) or \
                any(w.arg is None for w in node.keywords):
            raise Unsupported(node, "call arguments")
        if isinstance(fn, ast.Attribute):
            recv = fn.value
            if isinstance(recv, ast.Name) and recv.id not in env:
                if recv.id in self.regexes and fn.attr == "findall" and \
                        len(node.args) == 1 and not node.keywords:
                    pat = strlit(self.regexes[recv.id])
                    return self.expr(
                        cx, env, node.args[0], lambda a: self.bindk(
                            cx, "pfindall (PStr %s) %s" % (pat, a), k))
                if recv.id == "datetime" and self.datetime_ok and \
                        not node.keywords:
                    op = CLASSMETHODS.get((fn.attr, len(node.args)))
                    if op is None:
                        raise Unsupported(node, "datetime method")
                    return self.seq(cx, env, node.args, lambda it: self.bindk(
                        cx, " ".join([op] + it), k))
                raise Unsupported(node, "method of a global")
            if fn.attr == "replace" and not node.args and \
                    [w.arg for w in node.keywords] == ["tzinfo"]:
                return self.expr(cx, env, recv, lambda v: self.expr(
                    cx, env, node.keywords[0].value, lambda tz: self.bindk(
                        cx, "preplace_tzinfo %s %s" % (v, tz), k)))
            op = METHODS.get((fn.attr, len(node.args)))
            if op is None or node.keywords:
                raise Unsupported(node, "method call")
            return self.expr(cx, env, recv, lambda v: self.seq(
                cx, env, node.args, lambda it: self.bindk(
                    cx, " ".join([op, v] + it), k)))
        if not isinstance(fn, ast.Name) or fn.id in env or node.keywords:
            raise Unsupported(node, "call")
        name, nargs = fn.id, len(node.args)
        if name in ("int", "float") and nargs == 1:
            op = "cint" if name == "int" else "pfloat"
            return self.expr(cx, env, node.args[0], lambda a: self.bindk(
                cx, "%s %s" % (op, a), k))
        if name == "map" and nargs == 2 and \
                isinstance(node.args[0], ast.Name) and \
                node.args[0].id == "str" and "str" not in env:
            return self.expr(cx, env, node.args[1], lambda a: self.bindk(
                cx, "pmap pstr_v %s" % a, k))
        if name == "str" and nargs == 1 and self.fstring_ok and \
                ("%s.__class__" % self.dotted(node.args[0])) in env:
            return super().call(cx, env, node, k)
        if name in self.callees and nargs == len(self.callees[name][1]):
            gen = self.callees[name][0]
            return self.seq(cx, env, node.args, lambda it: self.bindk(
                cx, " ".join([gen] + it), k))
        raise Unsupported(node, "call")

    def subscript(self, cx, env, node, k):
        if isinstance(node.slice, ast.Slice):
            raise Unsupported(node, "slice")
        return super().subscript(cx, env, node, k)

    # ----------------------------------------------------------- statements
    def block(self, cx, env, stmts, kend, loopk=None):
        if stmts:
            st, rest = stmts[0], stmts[1:]
            if isinstance(st, ast.AnnAssign):
                if st.value is None or not isinstance(st.target, ast.Name):
                    raise Unsupported(st, "annotated statement")
                plain = ast.copy_location(ast.Assign(
                    targets=[st.target], value=st.value), st)
                return self.block(cx, env, [plain] + rest, kend, loopk)
            if isinstance(st, ast.Try):
                return self.try_stmt(cx, env, st, rest, kend, loopk)
            if isinstance(st, (ast.While, ast.Delete, ast.Raise,
                               ast.AugAssign, ast.Break)):
                raise Unsupported(st, "statement")
            if isinstance(st, ast.Assign) and (
                    len(st.targets) != 1 or
                    isinstance(st.targets[0], (ast.Subscript,
                                               ast.Attribute))):
                raise Unsupported(st, "assignment shape")
            if isinstance(st, (ast.Return, ast.Continue)) and \
                    self.in_try > 1:
                raise Unsupported(st, "inside a try in a loop")
        return super().block(cx, env, stmts, kend, loopk)

    def assigned(self, stmts):
        out = super().assigned(stmts)
        for st in stmts:
            for node in ast.walk(st):
                if isinstance(node, ast.AnnAssign) and node.value is not None:
                    out.append(node.target)
        return out

    def handler_names(self, handler):
        if handler.name is not None or handler.type is None:
            raise Unsupported(handler, "except shape")
        types = handler.type.elts if isinstance(handler.type, ast.Tuple) \
            else [handler.type]
        names = []
        for t in types:
            if not isinstance(t, ast.Name) or t.id not in EXCEPTIONS:
                raise Unsupported(handler, "exception class")
            names.append(t.id)
        return "[%s]" % ";".join('"%s"' % n for n in names)

    def try_stmt(self, cx, env, st, rest, kend, loopk):
        if st.orelse or st.finalbody or not st.handlers:
            raise Unsupported(st, "try shape")
        last = loopk is None and cx.breakk is None and not rest and \
            st is cx.fundef.body[-1] and self.in_try == 0
        inner = st.body + [s for h in st.handlers for s in h.body]
        saved = self.in_try
        if last:
            self.in_try = 1

            def leave(_env):
                return "Ok PNone"           # falls off the function's end
        else:
            for sub in inner:
                for node in ast.walk(sub):
                    if isinstance(node, (ast.Return, ast.Break, ast.Continue,
                                         ast.Yield, ast.YieldFrom, ast.For,
                                         ast.While, ast.Try)):
                        raise Unsupported(node, "inside a try in a loop")
            self.in_try = 2
            carried = self.names_assigned(inner)

            def leave(env2):
                return "Ok (PTuple [%s])" % ";".join(
                    env2.get(n, "PNone") for n in carried)
        try:
            body = self.block(cx, env, st.body, leave, None)
            code = "Err e_"
            for handler in reversed(st.handlers):
                code = "if exc_in e_ %s then (%s)\nelse %s" % (
                    self.handler_names(handler),
                    self.block(cx, env, handler.body, leave, None), code)
        finally:
            self.in_try = saved
        term = "ptry (%s)\n(fun e_ => %s)" % (body, code)
        if last:
            return term
        outs = [cx.fresh(n) for n in carried]
        env_after = dict(env)
        for name, var in zip(carried, outs):
            env_after[name] = var
        return ("r_ <- %s ;;\nmatch r_ with\n| PTuple [%s] => (%s)\n"
                "| _ => Err TypeError\nend" % (
                    term, ";".join(outs),
                    self.block(cx, env_after, rest, kend, loopk)))

    def effect_call(self, cx, env, call, after):
        fn = call.func
        if isinstance(fn, ast.Attribute) and fn.attr == "append" and \
                len(call.args) == 1 and not call.keywords and \
                isinstance(fn.value, ast.Name) and fn.value.id in env:
            return super().effect_call(cx, env, call, after)
        raise Unsupported(call, "statement call")

    def for_loop(self, cx, env, st, after):
        if self.depth:
            raise Unsupported(st, "nested for")
        self.depth += 1
        try:
            return super().for_loop(cx, env, st, after)
        finally:
            self.depth -= 1

    def function(self, fundef, gen_name, params, **kw):
        for node in ast.walk(fundef):
            if isinstance(node, (ast.Global, ast.Nonlocal, ast.Lambda,
                                 ast.FunctionDef, ast.ClassDef, ast.With,
                                 ast.NamedExpr, ast.ListComp, ast.DictComp,
                                 ast.SetComp, ast.GeneratorExp, ast.Await,
                                 ast.Yield, ast.YieldFrom)) and \
                    node is not fundef:
                raise Unsupported(node, "construct")
        return super().function(fundef, gen_name, params, **kw)

    def write(self, filename, header):
        out = ["(* GENERATED by harness/py2v_codec.py from %s -- do not "
               "edit *)" % header,
               "From Coq Require Import ZArith List Bool String.",
               "Require Import PW.lib.Val PW.lib.Dec PW.lib.Py "
               "PW.lib.PyParam PW.lib.PyCodec.",
               "Import ListNotations.", "Open Scope string_scope.",
               "Open Scope list_scope.", "Open Scope Z_scope.", "",
               "Section Gen."]
        out += ["Variable %s : %s." % v for v in SECTION_VARS]
        out += self.defs
        out.append("End Gen.")
        os.makedirs(py2v.GEN, exist_ok=True)
        path = os.path.join(py2v.GEN, filename)
        text = "\n\n".join(out) + "\n"
        old = open(path).read() if os.path.exists(path) else None
        if old != text:
            with open(path, "w") as f:
                f.write(text)
        return path


# ------------------------------------------------------------ module level
def bindings(tree):
    """every binding of a name anywhere in the module: name -> [nodes]"""
    found = {}

    def add(name, node):
        found.setdefault(name, []).append(node)
    for node in ast.walk(tree):
        if isinstance(node, ast.Name) and \
                isinstance(node.ctx, (ast.Store, ast.Del)):
            add(node.id, node)
        elif isinstance(node, (ast.FunctionDef, ast.AsyncFunctionDef,
                               ast.ClassDef)):
            add(node.name, node)
        elif isinstance(node, (ast.Import, ast.ImportFrom)):
            for alias in node.names:
                add((alias.asname or alias.name).split(".")[0], node)
        elif isinstance(node, ast.arg):
            add(node.arg, node)
        elif isinstance(node, (ast.Global, ast.Nonlocal)):
            for name in node.names:
                add(name, node)
        elif isinstance(node, ast.ExceptHandler) and node.name:
            add(node.name, node)
    return found


def single(tree, found, name, kind):
    """the one binding of name in the module: a module-level statement"""
    nodes = found.get(name, [])
    if len(nodes) != 1:
        raise Unsupported(tree.body[0], "bindings of %s" % name)
    node = nodes[0]
    if isinstance(node, ast.Name):
        owner = [st for st in tree.body if isinstance(st, ast.Assign)
                 and len(st.targets) == 1 and st.targets[0] is node]
        if not owner:
            raise Unsupported(node, "binding of %s" % name)
        node = owner[0]
    if not any(st is node for st in tree.body) or not isinstance(node, kind):
        raise Unsupported(node, "binding of %s" % name)
    return node


def check_names(tree, unit):
    """the names the translator gives a fixed meaning are what it takes them
    for: builtins and exception classes are bound nowhere in the module; re,
    datetime, timezone come from their imports; the constants and the
    translated functions have their one module-level definition"""
    found = bindings(tree)
    fixed = set(FUNCTIONS) | {"ContentRange", "re", "datetime", "timezone",
                              "RE_BYTES_RANGE", "HEADER_DATETIME_FORMAT"}
    for node in ast.walk(tree):
        if isinstance(node, ast.Attribute) and \
                isinstance(node.ctx, (ast.Store, ast.Del)):
            root = node
            while isinstance(root, ast.Attribute):
                root = root.value
            if isinstance(root, ast.Name) and root.id in fixed:
                raise Unsupported(node, "attribute store on %s" % root.id)
    for name in BUILTINS + EXCEPTIONS:
        if name in found:
            raise Unsupported(found[name][0], "rebinding of %s" % name)
    imp = single(tree, found, "re", ast.Import)
    if [(a.name, a.asname) for a in imp.names] != [("re", None)]:
        raise Unsupported(imp, "import of re")
    imp = single(tree, found, "datetime", ast.ImportFrom)
    if imp is not single(tree, found, "timezone", ast.ImportFrom) or \
            imp.module != "datetime" or imp.level != 0 or \
            sorted((a.name, a.asname) for a in imp.names) != \
            [("datetime", None), ("timezone", None)]:
        raise Unsupported(imp, "import of datetime, timezone")
    unit.datetime_ok = True
    # NAME = re.compile(r"...")
    st = single(tree, found, "RE_BYTES_RANGE", ast.Assign)
    val = st.value
    if not (isinstance(val, ast.Call) and
            isinstance(val.func, ast.Attribute) and
            isinstance(val.func.value, ast.Name) and
            val.func.value.id == "re" and val.func.attr == "compile" and
            len(val.args) == 1 and not val.keywords and
            isinstance(val.args[0], ast.Constant) and
            isinstance(val.args[0].value, str)):
        raise Unsupported(st, "pattern definition")
    unit.regexes["RE_BYTES_RANGE"] = val.args[0].value
    # NAME = "..."
    st = single(tree, found, "HEADER_DATETIME_FORMAT", ast.Assign)
    if not (isinstance(st.value, ast.Constant) and
            isinstance(st.value.value, str)):
        raise Unsupported(st, "format definition")
    unit.strconsts["HEADER_DATETIME_FORMAT"] = st.value.value
    funs = {name: single(tree, found, name, ast.FunctionDef)
            for name in FUNCTIONS}
    funs["ContentRange"] = single(tree, found, "ContentRange", ast.ClassDef)
    return funs


def params_of(fun, count):
    """positional parameters and their constant defaults; annotations are
    dropped"""
    args = fun.args
    if args.vararg or args.kwarg or args.kwonlyargs or args.posonlyargs or \
            args.kw_defaults or fun.decorator_list or \
            len(args.args) != count:
        raise Unsupported(fun, "signature")
    for d in args.defaults:
        if not isinstance(d, ast.Constant):
            raise Unsupported(d, "default")
    return [a.arg for a in args.args], list(args.defaults)


def is_docstring(st):
    return isinstance(st, ast.Expr) and isinstance(st.value, ast.Constant) \
        and isinstance(st.value.value, str)


def content_range_class(cls):
    """the class reduced to __init__ (self.<field> = <parameter> only,
    constant defaults) and __str__ (one return); annotations and docstrings
    dropped; anything else in the class body is refused"""
    if cls.bases or cls.keywords or cls.decorator_list:
        raise Unsupported(cls, "class header")
    methods = {}
    for st in cls.body:
        if is_docstring(st) or (isinstance(st, ast.AnnAssign)
                                and st.value is None):
            continue
        if isinstance(st, ast.FunctionDef) and \
                st.name in ("__init__", "__str__") and st.name not in methods:
            methods[st.name] = st
            continue
        raise Unsupported(st, "class body")
    if sorted(methods) != ["__init__", "__str__"]:
        raise Unsupported(cls, "methods")
    init, tostr = methods["__init__"], methods["__str__"]
    params, _ = params_of(init, len(init.args.args))
    if not params or len(set(params)) != len(params):
        raise Unsupported(init, "signature")
    body = [st for st in init.body if not is_docstring(st)]
    for st in body:
        if not (isinstance(st, ast.Assign) and len(st.targets) == 1 and
                isinstance(st.targets[0], ast.Attribute) and
                isinstance(st.targets[0].value, ast.Name) and
                st.targets[0].value.id == params[0] and
                isinstance(st.value, ast.Name) and st.value.id in params[1:]):
            raise Unsupported(st, "constructor body")
    sparams, sdefaults = params_of(tostr, 1)
    if sdefaults or sparams != ["self"]:
        raise Unsupported(tostr, "signature")
    sbody = [st for st in tostr.body if not is_docstring(st)]
    init2 = ast.FunctionDef(name="__init__", args=init.args, body=body,
                            decorator_list=[], lineno=init.lineno)
    tostr2 = ast.FunctionDef(name="__str__", args=tostr.args, body=sbody,
                             decorator_list=[], lineno=tostr.lineno)
    return ast.ClassDef(name=cls.name, bases=[], keywords=[],
                        body=[init2, tostr2], decorator_list=[]), \
        len(params) - 1


def gen_content_range(unit, cls):
    """str(ContentRange(a0, .., a(n-1))) for every number n of positional
    arguments the signature allows (the defaults fill the rest)"""
    reduced, count = content_range_class(cls)
    ndefaults = len(cls_init(reduced).args.defaults)
    unit.inline = {"ContentRange": reduced}
    unit.fstring_ok = True
    try:
        for given in range(count - ndefaults, count + 1):
            names = ["a%d" % i for i in range(given)]
            fun = ast.parse("def f(%s):\n    obj = ContentRange(%s)\n"
                            "    return str(obj)\n" % (
                                ", ".join(names), ", ".join(names))).body[0]
            unit.function(fun, "gen_content_range_%d" % given, names)
    finally:
        unit.fstring_ok = False
        unit.inline = {}


def cls_init(cls):
    return [st for st in cls.body if st.name == "__init__"][0]


def drop_compiled():
    """py2v.regenerate removes gen/CodecGen.v when the translation is
    refused; the compiled files must go too, or the old CodecGen.vo would
    keep the dependent theorems compiling"""
    coq = os.path.dirname(py2v.GEN)
    for stem in (os.path.join(py2v.GEN, "CodecGen"),
                 os.path.join(coq, "proofs", "CodecGenEq")):
        for ext in (".vo", ".vos", ".vok", ".glob"):
            if os.path.exists(stem + ext):
                os.unlink(stem + ext)


def gen_codec():
    try:
        return translate()
    except Exception:
        drop_compiled()
        raise


def translate():
    tree = py2v.parse(SOURCE)
    unit = CodecUnit()
    funs = check_names(tree, unit)
    done = []

    def emit(name, params):
        # parameters by position (a0, a1, ...), not by spelling
        names = ["a%d" % i for i in range(len(params))]
        unit.function(funs[name], "gen_" + name, [], extra_params=names,
                      init_env=dict(zip(params, names)))
        unit.callees[name] = ("gen_" + name, params, {})
        done.append(name)

    def plain(name, count=1):
        params, defaults = params_of(funs[name], count)
        if defaults:
            raise Unsupported(funs[name], "defaults")
        emit(name, params)
    plain("parse_range")
    gen_content_range(unit, funs["ContentRange"])
    done.append("ContentRange.__init__/__str__")
    plain("parse_negotiation")
    plain("render_negotiation")
    plain("datetime_to_http")
    # time_to_http(value=None): the default as a definition of its own
    fun = funs["time_to_http"]
    params, defaults = params_of(fun, 1)
    emit("time_to_http", params)
    unit.defs.append(
        "Definition gen_time_to_http_defaults : list pv :=\n[%s]." % ";".join(
            unit.expr(None, {}, d, lambda a: a) for d in defaults))
    plain("http_to_datetime")
    plain("http_to_time")
    return unit.write("CodecGen.v", "%s %s" % (SOURCE, ", ".join(done)))


def register(TARGETS, OUTPUT):
    TARGETS["codec"] = gen_codec
    OUTPUT["codec"] = "CodecGen.v"
