"""Plugin: the body-reading entry points of poorwsgi/request.py ->
coq/gen/ReqInputGen.v (properties C09 / C10).

Translated (domain specific, by syntax, fail closed) over
coq/lib/PyReqInput.v:

    CachedInput.__init__                       -> gen_cached_init (+ defaults)
    Request.input (property)                   -> gen_request_input
    Request.data (property)                    -> gen_request_data
    Request.__read, Request.read               -> gen_request___read, gen_request_read
    Request.read_chunk                         -> gen_request_read_chunk

A function is a program of the free monad `prog`: attribute loads / stores
of self are pure operations on the instance dictionary, every method call on
another object (and every call of a whitelisted builtin) is a PCall node in
evaluation order, try/finally is PTry.

    stmt ::= self.<attr> = expr | <local> = expr | return [expr]
           | if test: stmts [else: stmts]            (rest duplicated)
           | try: stmts finally: stmts               (last statement only)
           | expr                                    (a call, for effect)
           | pass | docstring | log.<x>(...)         (dropped, by name)
    expr ::= None/int/-int/float/bytes/str/bool literal | parameter | local
           | self.<data attr>                        attr o "<mangled>"
           | self.<property of Request/SimpleRequest> inlined (the property
                 must be [docstring] return <pure expr>, no setter looked at)
           | self.<method>                           self_method o "<mangled>"
           | <expr>.get("<literal>")                 rv_get (dict lookup)
           | CachedInput(<exprs>)                    RNew "CachedInput" [...]
           | int(<exprs>, kw=<expr>)                 PCall (RBuiltin "int")
           | self.<method>(<exprs>)                  PCall (self_method ..) "__call__"
           | <expr>.<m>(<exprs>, kw=<expr>)          PCall <expr> "<m>"
    test ::= not test | test and/or test (pure operands)
           | e < e [< e] (also <=, >, >=) | e ==/!= "<literal>"
           | isinstance(e, <Name>) | e (truth value)

Parameters are named by position (a1, a2, ...), locals by SSA position
(v_n), so spelling does not matter; annotations, docstrings, comments and
`log.*(...)` statements are dropped.  `self.__x` is written with the name
mangled for the class whose body contains the text.

Trusted tables: TRUE_CLASSES check (CachedInput has no __bool__/__len__),
BUILTINS (names called through PCall), CONSTRUCTORS (classes whose call is
the pure value RNew; CachedInput.__init__ is translated and only stores
attributes), `.get("<literal>")` is a dict lookup, comparison operators ->
rv_lt/rv_le/rv_gt/rv_ge, decorators: the four properties are `@property`
only, methods undecorated."""
import ast
import os

import py2v
from py2v import Unsupported

SOURCE = "poorwsgi/request.py"
BUILTINS = ("int",)
CONSTRUCTORS = ("CachedInput",)
CMP = {ast.Lt: "rv_lt", ast.LtE: "rv_le", ast.Gt: "rv_gt", ast.GtE: "rv_ge"}
MAX_INLINE = 3


def slit(text):
    return '"%s"' % text.replace('"', '""')


def zlit(num):
    return "(%d)" % num if num < 0 else "%d" % num


def is_log_call(st):
    return isinstance(st, ast.Expr) and isinstance(st.value, ast.Call) and \
        isinstance(st.value.func, ast.Attribute) and \
        isinstance(st.value.func.value, ast.Name) and \
        st.value.func.value.id == "log"


def is_string_stmt(st):
    return isinstance(st, ast.Expr) and \
        isinstance(st.value, ast.Constant) and \
        isinstance(st.value.value, str)


def mangled(cls, attr):
    if attr.startswith("__") and not attr.endswith("__"):
        return "_" + cls.name.lstrip("_") + attr
    return attr


class Classes:
    """the classes of request.py that matter: Request and its bases (by
    Name), CachedInput"""

    def __init__(self, tree):
        self.tree = tree
        self.by_name = {}
        for node in tree.body:
            if isinstance(node, ast.ClassDef):
                if node.name in self.by_name:
                    raise Unsupported(node, "class defined twice")
                self.by_name[node.name] = node
        for node in ast.walk(tree):
            if isinstance(node, ast.ClassDef) and node not in tree.body \
                    and node.name in ("Request", "SimpleRequest",
                                      "CachedInput"):
                raise Unsupported(node, "nested class of the same name")
            if isinstance(node, ast.Name) and \
                    not isinstance(node.ctx, ast.Load) and node.id in (
                        "Request", "SimpleRequest", "CachedInput",
                        "property", "isinstance", "BytesIO") + BUILTINS:
                raise Unsupported(node, "rebinding")
            if isinstance(node, (ast.FunctionDef, ast.AsyncFunctionDef)) \
                    and node.name in ("property", "isinstance", "BytesIO",
                                      "CachedInput") + BUILTINS:
                raise Unsupported(node, "rebinding")

    def mro(self, name):
        out = []
        while True:
            cls = self.by_name.get(name)
            if cls is None:
                raise Unsupported(self.tree, "class %s" % name)
            if cls.keywords or cls.decorator_list:
                raise Unsupported(cls, "metaclass / decorators")
            out.append(cls)
            if not cls.bases:
                return out
            if len(cls.bases) != 1 or not isinstance(cls.bases[0], ast.Name):
                raise Unsupported(cls, "bases")
            name = cls.bases[0].id

    def member(self, clsname, attr):
        """(class, defs of `attr`) in the first class of the mro that binds
        it at class level; (None, []) if none does"""
        for cls in self.mro(clsname):
            found = []
            for st in cls.body:
                if isinstance(st, (ast.FunctionDef, ast.AsyncFunctionDef,
                                   ast.ClassDef)):
                    if st.name == attr:
                        found.append(st)
                    continue
                for node in ast.walk(st):
                    if isinstance(node, ast.Name) and node.id == attr and \
                            not isinstance(node.ctx, ast.Load):
                        raise Unsupported(node, "class-level binding")
            if found:
                return cls, found
        return None, []


def is_property(defs):
    """`@property def x` possibly followed by `@x.setter def x`"""
    first = defs[0]
    deco = first.decorator_list
    if not (isinstance(first, ast.FunctionDef) and len(deco) == 1 and
            isinstance(deco[0], ast.Name) and deco[0].id == "property"):
        return False
    for other in defs[1:]:
        deco = other.decorator_list
        if not (isinstance(other, ast.FunctionDef) and len(deco) == 1 and
                isinstance(deco[0], ast.Attribute) and
                isinstance(deco[0].value, ast.Name) and
                deco[0].value.id == first.name and
                deco[0].attr == "setter"):
            raise Unsupported(other, "decorator")
    return True


def is_method(defs):
    return len(defs) == 1 and isinstance(defs[0], ast.FunctionDef) and \
        not defs[0].decorator_list


def signature(fun, defaults_ok=False):
    args = fun.args
    if args.posonlyargs or args.kwonlyargs or args.vararg or args.kwarg \
            or args.kw_defaults or not args.args:
        raise Unsupported(fun, "signature")
    if args.defaults and not defaults_ok:
        raise Unsupported(fun, "defaults")
    names = [a.arg for a in args.args]
    if len(set(names)) != len(names):
        raise Unsupported(fun, "signature")
    for node in ast.walk(fun):
        if isinstance(node, ast.Name) and node.id in names and \
                not isinstance(node.ctx, ast.Load):
            raise Unsupported(node, "parameter rebound")
        if node is not fun and isinstance(
                node, (ast.FunctionDef, ast.AsyncFunctionDef, ast.Lambda,
                       ast.ClassDef, ast.Global, ast.Nonlocal, ast.Yield,
                       ast.YieldFrom, ast.Await, ast.NamedExpr)):
            raise Unsupported(node, "nested scope / generator")
    return names


def literal(node):
    """Gallina rv for a literal, or None"""
    if isinstance(node, ast.UnaryOp) and isinstance(node.op, ast.USub) and \
            isinstance(node.operand, ast.Constant) and \
            type(node.operand.value) is int:
        return "(RInt %s)" % zlit(-node.operand.value)
    if not isinstance(node, ast.Constant):
        return None
    val = node.value
    if val is None:
        return "RNone"
    if type(val) is bool:
        return "(RBool %s)" % ("true" if val else "false")
    if type(val) is int:
        return "(RInt %s)" % zlit(val)
    if type(val) is float:
        if val != val or val in (float("inf"), float("-inf")):
            raise Unsupported(node, "float")
        num, den = val.as_integer_ratio()
        return "(RRat %s %s)" % (zlit(num), zlit(den))
    if type(val) is bytes:
        return "(RBytes [%s])" % "; ".join(str(b) for b in val)
    if type(val) is str:
        if any(ord(c) > 126 or ord(c) < 32 for c in val):
            raise Unsupported(node, "string literal")
        return "(RStr %s)" % slit(val)
    raise Unsupported(node, "constant")


class FunUnit:
    """one function of class `cls` (mangling) with self = names[0]"""

    def __init__(self, classes, clsname, cls, names, counter=None, depth=0):
        self.classes = classes
        self.clsname = clsname      # class of the object (for member lookup)
        self.cls = cls              # class whose body holds the text
        self.selfname = names[0]
        self.env = {n: "a%d" % i for i, n in enumerate(names) if i}
        self.counter = counter if counter is not None else [0]
        self.depth = depth

    def fresh(self, prefix):
        self.counter[0] += 1
        return "%s_%d" % (prefix, self.counter[0])

    def is_self(self, node):
        return isinstance(node, ast.Name) and node.id == self.selfname

    # ------------------------------------------------------------ pure
    def self_attr(self, node, cur):
        name = node.attr
        owner, defs = self.classes.member(self.clsname, name) \
            if not name.startswith("__") or name.endswith("__") \
            else self.classes.member(self.cls.name, name)
        if not defs:
            return "(attr %s %s)" % (cur, slit(mangled(self.cls, name)))
        if mangled(self.cls, name) != name and owner is not self.cls:
            raise Unsupported(node, "private name of a base class")
        if is_property(defs):
            if self.depth >= MAX_INLINE:
                raise Unsupported(node, "property nesting")
            getter = defs[0]
            names = signature(getter)
            if len(names) != 1:
                raise Unsupported(getter, "property signature")
            body = [st for st in getter.body
                    if not (is_string_stmt(st) or is_log_call(st))]
            if not (len(body) == 1 and isinstance(body[0], ast.Return)
                    and body[0].value is not None):
                raise Unsupported(getter, "property body")
            sub = FunUnit(self.classes, self.clsname, owner, names,
                          self.counter, self.depth + 1)
            return sub.pure(body[0].value, cur)
        if is_method(defs):
            return "(self_method %s %s)" % (cur, slit(mangled(owner, name)))
        raise Unsupported(node, "class member")

    def pure(self, node, cur):
        """rv term of an expression without calls of unknown objects"""
        lit = literal(node)
        if lit is not None:
            return lit
        if isinstance(node, ast.Name) and isinstance(node.ctx, ast.Load):
            if node.id in self.env:
                return self.env[node.id]
            raise Unsupported(node, "name")
        if isinstance(node, ast.Attribute) and \
                isinstance(node.ctx, ast.Load) and self.is_self(node.value):
            return self.self_attr(node, cur)
        if isinstance(node, ast.Call) and not node.keywords and \
                isinstance(node.func, ast.Attribute) and \
                node.func.attr == "get" and len(node.args) == 1 and \
                isinstance(node.args[0], ast.Constant) and \
                type(node.args[0].value) is str:
            return "(rv_get %s %s)" % (self.pure(node.func.value, cur),
                                       slit(node.args[0].value))
        if isinstance(node, ast.Call) and not node.keywords and \
                isinstance(node.func, ast.Name) and \
                node.func.id in CONSTRUCTORS and \
                not any(isinstance(a, ast.Starred) for a in node.args):
            return "(RNew %s [%s])" % (
                slit(node.func.id),
                "; ".join(self.pure(a, cur) for a in node.args))
        if isinstance(node, ast.Compare) or (
                isinstance(node, ast.UnaryOp)
                and isinstance(node.op, ast.Not)):
            return "(RBool %s)" % self.test(node, cur)
        raise Unsupported(node, "expression")

    def test(self, node, cur):
        """bool term"""
        if isinstance(node, ast.UnaryOp) and isinstance(node.op, ast.Not):
            return "(negb %s)" % self.test(node.operand, cur)
        if isinstance(node, ast.BoolOp):
            fn = "andb" if isinstance(node.op, ast.And) else "orb"
            out = self.test(node.values[-1], cur)
            for val in reversed(node.values[:-1]):
                out = "(%s %s %s)" % (fn, self.test(val, cur), out)
            return out
        if isinstance(node, ast.Compare):
            terms = [node.left] + list(node.comparators)
            parts = []
            for i, oper in enumerate(node.ops):
                left, right = terms[i], terms[i + 1]
                if type(oper) in CMP:
                    parts.append("(%s %s %s)" % (
                        CMP[type(oper)], self.pure(left, cur),
                        self.pure(right, cur)))
                elif isinstance(oper, (ast.Eq, ast.NotEq)) and \
                        isinstance(right, ast.Constant) and \
                        type(right.value) is str:
                    text = "(rv_eq_str %s %s)" % (self.pure(left, cur),
                                                  slit(right.value))
                    if isinstance(oper, ast.NotEq):
                        text = "(negb %s)" % text
                    parts.append(text)
                else:
                    raise Unsupported(node, "comparison")
            out = parts[-1]
            for part in reversed(parts[:-1]):
                out = "(andb %s %s)" % (part, out)
            return out
        if isinstance(node, ast.Call) and isinstance(node.func, ast.Name) \
                and node.func.id == "isinstance" and not node.keywords and \
                len(node.args) == 2 and isinstance(node.args[1], ast.Name):
            return "(isinstance %s %s)" % (self.pure(node.args[0], cur),
                                           slit(node.args[1].id))
        return "(truthy %s)" % self.pure(node, cur)

    # ------------------------------------------------------- effectful
    def expr(self, node, cur, cont):
        """program text; cont(term) is the text of the continuation"""
        if isinstance(node, ast.Call) and not (
                isinstance(node.func, ast.Name)
                and node.func.id in CONSTRUCTORS) and not (
                isinstance(node.func, ast.Attribute)
                and node.func.attr == "get"):
            if any(isinstance(a, ast.Starred) for a in node.args) or \
                    any(k.arg is None for k in node.keywords):
                raise Unsupported(node, "star arguments")
            func = node.func
            if isinstance(func, ast.Name) and func.id in BUILTINS:
                head = lambda k: k("(RBuiltin %s)" % slit(func.id),  # noqa
                                   "__call__")
            elif isinstance(func, ast.Attribute) and \
                    self.is_self(func.value):
                owner, defs = self.classes.member(
                    self.clsname if not func.attr.startswith("__")
                    else self.cls.name, func.attr)
                if not defs or not is_method(defs):
                    raise Unsupported(node, "call of a non-method of self")
                head = lambda k: k("(self_method %s %s)" % (  # noqa
                    cur, slit(mangled(owner, func.attr))), "__call__")
            elif isinstance(func, ast.Attribute):
                head = lambda k: self.expr(  # noqa
                    func.value, cur, lambda recv: k(recv, func.attr))
            else:
                raise Unsupported(node, "call")
            operands = list(node.args) + [k.value for k in node.keywords]

            def with_args(recv, meth, done, todo):
                if todo:
                    return self.expr(
                        todo[0], cur,
                        lambda t: with_args(recv, meth, done + [t],
                                            todo[1:]))
                pos = done[:len(node.args)]
                kws = ["(%s, %s)" % (slit(k.arg), t) for k, t in
                       zip(node.keywords, done[len(node.args):])]
                res = self.fresh("t")
                return "PCall %s %s [%s] [%s] %s (fun %s =>\n  %s)" % (
                    recv, slit(meth), "; ".join(pos), "; ".join(kws), cur,
                    res, cont(res))
            return head(lambda recv, meth: with_args(recv, meth, [],
                                                     operands))
        return cont(self.pure(node, cur))

    def block(self, stmts, cur):
        if not stmts:
            return "PRet RNone %s" % cur
        st, rest = stmts[0], stmts[1:]
        if is_string_stmt(st) or is_log_call(st) or isinstance(st, ast.Pass):
            return self.block(rest, cur)
        if isinstance(st, ast.Return):
            if st.value is None:
                return "PRet RNone %s" % cur
            return self.expr(st.value, cur,
                             lambda t: "PRet %s %s" % (t, cur))
        if isinstance(st, ast.Assign) and len(st.targets) == 1:
            target = st.targets[0]
            if isinstance(target, ast.Attribute) and \
                    self.is_self(target.value):
                new = self.fresh("o")
                name = slit(mangled(self.cls, target.attr))
                return self.expr(
                    st.value, cur,
                    lambda t: "let %s := store %s %s %s in\n  %s" % (
                        new, cur, name, t, self.block(rest, new)))
            if isinstance(target, ast.Name):
                if target.id == self.selfname:
                    raise Unsupported(st, "self rebound")
                new = self.fresh("v")

                def bind(term):
                    old = self.env.get(target.id)
                    self.env[target.id] = new
                    text = "let %s := %s in\n  %s" % (
                        new, term, self.block(rest, cur))
                    if old is None:
                        del self.env[target.id]
                    else:
                        self.env[target.id] = old
                    return text
                return self.expr(st.value, cur, bind)
            raise Unsupported(st, "assignment target")
        if isinstance(st, ast.If):
            test = self.test(st.test, cur)
            return "if %s\n  then (%s)\n  else (%s)" % (
                test, self.block(list(st.body) + rest, cur),
                self.block(list(st.orelse) + rest, cur))
        if isinstance(st, ast.Try):
            if st.handlers or st.orelse or not st.finalbody or rest:
                raise Unsupported(st, "try shape")
            new = self.fresh("o")
            return "PTry (%s)\n  (fun %s => %s)" % (
                self.block(list(st.body), cur), new,
                self.block(list(st.finalbody), new))
        if isinstance(st, ast.Expr) and isinstance(st.value, ast.Call):
            return self.expr(st.value, cur,
                             lambda t: self.block(rest, cur))
        raise Unsupported(st, "statement")


def no_return_in_finally(fun):
    for node in ast.walk(fun):
        if isinstance(node, ast.Try):
            for st in node.finalbody:
                for sub in ast.walk(st):
                    if isinstance(sub, (ast.Return, ast.Break,
                                        ast.Continue, ast.Raise)):
                        raise Unsupported(sub, "control flow in finally")


def translate_fun(classes, clsname, name, kind, out_name, nargs):
    """kind: 'property' or 'method'; nargs = parameters after self"""
    private = name.startswith("__") and not name.endswith("__")
    owner, defs = classes.member(clsname, name)
    if not defs or (private and owner.name != clsname):
        raise Unsupported(classes.tree, "%s.%s" % (clsname, name))
    if kind == "property":
        if not is_property(defs) or len(defs) != 1:
            raise Unsupported(defs[0], "not a read-only property")
    elif not is_method(defs):
        raise Unsupported(defs[0], "not a plain method")
    fun = defs[0]
    names = signature(fun, defaults_ok=True)
    if len(names) != nargs + 1:
        raise Unsupported(fun, "number of parameters")
    no_return_in_finally(fun)
    unit = FunUnit(classes, clsname, owner, names)
    params = "".join(" (a%d : rv)" % i for i in range(1, nargs + 1))
    text = "Definition %s (o : obj)%s : prog :=\n  %s." % (
        out_name, params, unit.block(list(fun.body), "o"))
    dflt = fun.args.defaults
    first = len(names) - len(dflt)
    pairs = []
    for i, node in enumerate(dflt):
        lit = literal(node)
        if lit is None:
            raise Unsupported(node, "default value")
        pairs.append("(%d, %s)" % (first + i, lit))
    text += "\nDefinition %s_defaults : list (Z * rv) :=\n  [%s]." % (
        out_name, "; ".join(pairs))
    return text


def check_true_classes(classes):
    for name in CONSTRUCTORS:
        for attr in ("__bool__", "__len__", "__new__", "__getattr__",
                     "__getattribute__", "__setattr__", "__slots__"):
            if classes.member(name, attr)[1]:
                raise Unsupported(classes.by_name[name],
                                  "%s defines %s" % (name, attr))
    for attr in ("__getattr__", "__getattribute__", "__setattr__",
                 "__slots__"):
        if classes.member("Request", attr)[1]:
            raise Unsupported(classes.by_name["Request"],
                              "Request defines %s" % attr)


FUNCTIONS = [
    # class, member, kind, generated name, parameters after self
    ("CachedInput", "__init__", "method", "gen_cached_init", 4),
    ("Request", "input", "property", "gen_request_input", 0),
    ("Request", "__read", "method", "gen_request___read", 1),
    ("Request", "read", "method", "gen_request_read", 1),
    ("Request", "data", "property", "gen_request_data", 0),
    ("Request", "read_chunk", "method", "gen_request_read_chunk", 0),
]


def drop_compiled():
    """nothing stale may discharge an obligation"""
    coq = os.path.dirname(py2v.GEN)
    for stem in (os.path.join(py2v.GEN, "ReqInputGen"),
                 os.path.join(coq, "proofs", "ReqInputGenEq")):
        for ext in (".vo", ".vos", ".vok", ".glob"):
            if os.path.exists(stem + ext):
                os.unlink(stem + ext)


def translate():
    tree = py2v.parse(SOURCE)
    classes = Classes(tree)
    check_true_classes(classes)
    out = ["(* GENERATED by harness/py2v_reqinput.py from poorwsgi/request.py"
           " (CachedInput.__init__; Request.input, data, read, __read, "
           "read_chunk) -- do not edit *)",
           "From Coq Require Import ZArith List Bool String.",
           "Require Import PW.lib.PyReqInput.",
           "Import ListNotations.", "Open Scope string_scope.",
           "Open Scope Z_scope.", ""]
    for clsname, name, kind, out_name, nargs in FUNCTIONS:
        out.append(translate_fun(classes, clsname, name, kind, out_name,
                                 nargs))
        out.append("")
    path = os.path.join(py2v.GEN, "ReqInputGen.v")
    new = "\n".join(out)
    old = open(path).read() if os.path.exists(path) else None
    if old != new:
        with open(path, "w") as fil:
            fil.write(new)
    return path


def gen_reqinput():
    try:
        return translate()
    except Exception:
        drop_compiled()
        raise


def register(TARGETS, OUTPUT):
    TARGETS["reqinput"] = gen_reqinput
    OUTPUT["reqinput"] = "ReqInputGen.v"
