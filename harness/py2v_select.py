"""Translator tie for the route-selection skeleton (C02, C20):

    poorwsgi/wsgi.py  Application.handler_from_default
                      Application.handler_from_table
        ->  coq/gen/SelectGen.v   (gen_handler_from_default,
                                   gen_handler_from_table[_loop_<n>])

Domain-specific and fail closed.  The two methods are walked statement by
statement (Python `ast`); what is GENERATED FROM THE SYNTAX is the control
skeleton: the order of the tests, the conjuncts of every test, the nesting,
which branch returns / raises what, first-match-wins of the `for` loop, and
the constants ('/debug-info', '/*', METHOD_HEAD | METHOD_GET and the HTTP
status codes, the latter read from poorwsgi/state.py by `ast`).  The leaves
of that skeleton are terms over the primitives of coq/model/Routing.v.

TRUSTED (the tables below, nothing else):
  ATOMS    Python expression  -> model primitive (section variable or
           projection of the model's [app]);
  ATTRS / METHODS / FS_TESTS / ENTRY_FIELDS / RFILE_EXPR
           attribute reads, method calls and the three file-system tests;
  LEAVES   what each constructor of Routing.selection stands for -- a
           line-by-line mirror of Routing.enc_sel: the callable that runs (or
           the status raised), uri_rule / uri_handler as the before-hooks see
           them, the hooks having run, path_args as the handler sees them.
           A leaf of the source whose request state fits no row is refused.
  DROPPED  statements without a counterpart in Routing.selection.
Everything else raises py2v.Unsupported: the generated file is removed and
the theorems C02_generated_* / C20_generated_* stop compiling.

Local variables are named by position (v1, v2, ...), so renaming a local or
adding comments / log calls leaves the generated text unchanged.
"""
import ast
import os

import py2v
from py2v import Unsupported

# ===================================================================== TRUSTED
T_STR, T_INT, T_BOOL = ("str",), ("int",), ("bool",)
T_ENTRY, T_CONVS, T_OPTSTR = ("entry",), ("convs",), ("optstr",)
T_PARGS, T_VALUES = ("pargs",), ("values",)


def T_DICT(key, val):
    return ("dict", key, val)


def T_FUN(origin):
    """identifier of a user handler; origin = the table it was read from"""
    return ("fun", origin)


# section variables of the generated file, in this order (each definition is
# abstracted over the ones it uses)
VARS = [("U", "uclass"),          # Unicode classes used by re / int / float
        ("a", "app"),             # the application's tables
        ("debug", "bool"),        # req.debug
        ("root", "bool"),         # bool(req.document_root)
        ("index", "bool"),        # req.document_index
        ("f_exists", "bool"),     # path.exists(rfile)
        ("f_isfile", "bool"),     # path.isfile(rfile)
        ("f_isdir", "bool"),      # path.isdir(rfile)
        ("f_access", "bool"),     # access(rfile, R_OK)
        ("m", "Z"),               # req.method_number
        ("path", "list Z")]       # req.path

# dotted Python expression -> (Coq term or None, type)
ATOMS = {
    "req": (None, ("req",)),
    "self": (None, ("self",)),
    "req.path": ("path", T_STR),
    "req.method_number": ("m", T_INT),
    "req.debug": ("debug", T_BOOL),
    "req.document_root": ("root", ("truth",)),      # only its truth value
    "req.document_index": ("index", T_BOOL),
    "self.__handlers":
        ("(a_static a)", T_DICT(T_STR, T_DICT(T_INT, T_FUN("route")))),
    "self.__dhandlers": ("(a_defaults a)", T_DICT(T_INT, T_FUN("default"))),
    "self.__rhandlers": ("(a_pats a)", ("pats",)),  # ordered, keys = patterns
    "debug_info": (None, ("builtin", "debug_info")),
    "directory_index": (None, ("builtin", "directory_index")),
    "FileResponse": (None, ("builtin", "FileResponse")),
    "R_OK": (None, ("r_ok",)),
}
# a key `ruri` of the iterated self.__rhandlers: self.__rhandlers[ruri]
PAT_TABLE = ("(p_tab %s)", T_DICT(T_INT, T_ENTRY))
# (type of the receiver, attribute) -> (Coq term, type)
ATTRS = {("pat", "pattern"): ("(p_text %s)", T_STR)}
# the tuple stored by set_regular_route: (fun, converters, rule)
ENTRY_FIELDS = [("(pe_fun %s)", T_FUN("route")), ("(pe_convs %s)", T_CONVS),
                ("(pe_rule %s)", T_OPTSTR)]
# file-system tests on rfile: dotted callee -> (section variable, arguments)
FS_TESTS = {"path.exists": ("f_exists", ["rfile"]),
            "path.isfile": ("f_isfile", ["rfile"]),
            "path.isdir": ("f_isdir", ["rfile"]),
            "access": ("f_access", ["rfile", "r_ok"])}
# the file the three tests are about (the model's [fskind] describes it;
# the normalisation itself is the subject of C03)
RFILE_EXPR = ("'%s%s' % (req.document_root, "
              "path.normpath('/%s' % req.path.lstrip('/')))")
# callables that are not translated but stand for a model notion
HOOKS_CALL = "self.handler_from_before"       # the before-hooks run here
DEFAULT_CALL = "self.handler_from_default"    # -> gen_handler_from_default
EXCEPTION = "HTTPException"
# request attributes with a write-once setter (poorwsgi/request.py: the
# first assignment of a value is kept); unset = None, path_args unset = {}
REQ_ATTRS = ("uri_rule", "uri_handler", "path_args")

# Routing.selection constructors = rows of Routing.enc_sel.
#   what runs / is raised, uri_rule and uri_handler seen by the before-hooks
#   (None = unset), path_args seen by the handler (None = unset).
# In every row the before-hooks have run before the leaf.
# "{h}" a user handler (origin as given), "{rule}" any str, "{args}" the
# positional arguments after req ("*x.values()" or none), "{pargs}" the
# value of req.path_args (or [] when unset).
LEAVES = [
    ("S405", ("raise", 405), None, None, None),
    ("S403", ("raise", 403), None, None, None),
    ("S404", ("raise", 404), "/*", None, None),
    ("SFile", ("call", "FileResponse", ["rfile"]), "/*", None, None),
    ("SDir", ("call", "directory_index", ["req", "rfile"]),
     "/*", "directory_index", None),
    ("SDebug", ("call", "debug_info", ["req", "self"]),
     "/debug-info", "debug_info", None),
    ("SDefault {h}", ("call", "{h}:default", ["req"]), "/*", "{h}", None),
    ("SHandler {h} {args} {pargs} {rule}",
     ("call", "{h}:route", ["req", "{args}"]), "{rule}", "{h}", "{pargs}"),
]
# a converter raising while req.path_args is computed: the request fails
# before the hooks ran (SConvError, enc_sel: ran = false); SUnknown is the
# model's own "outside the modelled converters"
CONVERT = ("(convert_all U (p_re {p}) {c} {convs})",
           'Raised "raise" => SConvError', "Raised _ => SUnknown")

# statements dropped (nothing of Routing.selection depends on them):
#   docstrings, calls of log.*
DROPPED_CALL_PREFIX = "log."

PREAMBLE = '''\
(* fixed part: the Python operations of the translated code on the model's
   data (harness/py2v_select.py, trusted tables) *)
(* rule or ruri.pattern *)
Definition str_or (o : option (list Z)) (d : list Z) : list Z :=
  match o with Some (x :: u) => x :: u | _ => d end.
(* match.groups() *)
Definition m_groups (p : pat) (c : caps) : list value :=
  map opt_value (groups_list (p_n p) c).
(* match.groupdict() *)
Definition m_groupdict (p : pat) (c : caps) : list (list Z * value) :=
  map (fun ni => (fst ni, opt_value (cap_get (snd ni) c)))
      (group_names (p_re p) (p_n p)).
'''
# (type of the receiver, method, number of arguments) -> (Coq term, type);
# {0} receiver, {p} the pattern a match object belongs to, {1} argument
METHODS = {
    ("pat", "match", 1): ("(re_match U (p_re {0}) {1})", "optmatch"),
    ("match", "groups", 0): ("(m_groups {p} {0})", T_VALUES),
    ("match", "groupdict", 0): ("(m_groupdict {p} {0})", T_PARGS),
    ("pargs", "values", 0): ("(map snd {0})", T_VALUES),
}
# ================================================================ end TRUSTED


class Value:
    def __init__(self, term, typ, const=None):
        self.term, self.typ, self.const = term, typ, const

    def same(self, other):
        return other is not None and self.term == other.term and \
            self.typ == other.typ


class State:
    """what is known at one program point"""
    def __init__(self):
        self.env = {}           # local name -> Value
        self.known = {}         # (dict term, key term) -> Value  (key present)
        self.attrs = {n: None for n in REQ_ATTRS}   # assigned request attrs
        self.hooks = None       # None, or (uri_rule, uri_handler) they saw

    def copy(self):
        new = State()
        new.env, new.known = dict(self.env), dict(self.known)
        new.attrs, new.hooks = dict(self.attrs), self.hooks
        return new

    def pristine(self):
        return self.hooks is None and \
            all(v is None for v in self.attrs.values())

    def req_key(self):
        return (tuple((n, v.term if v else None)
                      for n, v in sorted(self.attrs.items())),
                None if self.hooks is None else tuple(
                    v.term if v else None for v in self.hooks))


def dotted(node):
    if isinstance(node, ast.Name):
        return node.id
    if isinstance(node, ast.Attribute):
        base = dotted(node.value)
        return None if base is None else "%s.%s" % (base, node.attr)
    return None


class Fn:
    """one translated method"""
    def __init__(self, tr, fundef, gen_name):
        self.tr, self.fundef, self.gen_name = tr, fundef, gen_name
        self.counter = 0
        self.loops = []
        self.nloops = 0
        args = fundef.args
        if [x.arg for x in args.args] != ["self", "req"] or args.vararg or \
                args.kwarg or args.kwonlyargs or args.defaults or \
                fundef.decorator_list:
            raise Unsupported(fundef, "signature is not (self, req)")

    def fresh(self):
        self.counter += 1
        return "v%d" % self.counter

    # ------------------------------------------------------------ expressions
    def ev(self, node, st):
        """pure expressions only"""
        if isinstance(node, ast.Constant):
            v = node.value
            if isinstance(v, str):
                return Value(py2v.strlit(v), T_STR, v)
            if isinstance(v, int) and not isinstance(v, bool):
                return Value(py2v.zl(v), T_INT, v)
            raise Unsupported(node, "constant")
        name = dotted(node)
        if name is not None:
            if isinstance(node, ast.Name) and name in st.env:
                return st.env[name]
            head = name.split(".")[0]
            if head in st.env:
                if not isinstance(node.value, ast.Name):
                    raise Unsupported(node, "attribute chain on a local")
                base = st.env[head]
                hit = ATTRS.get((base.typ[0], node.attr))
                if hit is None:
                    raise Unsupported(node, "attribute of a %s" % base.typ[0])
                return Value(hit[0] % base.term, hit[1])
            if name in ATOMS:
                return Value(*ATOMS[name])
            if name in self.tr.consts:
                val = self.tr.consts[name]
                return Value(py2v.zl(val), T_INT, val)
            if head == "req" and name[4:] in REQ_ATTRS:
                val = st.attrs[name[4:]]
                if val is None:
                    raise Unsupported(node, "read of an unset attribute")
                return val
            raise Unsupported(node, "unknown name %s" % name)
        if isinstance(node, ast.Subscript):
            return self.subscript(node, st)
        if isinstance(node, ast.BinOp):
            if isinstance(node.op, ast.Mod):
                want = ast.dump(ast.parse(RFILE_EXPR, mode="eval").body)
                if ast.dump(node) == want:
                    return Value(None, ("rfile",))
                raise Unsupported(node, "not the rfile expression")
            ops = {ast.BitAnd: "Z.land", ast.BitOr: "Z.lor"}
            fn = ops.get(type(node.op))
            left, right = self.ev(node.left, st), self.ev(node.right, st)
            if fn is None or left.typ != T_INT or right.typ != T_INT:
                raise Unsupported(node, "operator")
            return Value("(%s %s %s)" % (fn, left.term, right.term), T_INT)
        if isinstance(node, ast.BoolOp) and isinstance(node.op, ast.Or) and \
                len(node.values) == 2:
            left, right = (self.ev(v, st) for v in node.values)
            if left.typ == T_OPTSTR and right.typ == T_STR:
                return Value("(str_or %s %s)" % (left.term, right.term),
                             T_STR)
            raise Unsupported(node, "`or` of these types")
        if isinstance(node, ast.Compare):
            if len(node.ops) != 1:
                raise Unsupported(node, "chained comparison")
            left = self.ev(node.left, st)
            right = self.ev(node.comparators[0], st)
            if isinstance(node.ops[0], ast.Eq) and left.typ == T_STR and \
                    right.typ == T_STR:
                return Value("(lz_eqb %s %s)" % (left.term, right.term),
                             T_BOOL)
            raise Unsupported(node, "comparison")
        if isinstance(node, ast.Call):
            return self.call(node, st)
        raise Unsupported(node, "expression")

    def subscript(self, node, st):
        if isinstance(node.slice, ast.Slice):
            raise Unsupported(node, "slice")
        box, key = self.ev(node.value, st), self.ev(node.slice, st)
        if box.typ == ("pats",):
            if key.typ != ("pat", box.term):
                raise Unsupported(node, "key is not the loop variable")
            return Value(PAT_TABLE[0] % key.term, PAT_TABLE[1])
        if box.typ[0] == "dict" and box.typ[1] == key.typ:
            hit = st.known.get((box.term, key.term))
            if hit is None:
                raise Unsupported(node, "lookup not guarded by an `in` test "
                                  "(KeyError)")
            return hit
        raise Unsupported(node, "subscript")

    def call(self, node, st):
        if node.keywords:
            raise Unsupported(node, "keywords")
        fname = dotted(node.func)
        if fname in FS_TESTS:
            var, want = FS_TESTS[fname]
            got = [self.ev(x, st).typ[0] for x in node.args]
            if got != want:
                raise Unsupported(node, "arguments of %s" % fname)
            return Value(var, T_BOOL)
        if isinstance(node.func, ast.Attribute):
            recv = self.ev(node.func.value, st)
            hit = METHODS.get((recv.typ[0], node.func.attr, len(node.args)))
            if hit is None:
                raise Unsupported(node, "method of a %s" % recv.typ[0])
            args = [self.ev(x, st) for x in node.args]
            if any(x.typ != T_STR for x in args):
                raise Unsupported(node, "argument type")
            pat = recv.typ[1] if recv.typ[0] == "match" else None
            term = hit[0].format(recv.term, *[x.term for x in args], p=pat)
            typ = ("optmatch", recv.term) if hit[1] == "optmatch" else hit[1]
            return Value(term, typ)
        raise Unsupported(node, "call")

    def conversion(self, node, st):
        """OrderedDict((g, c(match.group(g))) for (g, c) in converters)
        -> (pattern, captures, converters) or None"""
        if not (isinstance(node, ast.Call) and
                dotted(node.func) == "OrderedDict"):
            return None
        if node.keywords or len(node.args) != 1 or \
                not isinstance(node.args[0], ast.GeneratorExp):
            raise Unsupported(node, "OrderedDict call shape")
        gexp = node.args[0]
        if len(gexp.generators) != 1:
            raise Unsupported(node, "generators")
        comp = gexp.generators[0]
        tgt = comp.target
        if comp.ifs or comp.is_async or not isinstance(tgt, ast.Tuple) or \
                len(tgt.elts) != 2 or \
                not all(isinstance(e, ast.Name) for e in tgt.elts):
            raise Unsupported(node, "comprehension shape")
        gname, cname = tgt.elts[0].id, tgt.elts[1].id
        if gname == cname or gname in st.env or cname in st.env:
            raise Unsupported(node, "comprehension variables")
        elt = gexp.elt

        def is_name(x, name):
            return isinstance(x, ast.Name) and x.id == name
        ok = isinstance(elt, ast.Tuple) and len(elt.elts) == 2 and \
            is_name(elt.elts[0], gname)
        inner = elt.elts[1] if ok else None
        ok = ok and isinstance(inner, ast.Call) and not inner.keywords and \
            is_name(inner.func, cname) and len(inner.args) == 1
        grp = inner.args[0] if ok else None
        ok = ok and isinstance(grp, ast.Call) and not grp.keywords and \
            isinstance(grp.func, ast.Attribute) and \
            grp.func.attr == "group" and len(grp.args) == 1 and \
            is_name(grp.args[0], gname)
        if not ok:
            raise Unsupported(node, "not (g, c(match.group(g)))")
        mobj = self.ev(grp.func.value, st)
        convs = self.ev(comp.iter, st)
        if mobj.typ[0] != "match" or convs.typ != T_CONVS:
            raise Unsupported(node, "conversion operands")
        return mobj.typ[1], mobj.term, convs.term

    # ------------------------------------------------------------------ tests
    def guards(self, node, st):
        """conjuncts of a test, in evaluation order"""
        if isinstance(node, ast.BoolOp) and isinstance(node.op, ast.And):
            out = []
            for val in node.values:
                out += self.guards(val, st)
            return out
        if isinstance(node, ast.UnaryOp) and isinstance(node.op, ast.Not):
            inner = self.guards(node.operand, st)
            if len(inner) != 1 or inner[0][0] != "bool":
                raise Unsupported(node, "`not` of a binding test")
            return [("bool", "negb %s" % inner[0][1])]
        if isinstance(node, ast.Compare) and len(node.ops) == 1 and \
                isinstance(node.ops[0], ast.In):
            key = self.ev(node.left, st)
            box = self.ev(node.comparators[0], st)
            if box.typ[0] != "dict" or box.typ[1] != key.typ:
                raise Unsupported(node, "`in` of these types")
            return [("in", box, key)]
        val = self.ev(node, st)
        kind = val.typ[0]
        if kind in ("bool", "truth"):
            return [("bool", val.term)]
        if kind == "int":
            return [("bool", "negb (%s =? 0)" % val.term)]
        if kind == "optmatch":
            return [("match", val,
                     node.id if isinstance(node, ast.Name) else None)]
        if kind == "convs":
            return [("nonempty", val)]
        raise Unsupported(node, "truth value of a %s" % kind)

    def emit_guards(self, gds, i, st, then, else_code):
        if i == len(gds):
            return then(st)
        kind = gds[i][0]
        if kind == "bool":
            j = i
            while j < len(gds) and gds[j][0] == "bool":
                j += 1
            cond = " && ".join(g[1] for g in gds[i:j])
            return "(if %s\n then %s\n else %s)" % (
                cond, self.emit_guards(gds, j, st, then, else_code),
                else_code)
        if kind == "in":
            _, box, key = gds[i]
            var = self.fresh()
            st.known[(box.term, key.term)] = Value(var, box.typ[2])
            look = "lget" if key.typ == T_STR else "zget"
            return "(match %s %s %s with\n | Some %s => %s\n | None => %s\n end)" \
                % (look, key.term, box.term, var,
                   self.emit_guards(gds, i + 1, st, then, else_code),
                   else_code)
        if kind == "match":
            _, val, name = gds[i]
            var = self.fresh()
            if name is not None:
                st.env[name] = Value(var, ("match", val.typ[1]))
            return "(match %s with\n | Some (%s, _) => %s\n | None => %s\n end)" \
                % (val.term, var,
                   self.emit_guards(gds, i + 1, st, then, else_code),
                   else_code)
        _, val = gds[i]
        return "(match %s with\n | _ :: _ => %s\n | [] => %s\n end)" % (
            val.term, self.emit_guards(gds, i + 1, st, then, else_code),
            else_code)

    # ------------------------------------------------------------- statements
    def block(self, stmts, st, k):
        """k : State -> code, used when the block falls through"""
        if not stmts:
            return k(st)
        s, rest = stmts[0], stmts[1:]

        def after(st2):
            return self.block(rest, st2, k)
        if isinstance(s, ast.Expr):
            if isinstance(s.value, ast.Constant) and \
                    isinstance(s.value.value, str):
                return after(st)                              # docstring
            if isinstance(s.value, ast.Call):
                callee = dotted(s.value.func) or ""
                if callee.startswith(DROPPED_CALL_PREFIX):
                    return after(st)                          # log.*(...)
                if callee == HOOKS_CALL:
                    self.only_req(s.value, st)
                    if st.hooks is not None:
                        raise Unsupported(s, "before-hooks run twice")
                    st.hooks = (st.attrs["uri_rule"], st.attrs["uri_handler"])
                    return after(st)
            raise Unsupported(s, "expression statement")
        if isinstance(s, ast.Assign):
            return self.assign(s, st, after)
        if isinstance(s, ast.If):
            gds = self.guards(s.test, st)
            else_code = self.block(s.orelse, st.copy(), after)
            return self.emit_guards(
                gds, 0, st.copy(),
                lambda st2: self.block(s.body, st2, after), else_code)
        if isinstance(s, ast.For):
            return self.for_loop(s, st, after)
        if isinstance(s, ast.Return):
            return self.ret(s, st)
        if isinstance(s, ast.Raise):
            exc = s.exc
            if s.cause is not None or not isinstance(exc, ast.Call) or \
                    dotted(exc.func) != EXCEPTION or exc.keywords or \
                    len(exc.args) != 1:
                raise Unsupported(s, "raise")
            code = self.ev(exc.args[0], st)
            if code.typ != T_INT or code.const is None:
                raise Unsupported(s, "status is not a constant")
            return self.leaf(s, st, ("raise", code.const), None, [])
        raise Unsupported(s, "statement")

    def only_req(self, call, st):
        if call.keywords or len(call.args) != 1 or \
                self.ev(call.args[0], st).typ != ("req",):
            raise Unsupported(call, "arguments are not (req)")

    def assign(self, s, st, after):
        if len(s.targets) != 1:
            raise Unsupported(s, "chained assignment")
        tgt = s.targets[0]
        name = dotted(tgt)
        if isinstance(tgt, ast.Attribute) and name is not None and \
                name.startswith("req.") and name[4:] in REQ_ATTRS and \
                "req" not in st.env:
            attr = name[4:]
            if st.attrs[attr] is not None:
                raise Unsupported(s, "second assignment (write-once setter)")
            if st.hooks is not None:
                raise Unsupported(s, "assignment after the before-hooks")
            if attr == "path_args":
                conv = self.conversion(s.value, st)
                if conv is not None:
                    var = self.fresh()
                    st.attrs[attr] = Value(var, T_PARGS)
                    return ("(match %s with\n | Ok %s => %s\n | %s\n | %s\n"
                            " end)") % (
                        CONVERT[0].format(p=conv[0], c=conv[1],
                                          convs=conv[2]),
                        var, after(st), CONVERT[1], CONVERT[2])
            val = self.ev(s.value, st)
            want = {"uri_rule": ("str",), "uri_handler": ("fun", "builtin"),
                    "path_args": ("pargs",)}[attr]
            if val.typ[0] not in want:
                raise Unsupported(s, "value of req.%s" % attr)
            st.attrs[attr] = val
            return after(st)
        for node in ast.walk(tgt):
            if isinstance(node, ast.Name) and self.reserved(node.id):
                raise Unsupported(s, "assignment to %s" % node.id)
        if isinstance(tgt, ast.Name):
            val = self.ev(s.value, st)
            if val.term is not None and " " in val.term and \
                    val.typ[0] == "optmatch":
                var = self.fresh()
                st.env[tgt.id] = Value(var, val.typ)
                return "(let %s := %s in\n %s)" % (var, val.term, after(st))
            st.env[tgt.id] = val
            return after(st)
        if isinstance(tgt, ast.Tuple) and \
                all(isinstance(e, ast.Name) for e in tgt.elts):
            val = self.ev(s.value, st)
            if val.typ != T_ENTRY or len(tgt.elts) != len(ENTRY_FIELDS):
                raise Unsupported(s, "tuple assignment")
            if len({e.id for e in tgt.elts}) != len(tgt.elts):
                raise Unsupported(s, "repeated target")
            for elt, (term, typ) in zip(tgt.elts, ENTRY_FIELDS):
                st.env[elt.id] = Value(term % val.term, typ)
            return after(st)
        raise Unsupported(s, "assignment target")

    def reserved(self, name):
        """names the tables give a meaning to cannot be locals"""
        heads = {k.split(".")[0] for k in list(ATOMS) + list(FS_TESTS)}
        heads |= {"log", "OrderedDict", EXCEPTION}
        return name in heads or name in self.tr.consts

    def for_loop(self, s, st, after):
        if s.orelse or not isinstance(s.target, ast.Name) or \
                self.reserved(s.target.id):
            raise Unsupported(s, "for-else / target")
        box = self.ev(s.iter, st)
        if box.typ != ("pats",):
            raise Unsupported(s.iter, "iteration over this object")
        if st.known or any(v.term is not None and v.const is None
                           for v in st.env.values()):
            raise Unsupported(s, "loop after local bindings")
        for node in ast.walk(s):
            if isinstance(node, (ast.Break, ast.Continue)):
                raise Unsupported(node, "break / continue")
        self.nloops += 1
        lname = "%s_loop_%d" % (self.gen_name, self.nloops)
        item = self.fresh()
        entry = st.req_key()

        def again(st2):
            if st2.req_key() != entry:
                raise Unsupported(s, "request changed by a passed-over "
                                  "iteration")
            return "%s rest" % lname
        body_st = st.copy()
        body_st.env[s.target.id] = Value(item, ("pat", box.term))
        body = self.block(s.body, body_st, again)
        done = after(st.copy())         # locals of the body are not visible
        self.loops.append(      # loops of the code after this one come first
            "Fixpoint %s (items : list pat) {struct items} : selection :=\n"
            " match items with\n | [] => %s\n | %s :: rest => %s\n end." % (
                lname, done, item, body))
        return "%s %s" % (lname, box.term)

    def ret(self, s, st):
        call = s.value
        if not isinstance(call, ast.Call) or call.keywords:
            raise Unsupported(s, "return value")
        if dotted(call.func) == DEFAULT_CALL:
            self.only_req(call, st)
            if not st.pristine():
                raise Unsupported(s, "request state before the default "
                                  "handlers")
            if "handler_from_default" not in self.tr.done:
                raise Unsupported(s, "callee not translated")
            return self.tr.done["handler_from_default"]
        callee = self.ev(call.func, st)
        args = []
        for x in call.args:
            if isinstance(x, ast.Starred):
                val = self.ev(x.value, st)
                if val.typ != T_VALUES:
                    raise Unsupported(x, "starred argument")
                args.append(Value(val.term, ("*values",)))
            else:
                args.append(self.ev(x, st))
        return self.leaf(s, st, ("call",), callee, args)

    # ----------------------------------------------------------------- leaves
    def leaf(self, node, st, what, callee, args):
        if st.hooks is None:
            raise Unsupported(node, "leaf before the before-hooks")
        rule, handler = st.hooks
        pargs = st.attrs["path_args"]
        for ctor, runs, w_rule, w_handler, w_pargs in LEAVES:
            sub = {}
            if what[0] == "raise":
                if runs != what or callee is not None:
                    continue
            else:
                if runs[0] != "call" or not self.fits_callee(
                        runs[1], callee, sub):
                    continue
                if not self.fits_args(runs[2], args, sub):
                    continue
            if w_rule is None:
                if rule is not None:
                    continue
            elif w_rule == "{rule}":
                if rule is None or rule.typ != T_STR:
                    continue
                sub["rule"] = rule.term
            elif rule is None or rule.const != w_rule:
                continue
            if w_handler is None:
                if handler is not None:
                    continue
            elif w_handler == "{h}":
                if handler is None or handler.term != sub.get("h") or \
                        handler.typ != callee.typ:
                    continue
            elif handler is None or handler.typ != ("builtin", w_handler):
                continue
            if w_pargs is None:
                if pargs is not None:
                    continue
            else:
                sub["pargs"] = "[]" if pargs is None else pargs.term
            return ctor.format(**sub)
        raise Unsupported(node, "no constructor of Routing.selection for "
                          "this leaf and request state")

    @staticmethod
    def fits_callee(want, callee, sub):
        if want.startswith("{h}:"):
            if callee.typ != ("fun", want[4:]):
                return False
            sub["h"] = callee.term
            return True
        return callee.typ == ("builtin", want)

    @staticmethod
    def fits_args(want, args, sub):
        if "{args}" in want:
            want = [w for w in want if w != "{args}"]
            extra = args[len(want):]
            args = args[:len(want)]
            if not extra:
                sub["args"] = "[]"
            elif len(extra) == 1 and extra[0].typ == ("*values",):
                sub["args"] = extra[0].term
            else:
                return False
        return [x.typ[0] for x in args] == want

    # --------------------------------------------------------------- function
    def run(self):
        def end(_st):
            raise Unsupported(self.fundef, "falls off the end (returns None)")
        code = self.block(self.fundef.body, State(), end)
        return "\n\n".join(indent(d) for d in self.loops + [
            "Definition %s : selection :=\n %s." % (self.gen_name, code)])


def indent(text):
    """layout only: indent every line by its parenthesis depth"""
    out, depth = [], 0
    for line in text.split("\n"):
        line = line.strip()
        out.append("  " * (depth + (0 if not out else 1)) + line)
        depth += line.count("(") - line.count(")")
    return "\n".join(out)


class Translation:
    def __init__(self):
        self.consts = py2v.state_consts()
        tree = py2v.parse("poorwsgi/wsgi.py")
        self.done = {}
        self.defs = []
        for name in ("handler_from_default", "handler_from_table"):
            fun = py2v.find_function(tree, name, "Application")
            gen_name = "gen_" + name
            self.defs.append(Fn(self, fun, gen_name).run())
            self.done[name] = gen_name

    def text(self):
        out = ["(* GENERATED by harness/py2v_select.py from poorwsgi/wsgi.py "
               "Application.handler_from_default, handler_from_table "
               "-- do not edit *)",
               "From Coq Require Import ZArith List Bool String.",
               "Require Import PW.lib.Val PW.model.Regex PW.model.Routing.",
               "Import ListNotations.", "Open Scope string_scope.",
               "Open Scope list_scope.", "Open Scope Z_scope.", "",
               PREAMBLE, "Section Gen."]
        out += ["Variable %s : %s." % v for v in VARS]
        return "\n".join(out) + "\n\n" + "\n\n".join(
            self.defs + ["End Gen."]) + "\n"


def gen_select():
    text = Translation().text()
    os.makedirs(py2v.GEN, exist_ok=True)
    path = os.path.join(py2v.GEN, "SelectGen.v")
    old = open(path).read() if os.path.exists(path) else None
    if old != text:
        with open(path, "w") as f:
            f.write(text)
    return path


def register(TARGETS, OUTPUT):
    TARGETS["select"] = gen_select
    OUTPUT["select"] = "SelectGen.v"
