"""py2v plugin: the constructors of the response classes (properties C05, C06).

poorwsgi/response.py  BaseResponse.__init__, NoContentResponse.__init__,
NotModifiedResponse.__init__, JSONResponse.__init__, TextResponse.__init__,
FileObjResponse.__init__ (up to super().__init__; the statements after it are
the length bookkeeping tied by harness/py2v_clen.py and become the single
primitive fo_tail, see TAILS), FileResponse.__init__,
GeneratorResponse.__init__
    ->  coq/gen/ClassesGen.v

Own small syntax-directed emitter (fail closed: every node that is not listed
below raises py2v.Unsupported).  A constructor becomes a Gallina function over
the primitives of coq/lib/PyClasses.v (+ PyShapes.v, PyAbort.v, PyDispatch.v):

  * a class without base class (BaseResponse) or whose base class is itself
    translated here ("obj" kind): the object under construction is threaded
    through the statements as a value of type [obj] (list of attribute
    stores); `self.x = e` is [obj_set] under the name Python mangles `x` to in
    that class; `super().__init__(...)` runs the GENERATED constructor of the
    base class, its arguments bound by the SOURCE signature of that
    constructor (positional order, keyword names, default constants);
  * a class whose base class is Response ("resp" kind): `super().__init__`
    is the primitive c_Response of lib/PyShapes.v, bound by the SOURCE
    signature of Response.__init__; the object is the response value.

GENERATED FROM THE SYNTAX: order of statements; every assert with its test;
every attribute store with its (mangled) name and value; the isinstance tests
with their class lists and the if/elif order; `is None` tests; truth tests;
string constants (header names, content types, "; charset="), `+` / `+=`;
the literal tuple handed to Headers(...); `responses[...]`; the status
constants (read from poorwsgi/state.py); the defaults of every signature
(also emitted as gen_*_defaults); which arguments the base constructor gets;
the add_header calls with name, value and order; raise statements; in the
file classes: the access test and its IOError, `content_type is None` ->
mimetypes.guess_type / "application/octet-stream", the open(...) call shape,
the readable()/TextIOBase asserts, make_partial(), the
`'Last-Modified' not in self.headers` test and what is added.
Variables are named by binding position, never by their spelling; every
generated function takes (w : world) (ce : cenv), cenv being the record of
the uninterpreted predicates and functions (lib/PyClasses.v).

DROPPED, explicitly: docstrings, `log.*(...)` calls, type hints (an annotated
assignment is an assignment), the MESSAGE of an assert (only the text of the
AssertionError).

TRUSTED: the tables below, coq/lib/PyClasses.v, and: single inheritance
(`super()` is the one base class, checked), name mangling of `__x`, no
__new__ / __setattr__ / property named like a stored attribute in the
translated classes (checked), asserts are executed (no -O).
"""
import ast
import os

import py2v
from py2v import Unsupported

# ===================================================================== TRUSTED
SOURCE = "poorwsgi/response.py"
# parameters of every generated function
# (ce : the uninterpreted predicates / functions, record cenv of PyClasses.v)
CTX = [("w", "world"), ("ce", "cenv")]
# isinstance classes: interpreted on the pyval constructors ...
CLASSES = {"str": "ClStr", "bytes": "ClBytes", "int": "ClInt"}
# ... and uninterpreted predicates (parameters of the generated code)
UNINTERPRETED_CLASSES = {"Headers": "ce_ih ce", "datetime": "ce_idt ce",
                         "TextIOBase": "ce_itx ce"}
# f(a1..an): (arity, monadic?, term)
FUNCS = {"Headers": (1, True, "cl_Headers {0}"),
         "time_to_http": (1, False, "(ce_t2h ce {0})"),
         "datetime_to_http": (1, False, "(ce_d2h ce {0})"),
         "getctime": (1, False, "(ce_ctime ce {0})")}
# <value>.<method>() as a test
VALUE_QUERIES = {"readable": "(ce_frd ce {0})"}
# f(x, <global name>) as a test
COND_CALLS = {"access": ("R_OK", "(ce_acc ce {0})")}
# (a, b) = <module>.<function>(x)
TUPLE_CALLS = {("mimetypes", "guess_type"): ["(ce_mime ce {0})",
                                             "(ce_menc ce {0})"]}
# open(x, 'rb', buffering=0)
OPEN_SHAPE = ("open", ["rb"], {"buffering": 0}, "ce_fopen ce {0}")
# '<literal>' in self.<property>: the property -> the attribute it returns
# (response.py: `def headers(self): return self.__headers`)
SELF_CONTAINS = {"headers": "obj_has_header base_headers_attr {0} {1}"}
# the statements after super().__init__ of this class are the length
# bookkeeping tied by harness/py2v_clen.py (gen/ClenGen.v): they may store
# only these attributes, call no method of self, and read only these names;
# they become ONE primitive applied to the object and the first parameter
TAILS = {"FileObjResponse": (
    {"__file", "__pos", "_content_length"},
    {"self", "fstat", "isinstance", "BytesIO", "OSError", "log"},
    "fo_tail ce {0} {1}")}
# f(a, **b)
KW_FUNCS = {"dumps": "cl_dumps {0} {1}"}
# <global>[k]
GLOBAL_SUBSCRIPT = {"responses": "cl_reason w {0}"}
RAISE = {"RuntimeError": "cl_runtime_error", "IOError": "cl_io_error"}
# super().__init__(...) in a class whose single base is this class:
# (parameter names of __init__ the primitive expects, primitive)
BASE_CTORS = {
    "Response": (["data", "content_type", "headers", "status_code"],
                 "c_Response w {0} {1} {2} {3}"),
}
# self.<method>(args): (arity, on an obj, on a response value)
SELF_MUTATORS = {"add_header": (2, "obj_add_header base_headers_attr {0} {1} {2}",
                                "resp_add_header {0} {1} {2}"),
                 # BaseResponse.make_partial() with its defaults
                 "make_partial": (0, "obj_make_partial {0}", None)}
# members that would change what construction / attribute stores mean
FORBIDDEN_MEMBERS = {"__new__", "__setattr__", "__getattribute__",
                     "__getattr__", "__init_subclass__", "__set_name__"}
# translated constructors in dependency order: (class, coq name)
TARGETS = [
    ("BaseResponse", "gen_base_init"),
    ("NoContentResponse", "gen_nocontent_init"),
    ("NotModifiedResponse", "gen_notmodified_init"),
    ("JSONResponse", "gen_json_response_init"),
    ("TextResponse", "gen_text_response_init"),
    ("FileObjResponse", "gen_fileobj_init"),
    ("FileResponse", "gen_file_response_init"),
    ("GeneratorResponse", "gen_generator_init"),
]
# ================================================================ end TRUSTED

HEADER = """(* GENERATED by harness/py2v_classes.py from poorwsgi/response.py \
(constructors of the response classes) -- do not edit *)
From Coq Require Import ZArith List Bool String.
Require Import PW.lib.Val PW.lib.Dec PW.model.Dispatch PW.lib.PyDispatch \
PW.lib.PyShapes PW.lib.PyAbort PW.lib.PyClasses.
Import ListNotations.
Open Scope list_scope.
Open Scope Z_scope.
"""


def indent(text, n=2):
    return "\n".join(" " * n + line for line in text.split("\n"))


def zlit(n):
    return "(%d)" % n if n < 0 else "%d" % n


def is_self(node):
    return isinstance(node, ast.Name) and node.id == "self"


def is_super_init(node):
    return (isinstance(node, ast.Call)
            and isinstance(node.func, ast.Attribute)
            and node.func.attr == "__init__"
            and isinstance(node.func.value, ast.Call)
            and isinstance(node.func.value.func, ast.Name)
            and node.func.value.func.id == "super"
            and not node.func.value.args and not node.func.value.keywords)


def mangle(cls, attr):
    if attr.startswith("__") and not attr.endswith("__"):
        return "_" + cls.lstrip("_") + attr
    return attr


def stored_names(stmts):
    """local names assigned in the statements, in order of first store"""
    out = []
    for st in stmts:
        for n in ast.walk(st):
            if isinstance(n, ast.Name) and isinstance(n.ctx, ast.Store) \
                    and n.id not in out:
                out.append(n.id)
            if isinstance(n, (ast.NamedExpr, ast.Lambda, ast.FunctionDef,
                              ast.ClassDef, ast.ListComp, ast.SetComp,
                              ast.DictComp, ast.GeneratorExp)):
                raise Unsupported(n, "binding construct")
    return out


def wrap(pre, body):
    for x, m in reversed(pre):
        body = "(bind (%s) (fun %s =>\n%s))" % (m, x, body)
    return body


class Tail:
    """marker statement: the length bookkeeping of TAILS"""
    def __init__(self, tmpl, param):
        self.tmpl, self.param = tmpl, param


class Ctor:
    def __init__(self, cname, fundef, gen, kind, base, done, sigs, consts,
                 members):
        self.cname, self.fundef, self.gen = cname, fundef, gen
        self.kind, self.base, self.done = kind, base, done
        self.sigs, self.consts, self.members = sigs, consts, members
        self.n = 0

    def fresh(self, base="x"):
        self.n += 1
        return "%s%d" % (base, self.n)

    # ------------------------------------------------------------ expressions
    def expr(self, node, env, pre):
        if isinstance(node, ast.Constant):
            v = node.value
            if v is None:
                return "(DV PNone)"
            if v is True or v is False:
                return "(of_bool %s)" % ("true" if v else "false")
            if isinstance(v, int):
                return "(DV (PInt %s))" % zlit(v)
            if isinstance(v, str):
                return "(DV (PStr %s))" % py2v.strlit(v)
            if isinstance(v, bytes):
                return "(DV (PBytes [%s]))" % ";".join(str(c) for c in v)
            raise Unsupported(node, "constant")
        if isinstance(node, ast.Name):
            if not isinstance(node.ctx, ast.Load):
                raise Unsupported(node, "name context")
            if node.id in env and node.id != "self":
                return env[node.id]
            if node.id in self.consts:
                return "(DV (PInt %s))" % zlit(self.consts[node.id])
            raise Unsupported(node, "unknown name")
        if isinstance(node, ast.List) and not node.elts:
            return "cl_empty_list"
        if isinstance(node, ast.Dict) and not node.keys:
            return "cl_empty_dict"
        if isinstance(node, ast.Tuple):
            # a literal tuple of (name, value) pairs of str constants
            pairs = []
            for it in node.elts:
                if not (isinstance(it, ast.Tuple) and len(it.elts) == 2 and all(
                        isinstance(x, ast.Constant) and isinstance(x.value, str)
                        for x in it.elts)):
                    raise Unsupported(node, "tuple")
                pairs.append("(%s, %s)" % tuple(
                    py2v.strlit(x.value) for x in it.elts))
            return "(DV (PHdrs (Some [%s])))" % "; ".join(pairs)
        if isinstance(node, ast.Attribute) and is_self(node.value):
            if self.kind != "obj" or "self" not in env:
                raise Unsupported(node, "attribute of self")
            x = self.fresh()
            pre.append((x, "cl_getattr %s %s" % (
                env["self"], py2v.strlit(mangle(self.cname, node.attr)))))
            return x
        if isinstance(node, ast.BinOp) and isinstance(node.op, ast.Add):
            a = self.expr(node.left, env, pre)
            b = self.expr(node.right, env, pre)
            x = self.fresh()
            pre.append((x, "cl_add %s %s" % (a, b)))
            return x
        if isinstance(node, ast.BoolOp) and isinstance(node.op, ast.Or) and \
                len(node.values) == 2:
            a = self.expr(node.values[0], env, pre)
            pre2 = []
            b = self.expr(node.values[1], env, pre2)
            if pre2:
                raise Unsupported(node, "effect in the right operand of or")
            return "(cl_or %s %s)" % (a, b)
        if isinstance(node, ast.Subscript) and isinstance(node.value, ast.Name) \
                and node.value.id in GLOBAL_SUBSCRIPT \
                and node.value.id not in env \
                and not isinstance(node.slice, ast.Slice):
            k = self.expr(node.slice, env, pre)
            x = self.fresh()
            pre.append((x, GLOBAL_SUBSCRIPT[node.value.id].format(k)))
            return x
        if isinstance(node, ast.Call) and isinstance(node.func, ast.Name) \
                and node.func.id not in env:
            f = node.func.id
            if any(isinstance(a, ast.Starred) for a in node.args):
                raise Unsupported(node, "starred argument")
            if f in KW_FUNCS and len(node.args) == 1 and \
                    len(node.keywords) == 1 and node.keywords[0].arg is None:
                a = self.expr(node.args[0], env, pre)
                b = self.expr(node.keywords[0].value, env, pre)
                x = self.fresh()
                pre.append((x, KW_FUNCS[f].format(a, b)))
                return x
            if f == OPEN_SHAPE[0] and len(node.args) == 1 + len(OPEN_SHAPE[1]) \
                    and [getattr(a, "value", node) for a in node.args[1:]] \
                    == OPEN_SHAPE[1] and \
                    {k.arg: getattr(k.value, "value", node)
                     for k in node.keywords} == OPEN_SHAPE[2] and \
                    len(node.keywords) == len(OPEN_SHAPE[2]):
                a = self.expr(node.args[0], env, pre)
                x = self.fresh()
                pre.append((x, OPEN_SHAPE[3].format(a)))
                return x
            if f in FUNCS and not node.keywords:
                arity, monadic, tmpl = FUNCS[f]
                if len(node.args) != arity:
                    raise Unsupported(node, "arity of %s" % f)
                t = [self.expr(a, env, pre) for a in node.args]
                if not monadic:
                    return tmpl.format(*t)
                x = self.fresh()
                pre.append((x, tmpl.format(*t)))
                return x
            raise Unsupported(node, "call of %s" % f)
        raise Unsupported(node, "expression")

    def cond(self, node, env, pre):
        if isinstance(node, ast.BoolOp):
            op = "&&" if isinstance(node.op, ast.And) else "||"
            terms = [self.cond(node.values[0], env, pre)]
            for v in node.values[1:]:
                pre2 = []
                terms.append(self.cond(v, env, pre2))
                if pre2:
                    raise Unsupported(v, "effect behind a short circuit")
            return "(" + (" %s " % op).join(terms) + ")"
        if isinstance(node, ast.UnaryOp) and isinstance(node.op, ast.Not):
            return "(negb %s)" % self.cond(node.operand, env, pre)
        if isinstance(node, ast.Compare):
            if len(node.ops) != 1:
                raise Unsupported(node, "chained comparison")
            op, right = node.ops[0], node.comparators[0]
            if isinstance(op, (ast.Is, ast.IsNot)) and \
                    isinstance(right, ast.Constant) and right.value is None:
                t = "(is_none %s)" % self.expr(node.left, env, pre)
                return "(negb %s)" % t if isinstance(op, ast.IsNot) else t
            if isinstance(op, (ast.In, ast.NotIn)) and \
                    isinstance(node.left, ast.Constant) and \
                    isinstance(node.left.value, str) and \
                    isinstance(right, ast.Attribute) and is_self(right.value) \
                    and right.attr in SELF_CONTAINS and self.kind == "obj" \
                    and env.get("self.super"):
                t = "(%s)" % SELF_CONTAINS[right.attr].format(
                    env["self"], py2v.strlit(node.left.value))
                return "(negb %s)" % t if isinstance(op, ast.NotIn) else t
            raise Unsupported(node, "comparison")
        if isinstance(node, ast.Call) and isinstance(node.func, ast.Attribute) \
                and node.func.attr in VALUE_QUERIES and not node.args and \
                not node.keywords and not is_self(node.func.value):
            return VALUE_QUERIES[node.func.attr].format(
                self.expr(node.func.value, env, pre))
        if isinstance(node, ast.Call) and isinstance(node.func, ast.Name) and \
                node.func.id in COND_CALLS and node.func.id not in env:
            glob, tmpl = COND_CALLS[node.func.id]
            if len(node.args) != 2 or node.keywords or not (
                    isinstance(node.args[1], ast.Name)
                    and node.args[1].id == glob and glob not in env):
                raise Unsupported(node, "arguments of %s" % node.func.id)
            return tmpl.format(self.expr(node.args[0], env, pre))
        if isinstance(node, ast.Call) and isinstance(node.func, ast.Name) and \
                node.func.id == "isinstance" and "isinstance" not in env:
            if len(node.args) != 2 or node.keywords:
                raise Unsupported(node, "isinstance shape")
            x = self.expr(node.args[0], env, pre)
            cl = node.args[1]
            items = list(cl.elts) if isinstance(cl, ast.Tuple) else [cl]
            if not items or not all(isinstance(i, ast.Name) and i.id not in env
                                    for i in items):
                raise Unsupported(node, "isinstance class")
            ids = [i.id for i in items]
            if len(ids) == 1 and ids[0] in UNINTERPRETED_CLASSES:
                return "(%s %s)" % (UNINTERPRETED_CLASSES[ids[0]], x)
            if all(i in CLASSES for i in ids):
                return "(cl_isinstance %s [%s])" % (
                    x, "; ".join(CLASSES[i] for i in ids))
            raise Unsupported(node, "isinstance class")
        return "(truthy %s)" % self.expr(node, env, pre)

    # ------------------------------------------------------------- statements
    def block(self, stmts, env, k):
        if not stmts:
            return k(env)
        return self.stmt(stmts[0], env,
                         lambda e: self.block(stmts[1:], e, k))

    def bind_call(self, call, cname, env, pre):
        """arguments of a constructor call, in the order of the parameters of
        the SOURCE signature of cname.__init__"""
        a = self.sigs[cname].args
        if a.posonlyargs or a.kwonlyargs or a.vararg or a.kw_defaults or \
                not a.args or a.args[0].arg != "self":
            raise Unsupported(self.sigs[cname], "signature of %s" % cname)
        params = [x.arg for x in a.args[1:]]
        defaults = dict(zip(params[len(params) - len(a.defaults):],
                            a.defaults))
        if any(isinstance(x, ast.Starred) for x in call.args) or \
                len(call.args) > len(params):
            raise Unsupported(call, "arguments of %s" % cname)
        vals = {}
        for p, n in zip(params, call.args):
            vals[p] = self.expr(n, env, pre)
        for kw in call.keywords:
            if kw.arg is None or kw.arg not in params or kw.arg in vals:
                raise Unsupported(call, "keyword of %s" % cname)
            vals[kw.arg] = self.expr(kw.value, env, pre)
        out = []
        for p in params:
            if p in vals:
                out.append(vals[p])
            elif p in defaults:
                dpre = []
                out.append(self.expr(defaults[p], {}, dpre))
                if dpre:
                    raise Unsupported(defaults[p], "default value")
            else:
                raise Unsupported(call, "missing argument %s" % p)
        if a.kwarg:
            out.append("cl_no_kwargs")
        return params, out

    def stmt(self, st, env, cont):
        if isinstance(st, ast.Expr) and isinstance(st.value, ast.Constant) \
                and isinstance(st.value.value, str):
            return cont(env)                                   # docstring
        if isinstance(st, ast.Expr) and isinstance(st.value, ast.Call) and \
                isinstance(st.value.func, ast.Attribute) and \
                isinstance(st.value.func.value, ast.Name) and \
                st.value.func.value.id == "log" and "log" not in env:
            return cont(env)                                   # log.*(...)
        if isinstance(st, ast.Pass):
            return cont(env)
        if isinstance(st, ast.AnnAssign) and st.value is not None:
            st = ast.copy_location(
                ast.Assign(targets=[st.target], value=st.value), st)
        if isinstance(st, ast.Assert):
            if st.msg is not None and any(
                    isinstance(n, (ast.NamedExpr, ast.Yield, ast.Await))
                    for n in ast.walk(st.msg)):
                raise Unsupported(st, "assert message")
            pre = []
            c = self.cond(st.test, env, pre)
            return wrap(pre, "(if %s then\n%s\nelse\n  raise assert_error)" % (
                c, indent(cont(env))))
        if isinstance(st, ast.Assign):
            if len(st.targets) != 1:
                raise Unsupported(st, "multiple targets")
            tg = st.targets[0]
            pre = []
            v = st.value
            if isinstance(tg, ast.Tuple) and isinstance(v, ast.Call) and \
                    isinstance(v.func, ast.Attribute) and \
                    isinstance(v.func.value, ast.Name) and \
                    v.func.value.id not in env and \
                    (v.func.value.id, v.func.attr) in TUPLE_CALLS:
                tmpls = TUPLE_CALLS[(v.func.value.id, v.func.attr)]
                if len(tg.elts) != len(tmpls) or len(v.args) != 1 or \
                        v.keywords or not all(
                            isinstance(e, ast.Name) and e.id != "self"
                            for e in tg.elts):
                    raise Unsupported(st, "tuple assignment")
                a = self.expr(v.args[0], env, pre)
                e2 = dict(env)
                lets = []
                for e, tm in zip(tg.elts, tmpls):
                    x = self.fresh()
                    e2[e.id] = x
                    lets.append("(let %s := %s in" % (x, tm.format(a)))
                return wrap(pre, "\n".join(lets) + "\n" + cont(e2)
                            + ")" * len(lets))
            t = self.expr(st.value, env, pre)
            e2 = dict(env)
            if isinstance(tg, ast.Name) and tg.id != "self":
                x = self.fresh()
                e2[tg.id] = x
                return wrap(pre, "(let %s := %s in\n%s)" % (x, t, cont(e2)))
            if isinstance(tg, ast.Attribute) and is_self(tg.value):
                if self.kind != "obj" or "self" not in env:
                    raise Unsupported(st, "attribute store")
                if tg.attr in self.members:
                    raise Unsupported(st, "store through a property / method")
                s = self.fresh("s")
                e2["self"] = s
                return wrap(pre, "(let %s := obj_set %s %s %s in\n%s)" % (
                    s, env["self"], py2v.strlit(mangle(self.cname, tg.attr)),
                    t, cont(e2)))
            raise Unsupported(st, "assignment target")
        if isinstance(st, ast.AugAssign):
            if not (isinstance(st.target, ast.Name) and st.target.id in env
                    and st.target.id != "self"
                    and isinstance(st.op, ast.Add)):
                raise Unsupported(st, "augmented assignment")
            pre = []
            t = self.expr(st.value, env, pre)
            x = self.fresh()
            e2 = dict(env)
            e2[st.target.id] = x
            pre.append((x, "cl_add %s %s" % (env[st.target.id], t)))
            return wrap(pre, cont(e2))
        if isinstance(st, ast.Raise):
            e = st.exc
            if st.cause is None and isinstance(e, ast.Call) and \
                    isinstance(e.func, ast.Name) and e.func.id in RAISE and \
                    e.func.id not in env and not e.keywords and \
                    all(isinstance(a, ast.Constant) for a in e.args):
                return "raise %s" % RAISE[e.func.id]
            raise Unsupported(st, "raise")
        if isinstance(st, ast.If):
            pre = []
            c = self.cond(st.test, env, pre)
            state = (["self"] if "self" in env else []) + [
                v for v in stored_names(st.body + st.orelse) if v != "self"]

            def end(e):
                if not state:
                    return "ret tt"
                return "ret (%s)" % ", ".join(
                    e.get(v, "DUnbound") for v in state)
            a = self.block(st.body, env, end)
            b = self.block(st.orelse, env, end)
            e2 = dict(env)
            news = []
            for v in state:
                x = self.fresh("s" if v == "self" else "x")
                e2[v] = x
                news.append(x)
            pat = "_" if not news else news[0] if len(news) == 1 else \
                "'(%s)" % ", ".join(news)
            return wrap(pre, "(bind (if %s then\n%s\nelse\n%s) (fun %s =>\n%s))"
                        % (c, indent(a), indent(b), pat, cont(e2)))
        if isinstance(st, Tail):
            if not env.get("self.super") or self.kind != "obj":
                raise Unsupported(self.fundef, "tail position")
            x = self.fresh("s")
            e2 = dict(env)
            e2["self"] = x
            return "(bind (%s) (fun %s =>\n%s))" % (
                st.tmpl.format(env["self"], env[st.param]), x, cont(e2))
        if isinstance(st, ast.Expr) and is_super_init(st.value):
            if "self" in env and self.kind == "resp":
                raise Unsupported(st, "second super().__init__")
            if self.base is None:
                raise Unsupported(st, "super() without a base class")
            pre = []
            if self.kind == "resp":
                want, tmpl = BASE_CTORS[self.base]
                params, args = self.bind_call(st.value, self.base, env, pre)
                if params != want:
                    raise Unsupported(self.sigs[self.base],
                                      "signature of %s" % self.base)
                m = tmpl.format(*args)
                x = self.fresh("s")
            else:
                if env.get("self.super"):
                    raise Unsupported(st, "second super().__init__")
                _, args = self.bind_call(st.value, self.base, env, pre)
                m = "%s %s %s %s" % (self.done[self.base],
                                     " ".join(n for n, _ in CTX), env["self"],
                                     " ".join(args))
                x = self.fresh("s")
            e2 = dict(env)
            e2["self"] = x
            e2["self.super"] = True
            return wrap(pre, "(bind (%s) (fun %s =>\n%s))" % (m, x, cont(e2)))
        if isinstance(st, ast.Expr) and isinstance(st.value, ast.Call) and \
                isinstance(st.value.func, ast.Attribute) and \
                is_self(st.value.func.value) and \
                st.value.func.attr in SELF_MUTATORS:
            c = st.value
            arity, on_obj, on_resp = SELF_MUTATORS[c.func.attr]
            if c.keywords or len(c.args) != arity or \
                    any(isinstance(x, ast.Starred) for x in c.args):
                raise Unsupported(st, "arguments of %s" % c.func.attr)
            if not env.get("self.super") and self.base is not None:
                raise Unsupported(st, "self.%s before super().__init__"
                                  % c.func.attr)
            if "self" not in env:
                raise Unsupported(st, "self.%s on an unbuilt object"
                                  % c.func.attr)
            pre = []
            t = [self.expr(a, env, pre) for a in c.args]
            x = self.fresh("s")
            e2 = dict(env)
            e2["self"] = x
            tmpl = on_obj if self.kind == "obj" else on_resp
            if tmpl is None:
                raise Unsupported(st, "self.%s on this kind" % c.func.attr)
            pre.append((x, tmpl.format(env["self"], *t)))
            return wrap(pre, cont(e2))
        raise Unsupported(st, "statement")

    def cut_tail(self, stmts, params):
        allowed, reads, tmpl = TAILS[self.cname]
        at = [i for i, st in enumerate(stmts)
              if isinstance(st, ast.Expr) and is_super_init(st.value)]
        if len(at) != 1 or not params:
            raise Unsupported(self.fundef, "super().__init__ position")
        tail = stmts[at[0] + 1:]
        for st in tail:
            for n in ast.walk(st):
                if isinstance(n, ast.Attribute) and is_self(n.value):
                    if isinstance(n.ctx, ast.Load) and n.attr in allowed:
                        continue
                    if isinstance(n.ctx, ast.Store) and n.attr in allowed:
                        continue
                    raise Unsupported(n, "self.%s in the length tail" % n.attr)
                if isinstance(n, ast.Name) and isinstance(n.ctx, ast.Load) \
                        and n.id not in reads and n.id != params[0]:
                    raise Unsupported(n, "name %s in the length tail" % n.id)
                if isinstance(n, ast.Name) and not isinstance(n.ctx, ast.Load):
                    raise Unsupported(n, "local store in the length tail")
                if isinstance(n, (ast.Return, ast.Raise, ast.Assert,
                                  ast.Delete, ast.Global, ast.Nonlocal,
                                  ast.NamedExpr, ast.Starred)):
                    raise Unsupported(n, "statement in the length tail")
        if not tail:
            raise Unsupported(self.fundef, "no length tail")
        return stmts[:at[0] + 1] + [Tail(tmpl, params[0])]

    def translate(self):
        f = self.fundef
        a = f.args
        if f.decorator_list or a.posonlyargs or a.kwonlyargs or a.vararg or \
                a.kw_defaults or not a.args or a.args[0].arg != "self":
            raise Unsupported(f, "signature")
        params = [x.arg for x in a.args[1:]]
        if a.kwarg:
            params.append(a.kwarg.arg)
        if len(set(params)) != len(params) or "self" in params:
            raise Unsupported(f, "parameters")
        env = {p: self.fresh() for p in params}
        sig = " ".join("(%s : %s)" % c for c in CTX)
        if self.kind == "obj":
            env["self"] = "s0"
            sig += " (s0 : obj)"
        if params:
            sig += " (%s : dv)" % " ".join(env[p] for p in params)
        defaults = []
        for d in a.defaults:
            dpre = []
            defaults.append(self.expr(d, {}, dpre))
            if dpre:
                raise Unsupported(d, "default value")

        def end(e):
            if "self" not in e or (self.base is not None
                                   and not e.get("self.super")):
                raise Unsupported(f, "super().__init__ is not called")
            return "ret %s" % e["self"]
        stmts = list(f.body)
        if self.cname in TAILS:
            stmts = self.cut_tail(stmts, params)
        body = self.block(stmts, env, end)
        ty = "M obj" if self.kind == "obj" else "M dv"
        return [
            "Definition %s %s : %s :=\n%s." % (self.gen, sig, ty, indent(body)),
            "Definition %s_defaults : list dv :=\n  [%s]." % (
                self.gen, "; ".join(defaults)),
        ]


def the_class(tree, name):
    found = [n for n in tree.body if isinstance(n, ast.ClassDef)
             and n.name == name]
    if len(found) != 1:
        raise Unsupported(tree, "definitions of class %s" % name)
    cls = found[0]
    if cls.keywords or cls.decorator_list:
        raise Unsupported(cls, "class keywords / decorators")
    if len(cls.bases) > 1 or not all(isinstance(b, ast.Name)
                                     for b in cls.bases):
        raise Unsupported(cls, "base classes")
    return cls


def the_init(cls):
    init = [n for n in cls.body if isinstance(n, ast.FunctionDef)
            and n.name == "__init__"]
    if len(init) != 1:
        raise Unsupported(cls, "__init__ of %s" % cls.name)
    return init[0]


def chain(tree, name):
    """the class and its base classes defined in the module"""
    out = []
    while name is not None:
        cls = the_class(tree, name)
        out.append(cls)
        name = cls.bases[0].id if cls.bases else None
    return out


def drop_compiled():
    coq = os.path.dirname(py2v.GEN)
    for stem in (os.path.join(py2v.GEN, "ClassesGen"),
                 os.path.join(coq, "proofs", "ClassesGenEq")):
        for ext in (".vo", ".vos", ".vok", ".glob"):
            if os.path.exists(stem + ext):
                os.unlink(stem + ext)


def translate():
    tree = py2v.parse(SOURCE)
    consts = py2v.state_consts()
    names_ = {c for c, _ in TARGETS} | set(BASE_CTORS)
    for node in tree.body:
        if isinstance(node, (ast.FunctionDef, ast.AsyncFunctionDef)):
            if node.name in names_:
                raise Unsupported(node, "rebinding")
            continue
        if isinstance(node, ast.ClassDef):
            continue
        for sub in ast.walk(node):
            if isinstance(sub, ast.Name) and sub.id in names_ and \
                    isinstance(sub.ctx, (ast.Store, ast.Del)):
                raise Unsupported(sub, "rebinding")
            if isinstance(sub, ast.alias) and \
                    (sub.asname or sub.name) in names_:
                raise Unsupported(node, "rebinding")
    done, kinds, sigs, defs = {}, {}, {}, []
    for cname, gen in TARGETS:
        classes = chain(tree, cname)
        cls = classes[0]
        members = set()
        for c in classes:
            for n in c.body:
                if isinstance(n, (ast.FunctionDef, ast.AsyncFunctionDef)):
                    if n.name in FORBIDDEN_MEMBERS:
                        raise Unsupported(n, "member %s" % n.name)
                    members.add(n.name)
        base = cls.bases[0].id if cls.bases else None
        if base is None or base in done and kinds[base] == "obj":
            kind = "obj"
        elif base in BASE_CTORS:
            kind = "resp"
        else:
            raise Unsupported(cls, "base class of %s" % cname)
        sigs[cname] = the_init(cls)
        if base is not None and base not in sigs:
            sigs[base] = the_init(the_class(tree, base))
        ctor = Ctor(cname, sigs[cname], gen, kind, base, done, sigs, consts,
                    members)
        defs += ctor.translate()
        done[cname] = gen
        kinds[cname] = kind
    text = HEADER + "\n" + "\n\n".join(defs) + "\n"
    os.makedirs(py2v.GEN, exist_ok=True)
    path = os.path.join(py2v.GEN, "ClassesGen.v")
    old = open(path).read() if os.path.exists(path) else None
    if old != text:
        with open(path, "w") as f:
            f.write(text)
    return path


def gen_classes():
    try:
        return translate()
    except Exception:
        drop_compiled()
        raise


def register(TARGETS_, OUTPUT):
    TARGETS_["classes"] = gen_classes
    OUTPUT["classes"] = "ClassesGen.v"
