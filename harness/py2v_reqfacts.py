"""Translator plugin: the request-fact accessors of poorwsgi/request.py
-> coq/gen/ReqFactsGen.v (proved equal to model/Digest.v, model/Debug.v,
model/Routing.v in proofs/ReqFactsGenEq.v; theorems C11_generated_
authorization_is_model, C20_generated_effective_debug_is_model,
C02_generated_method_number_is_model, C02_generated_path_is_model).

Translated (every statement of each body; nothing is skipped but docstrings
and `log.*(...)` calls):

  * headers.Headers.utf8 (staticmethod)            -> gen_headers_utf8
  * request.Request.authorization (property)       -> gen_authorization
  * request.SimpleRequest.__init__ (whole body; the result is the value
    stored in self.__debug)                        -> gen_init_debug
  * request.SimpleRequest.method (property)        -> gen_method
  * request.SimpleRequest.method_number (property) -> gen_method_number
  * request.SimpleRequest.path (property)          -> gen_path

Reuses the general translator (py2v.Unit) and the dict / try layer of
py2v_digest.DigestUnit (lib/PyDigest.v), and adds, with the semantics of
lib/PyReqFacts.v:

  * `self` is the object: `self.<attr>` is a variable named by the dotted
    text (a parameter of the generated function when it is read before it
    is assigned: ATTR_PARAMS); `self.<attr> = e` rebinds it; `self.<prop>`
    for a translated property of the same class is a call of its generated
    function (PROPERTIES);
  * `self.<attr>[k] = v` (dict store on an attribute);
  * str: `.strip()`, `.strip(chars)`, `.find(sub)`, `.capitalize()`,
    `.lower()`, `.startswith('const')` (core: slice comparison),
    `.encode('<codec>')`, `.decode()` / `.decode('<codec>')` (bytes.decode's
    default codec is 'utf-8');
  * `dict(<generator expression>)` with one `for a, b in <iterable>`, no
    condition;
  * `RE_AUTHORIZATION.findall(x)`: the module-level constant must be
    `re.compile(<str constant>)` (no flags) bound once; the pattern TEXT is
    emitted as a string constant next to the Section variable Scan, the
    equality theorem compares it with the pattern the model's scanner
    implements;
  * `Headers.utf8(x)`: a call of gen_headers_utf8 (Headers must be imported
    from poorwsgi.headers);
  * `unquote(x)` through the Section variable Unq (urllib.parse's);
  * `methods` (imported from poorwsgi.state): the dict literal of state.py,
    keys str constants, values names of int constants of state.py, emitted
    as a dict value (newest entry first);
  * `os.environ` (module `os` imported plainly) is a parameter; `time()`
    (from time) is the parameter clock;
  * `try: ... except UnicodeError: ...` (exn_isa: UnicodeEncodeError /
    UnicodeDecodeError are subclasses).

Local variable names never reach the generated text: every bound variable
is `v_<n>` numbered by position (FreshCtx); the Python parameters of
__init__ (environ, app) and Headers.utf8 (value) are bound by position to
these canonical names.

Whole-module side conditions (each refusal is an Unsupported): the names
unquote / Headers / methods / time / re / os are bound exactly once, by the
expected import; `dict` is never rebound; RE_AUTHORIZATION and state.methods
(and every METHOD_* constant in it) are bound exactly once at module level;
`methods` is never stored into or mutated by name in request.py / state.py;
class Request does not redefine method / method_number / path.  Type hints, comments,
docstrings and log calls are not part of the translated AST.

for/while/len and every call, method, subscript, decorator or statement
not listed raise py2v.Unsupported.
"""
import ast
import os

import py2v
import py2v_digest
from py2v import Unsupported, strlit

SOURCE = "poorwsgi/request.py"
HEADERS = "poorwsgi/headers.py"
STATE = "poorwsgi/state.py"

# names of request.py that must be bound exactly once, at module level, by
# the import given (module, original name or None for `import module`)
IMPORTS = {"unquote": ("urllib.parse", "unquote"),
           "Headers": ("poorwsgi.headers", "Headers"),
           "methods": ("poorwsgi.state", "methods"),
           "time": ("time", "time"),
           "re": ("re", None), "os": ("os", None)}
PATTERN = "RE_AUTHORIZATION"
CATCHABLE = {"UnicodeError"}
SECTION_VARS = [("Scan", "list Z -> list Z -> list (list Z * list Z)"),
                ("Unq", "list Z -> list Z"),
                ("Dec", "list Z -> option (list Z)")]
# gen name -> leading Section-variable arguments at a call site
METHODS0 = {"capitalize": "pcapitalize", "lower": "plower",
            "strip": "pstrip_ws"}
METHODS1 = {"strip": "pstrip_chars", "find": "pstr_find"}


class FreshCtx(py2v.Ctx):
    """bound variables are numbered by position, never named by spelling"""
    def fresh(self, base):
        self.counter += 1
        return "v_%d" % self.counter


class ReqUnit(py2v_digest.DigestUnit):
    def __init__(self, **kw):
        super().__init__(**kw)
        self.pattern = None      # text of RE_AUTHORIZATION
        self.methods = None      # [(key, int)] of state.methods
        self.properties = {}     # "self.<prop>" -> (gen name, [attr params])
        self.fields_writable = set()

    # ---------------------------------------------------------------- exprs
    def expr(self, cx, env, node, k):
        if isinstance(node, (ast.Name, ast.Attribute)):
            name = self.dotted(node)
            if name is not None and name not in env:
                if name in self.properties:
                    gen, attrs = self.properties[name]
                    for a in attrs:
                        if a not in env:
                            raise Unsupported(node, "property needs %s" % a)
                    return self.bindk(cx, " ".join(
                        [gen] + [env[a] for a in attrs]), k)
                if name == "methods" and self.methods is not None:
                    return k("(PDict [%s])" % "; ".join(
                        "PTuple [PStr %s; PInt %s]" % (strlit(key),
                                                       py2v.zl(val))
                        for key, val in reversed(self.methods)))
        if isinstance(node, (ast.GeneratorExp, ast.ListComp, ast.SetComp,
                             ast.DictComp, ast.IfExp, ast.Lambda,
                             ast.Starred)):
            raise Unsupported(node, "expression")
        return super().expr(cx, env, node, k)

    def subscript(self, cx, env, node, k):
        if isinstance(node.slice, ast.Slice):
            sl = node.slice
            if sl.step is not None:
                raise Unsupported(node, "slice step")
            none = ast.Constant(value=None)
            return self.expr(cx, env, node.value, lambda v: self.expr(
                cx, env, sl.lower or none, lambda lo: self.expr(
                    cx, env, sl.upper or none, lambda hi: self.bindk(
                        cx, "pslice %s %s %s" % (v, lo, hi), k))))
        sl = node.slice
        if isinstance(sl, (ast.Constant, ast.Name, ast.Attribute)) and not (
                isinstance(sl, ast.Constant) and
                not isinstance(sl.value, str)):
            # d[k]: KeyError when absent
            return self.expr(cx, env, node.value, lambda v: self.expr(
                cx, env, sl, lambda i: self.bindk(
                    cx, "pgetitem %s %s" % (v, i), k)))
        raise Unsupported(node, "subscript")

    def genexp2(self, cx, env, node, k):
        """(elt for a, b in iterable) -> pgenexp2 (fun a b => elt) iterable"""
        if len(node.generators) != 1:
            raise Unsupported(node, "generator shape")
        comp = node.generators[0]
        tgt = comp.target
        if comp.ifs or comp.is_async or not isinstance(tgt, ast.Tuple) or \
                len(tgt.elts) != 2 or \
                not all(isinstance(e, ast.Name) for e in tgt.elts) or \
                tgt.elts[0].id == tgt.elts[1].id:
            raise Unsupported(node, "generator shape")
        a, b = cx.fresh("a"), cx.fresh("b")
        inner = dict(env, **{tgt.elts[0].id: a, tgt.elts[1].id: b})
        body = self.expr(cx, inner, node.elt, lambda v: "Ok %s" % v)
        return self.expr(cx, env, comp.iter, lambda it: self.bindk(
            cx, "pgenexp2 (fun (%s %s : pv) => (%s)) %s" % (a, b, body, it),
            k))

    def call(self, cx, env, node, k):
        fn = node.func
        plain = not node.keywords and not any(
            isinstance(a, ast.Starred) for a in node.args)
        nargs = len(node.args)
        fname = self.dotted(fn)
        if fname is not None and fname.split(".")[0] not in env and plain:
            if fname == PATTERN + ".findall" and nargs == 1 and \
                    self.pattern is not None:
                return self.expr(cx, env, node.args[0], lambda a: self.bindk(
                    cx, "pfindall Scan (PStr %s) %s" % (
                        strlit(self.pattern), a), k))
            if fname == "Headers.utf8" and nargs == 1 and \
                    "Headers.utf8" in self.callees:
                return self.expr(cx, env, node.args[0], lambda a: self.bindk(
                    cx, "%s %s" % (self.callees["Headers.utf8"][0], a), k))
            if fname == "dict" and nargs == 1 and \
                    isinstance(node.args[0], ast.GeneratorExp):
                return self.genexp2(
                    cx, env, node.args[0], lambda it: self.bindk(
                        cx, "pdict_of %s" % it, k))
            if fname == "time" and nargs == 0:
                return k(env["__clock"])
        if isinstance(fn, ast.Attribute) and plain:
            attr = fn.attr
            if nargs == 0 and attr in METHODS0:
                return self.expr(cx, env, fn.value, lambda v: self.bindk(
                    cx, "%s %s" % (METHODS0[attr], v), k))
            if nargs == 1 and attr in METHODS1:
                return self.expr(cx, env, fn.value, lambda v: self.expr(
                    cx, env, node.args[0], lambda a: self.bindk(
                        cx, "%s %s %s" % (METHODS1[attr], v, a), k)))
            if attr == "encode" and nargs == 1 and \
                    isinstance(node.args[0], ast.Constant) and \
                    isinstance(node.args[0].value, str):
                return self.expr(cx, env, fn.value, lambda v: self.bindk(
                    cx, "pencode %s (PStr %s)" % (
                        v, strlit(node.args[0].value)), k))
            if attr == "decode" and nargs <= 1 and (nargs == 0 or (
                    isinstance(node.args[0], ast.Constant) and
                    isinstance(node.args[0].value, str))):
                codec = node.args[0].value if nargs else "utf-8"
                return self.expr(cx, env, fn.value, lambda v: self.bindk(
                    cx, "pdecode Dec %s (PStr %s)" % (v, strlit(codec)), k))
            if attr == "startswith" and nargs == 1 and \
                    isinstance(node.args[0], ast.Constant) and \
                    isinstance(node.args[0].value, str) and \
                    len(node.args[0].value) > 0:
                # core: x[:n] == const
                return py2v.Unit.call(self, cx, env, node, k)
        return super().call(cx, env, node, k)

    # ----------------------------------------------------------- statements
    def block(self, cx, env, stmts, kend, loopk=None):
        if not stmts:
            return kend(env)
        st, rest = stmts[0], stmts[1:]

        def after(env2):
            return self.block(cx, env2, rest, kend, loopk)
        if isinstance(st, ast.AnnAssign):
            raise Unsupported(st, "annotated assignment")
        if isinstance(st, ast.Assign) and len(st.targets) == 1:
            tgt = st.targets[0]
            # self.<attr>[k] = v
            if isinstance(tgt, ast.Subscript) and \
                    isinstance(tgt.value, ast.Attribute):
                name = self.dotted(tgt.value)
                if name is None or not name.startswith("self.") or \
                        name not in env:
                    raise Unsupported(tgt, "subscript store")
                new = cx.fresh(name)
                return self.expr(cx, env, st.value, lambda v: self.expr(
                    cx, env, tgt.slice, lambda key: (
                        "%s <- pdict_set %s %s %s ;;\n%s" % (
                            new, env[name], key, v,
                            after(dict(env, **{name: new}))))))
            # self.<attr> = e
            if isinstance(tgt, ast.Attribute):
                name = self.dotted(tgt)
                if name is None or not name.startswith("self.") or \
                        name.count(".") != 1 or name in self.properties:
                    raise Unsupported(st, "attribute store")
                var = cx.fresh(name)
                return self.expr(cx, env, st.value, lambda v: (
                    "let %s := %s in\n%s" % (
                        var, v, after(dict(env, **{name: var})))))
        if isinstance(st, ast.Raise):
            raise Unsupported(st, "raise")
        return super().block(cx, env, stmts, kend, loopk)

    def try_stmt(self, cx, env, st, after, loopk):
        if st.orelse or st.finalbody or not st.handlers:
            raise Unsupported(st, "try shape")
        if cx.retwrap is not None or cx.result is not None:
            raise Unsupported(st, "nested try")
        inner = st.body + [s for h in st.handlers for s in h.body]
        if self.names_assigned(inner):
            raise Unsupported(st, "assignment inside try")
        join, exn = cx.fresh("k"), cx.fresh("exn")
        jcode = after(env)
        cx.retwrap = lambda e, a: "Ok (Returned %s)" % a
        cx.result = lambda e: "Ok (Returned PNone)"
        try:
            body = self.block(cx, env, st.body, lambda e: "Ok Fell", loopk)
        finally:
            cx.retwrap = cx.result = None
        chain = "Err %s" % exn
        for h in reversed(st.handlers):
            if not isinstance(h.type, ast.Name) or \
                    h.type.id not in CATCHABLE or h.type.id in env:
                raise Unsupported(h, "except clause")
            henv = dict(env)
            if h.name:
                henv[h.name] = "(exn_value %s)" % exn
            hcode = self.block(cx, henv, h.body,
                               lambda e: "%s tt" % join, loopk)
            chain = 'if exn_isa "%s" %s then (%s)\nelse (%s)' % (
                h.type.id, exn, hcode, chain)
        return ("let %s := fun (_ : unit) => (%s) in\n"
                "ptry (%s)\n(fun %s => %s)\n%s" % (
                    join, jcode, body, exn, chain, join))

    # ------------------------------------------------------------ functions
    def req_function(self, fundef, gen_name, params, decorator=None,
                     self_param=True, result=None, clock=False,
                     positional=()):
        """params: names of the generated function's parameters (dotted
        attribute names of self, Python parameters, `os.environ`)"""
        a = fundef.args
        if a.vararg or a.kwarg or a.kwonlyargs or a.posonlyargs or \
                a.defaults:
            raise Unsupported(fundef, "signature")
        decos = [ast.dump(d) for d in fundef.decorator_list]
        want = [] if decorator is None else [ast.dump(ast.Name(
            id=decorator, ctx=ast.Load()))]
        if decos != want:
            raise Unsupported(fundef, "decorator")
        for node in ast.walk(fundef):
            if isinstance(node, (ast.Global, ast.Nonlocal, ast.FunctionDef,
                                 ast.AsyncFunctionDef, ast.ClassDef,
                                 ast.Lambda, ast.Yield, ast.YieldFrom,
                                 ast.Await, ast.NamedExpr, ast.With,
                                 ast.Import, ast.ImportFrom)) \
                    and node is not fundef:
                raise Unsupported(node, "construct")
        own = [p.arg for p in a.args]
        if self_param:
            if not own or own[0] != "self":
                raise Unsupported(fundef, "self parameter")
            own = own[1:]
        if len(set(own)) != len(own) or "self" in own or \
                len(own) != len(positional):
            raise Unsupported(fundef, "parameters")
        init = {}
        # Python parameters are bound by position to the canonical names
        # (`positional`); a canonical dotted parameter `app.debug` follows
        # its base
        used = {n.id for n in ast.walk(fundef) if isinstance(n, ast.Name)}
        for actual, canon in zip(own, positional):
            if canon not in params:
                raise Unsupported(fundef, "parameter %s" % canon)
            if actual != canon:
                if canon in used:
                    raise Unsupported(fundef, "name %s" % canon)
                init[actual] = py2v.mangle(canon)
                for q in params:
                    if q.startswith(canon + "."):
                        init[actual + q[len(canon):]] = py2v.mangle(q)
        extra = ()
        if clock:
            init["__clock"] = "clock"
            extra = ("clock",)
        saved = py2v.Ctx
        py2v.Ctx = FreshCtx
        try:
            text = self.function(fundef, gen_name, params,
                                 extra_params=extra, init_env=init,
                                 result=result)
        finally:
            py2v.Ctx = saved
        if "@" in text:
            raise Unsupported(fundef, "object escaped into a term")
        return text

    def write_req(self, filename, header):
        os.makedirs(py2v.GEN, exist_ok=True)
        out = ["(* GENERATED by harness/py2v_reqfacts.py from %s -- do not "
               "edit *)" % header,
               "From Coq Require Import ZArith List Bool String.",
               "Require Import PW.lib.Val PW.lib.Dec PW.lib.Py "
               "PW.lib.PyDigest PW.lib.PyReqFacts.",
               "Import ListNotations.", "Open Scope string_scope.",
               "Open Scope list_scope.", "Open Scope Z_scope.", "",
               "Section Gen."]
        for v, ty in SECTION_VARS:
            out.append("Variable %s : %s." % (v, ty))
        out += self.defs
        out.append("End Gen.")
        path = os.path.join(py2v.GEN, filename)
        text = "\n\n".join(out) + "\n"
        old = open(path).read() if os.path.exists(path) else None
        if old != text:
            with open(path, "w") as f:
                f.write(text)
        return path


# ------------------------------------------------------------ source checks
def check_imports(tree, wanted):
    """each name of `wanted` is bound exactly once in the module, by the
    import IMPORTS says, at module level, and never rebound"""
    found = {}
    for node in ast.walk(tree):
        if isinstance(node, ast.ImportFrom):
            for alias in node.names:
                bound = alias.asname or alias.name
                if bound in wanted:
                    if node not in tree.body or node.level or \
                            bound in found:
                        raise Unsupported(node, "import of %s" % bound)
                    found[bound] = (node.module, alias.name)
        elif isinstance(node, ast.Import):
            for alias in node.names:
                bound = alias.asname or alias.name.split(".")[0]
                if bound in wanted:
                    if node not in tree.body or bound in found or \
                            alias.asname and alias.asname != alias.name:
                        raise Unsupported(node, "import of %s" % bound)
                    found[bound] = (alias.name, None)
        elif isinstance(node, (ast.FunctionDef, ast.ClassDef,
                               ast.AsyncFunctionDef)) and \
                node.name in wanted:
            raise Unsupported(node, "redefinition")
        elif isinstance(node, ast.Name) and node.id in wanted and \
                isinstance(node.ctx, (ast.Store, ast.Del)):
            raise Unsupported(node, "rebinding")
        elif isinstance(node, ast.arg) and node.arg in wanted:
            raise Unsupported(node, "parameter shadows %s" % node.arg)
    if found != {n: IMPORTS[n] for n in wanted}:
        raise Unsupported(tree, "imports %s" % found)


def module_constant(tree, name):
    """the single module-level `name = <expr>`; the name is stored nowhere
    else in the module"""
    stores = [n for n in ast.walk(tree) if isinstance(n, ast.Name)
              and n.id == name and isinstance(n.ctx, (ast.Store, ast.Del))]
    args = [n for n in ast.walk(tree) if isinstance(n, ast.arg)
            and n.arg == name]
    defs = [n for n in tree.body if isinstance(n, ast.Assign)
            and len(n.targets) == 1 and isinstance(n.targets[0], ast.Name)
            and n.targets[0].id == name]
    if len(stores) != 1 or len(defs) != 1 or args or \
            defs[0].targets[0] is not stores[0]:
        raise Unsupported(tree, "bindings of %s" % name)
    for node in ast.walk(tree):
        if isinstance(node, (ast.Global, ast.Nonlocal)) and \
                name in node.names:
            raise Unsupported(node, "global %s" % name)
        if isinstance(node, (ast.FunctionDef, ast.ClassDef)) and \
                node.name == name:
            raise Unsupported(node, "redefinition")
    return defs[0].value


def check_unshadowed(tree, names):
    """the builtins the translation gives a meaning to (`dict`) are not
    rebound anywhere in the module"""
    for node in ast.walk(tree):
        bound = []
        if isinstance(node, ast.Name) and \
                isinstance(node.ctx, (ast.Store, ast.Del)):
            bound.append(node.id)
        elif isinstance(node, (ast.FunctionDef, ast.ClassDef,
                               ast.AsyncFunctionDef)):
            bound.append(node.name)
        elif isinstance(node, ast.arg):
            bound.append(node.arg)
        elif isinstance(node, (ast.Import, ast.ImportFrom)):
            bound += [(a.asname or a.name).split(".")[0] for a in node.names]
        elif isinstance(node, ast.ExceptHandler) and node.name:
            bound.append(node.name)
        for name in bound:
            if name in names:
                raise Unsupported(node, "rebinding of %s" % name)


MUTATORS = {"update", "pop", "clear", "setdefault", "popitem",
            "__setitem__", "__delitem__"}


def check_table_constant(tree, name):
    """no `name[k] = v`, `del name[k]`, `name.update(...)`... in the module"""
    for node in ast.walk(tree):
        if isinstance(node, ast.Subscript) and \
                isinstance(node.value, ast.Name) and node.value.id == name \
                and isinstance(node.ctx, (ast.Store, ast.Del)):
            raise Unsupported(node, "store into %s" % name)
        if isinstance(node, ast.Attribute) and \
                isinstance(node.value, ast.Name) and node.value.id == name \
                and node.attr in MUTATORS:
            raise Unsupported(node, "mutation of %s" % name)
        if isinstance(node, ast.AugAssign) and \
                isinstance(node.target, ast.Name) and node.target.id == name:
            raise Unsupported(node, "mutation of %s" % name)


def pattern_text(tree):
    value = module_constant(tree, PATTERN)
    if not (isinstance(value, ast.Call) and
            ast.dump(value.func) == ast.dump(ast.Attribute(
                value=ast.Name(id="re", ctx=ast.Load()), attr="compile",
                ctx=ast.Load())) and
            len(value.args) == 1 and not value.keywords and
            isinstance(value.args[0], ast.Constant) and
            isinstance(value.args[0].value, str)):
        raise Unsupported(value, "pattern definition")
    return value.args[0].value


def methods_table():
    tree = py2v.parse(STATE)
    value = module_constant(tree, "methods")
    consts = py2v.state_consts()
    if not isinstance(value, ast.Dict):
        raise Unsupported(value, "methods table")
    table = []
    for key, val in zip(value.keys, value.values):
        if not (isinstance(key, ast.Constant) and isinstance(key.value, str)
                and isinstance(val, ast.Name) and val.id in consts):
            raise Unsupported(value, "methods entry")
        # the constant itself must be bound once
        module_constant(tree, val.id)
        table.append((key.value, consts[val.id]))
    return table


def find_method(tree, cls, name, count=1):
    classes = [n for n in tree.body if isinstance(n, ast.ClassDef)
               and n.name == cls]
    if len(classes) != 1:
        raise Unsupported(tree, "definitions of class %s" % cls)
    found = [n for n in classes[0].body if isinstance(n, ast.FunctionDef)
             and n.name == name]
    if len(found) != count:
        raise Unsupported(classes[0], "definitions of %s.%s" % (cls, name))
    for node in ast.walk(classes[0]):
        # no other binding of the name in the class (assignment, setter of
        # another name, nested definition)
        if isinstance(node, ast.Name) and node.id == name and \
                isinstance(node.ctx, (ast.Store, ast.Del)) and \
                node in [t for st in classes[0].body
                         if isinstance(st, ast.Assign) for t in st.targets]:
            raise Unsupported(node, "class attribute %s" % name)
    return found[0] if found else None


def drop_compiled():
    """py2v.regenerate removes gen/ReqFactsGen.v when the translation is
    refused; the compiled files must go too, or a stale ReqFactsGen.vo /
    ReqFactsGenEq.vo would keep the dependent theorems compiling"""
    coq = os.path.dirname(py2v.GEN)
    for stem in (os.path.join(py2v.GEN, "ReqFactsGen"),
                 os.path.join(coq, "proofs", "ReqFactsGenEq")):
        for ext in (".vo", ".vos", ".vok", ".glob"):
            if os.path.exists(stem + ext):
                os.unlink(stem + ext)


def gen_reqfacts():
    try:
        return translate()
    except Exception:
        drop_compiled()
        raise


def translate():
    tree = py2v.parse(SOURCE)
    htree = py2v.parse(HEADERS)
    check_imports(tree, list(IMPORTS))
    check_unshadowed(tree, {"dict"})
    check_table_constant(tree, "methods")
    check_table_constant(py2v.parse(STATE), "methods")
    unit = ReqUnit()
    unit.pattern = pattern_text(tree)
    unit.methods = methods_table()
    # Headers.utf8
    utf8 = find_method(htree, "Headers", "utf8")
    unit.req_function(utf8, "gen_headers_utf8", ["value"],
                      decorator="staticmethod", self_param=False,
                      positional=["value"])
    unit.callees["Headers.utf8"] = ("gen_headers_utf8", ["value"], {})
    # Request.authorization
    auth = find_method(tree, "Request", "authorization")
    unit.req_function(auth, "gen_authorization",
                      ["self.__authorization", "self.__headers"],
                      decorator="property")
    # SimpleRequest.__init__ -> self.__debug
    init = find_method(tree, "SimpleRequest", "__init__")
    unit.req_function(
        init, "gen_init_debug", ["environ", "app", "app.debug", "os.environ"],
        clock=True, result=lambda e: "Ok %s" % e["self.__debug"],
        positional=["environ", "app"])
    # SimpleRequest.method / method_number / path; Request must not
    # override them
    for name in ("method", "method_number", "path"):
        find_method(tree, "Request", name, count=0)
    meth = find_method(tree, "SimpleRequest", "method")
    unit.req_function(meth, "gen_method", ["self.__environ"],
                      decorator="property")
    unit.properties["self.method"] = ("gen_method", ["self.__environ"])
    number = find_method(tree, "SimpleRequest", "method_number")
    unit.req_function(number, "gen_method_number", ["self.__environ"],
                      decorator="property")
    path = find_method(tree, "SimpleRequest", "path")
    unit.req_function(path, "gen_path", ["self.__environ"],
                      decorator="property")
    return unit.write_req(
        "ReqFactsGen.v", "%s Request.authorization, SimpleRequest.__init__, "
        "method, method_number, path; %s Headers.utf8; %s methods" % (
            SOURCE, HEADERS, STATE))


def register(TARGETS, OUTPUT):
    TARGETS["reqfacts"] = gen_reqfacts
    OUTPUT["reqfacts"] = "ReqFactsGen.v"
