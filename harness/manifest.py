"""Regenerates MANIFEST.json from the table below (run by hand after adding a
check; never at check time)."""
import json
import os

VERIF = os.path.dirname(os.path.dirname(os.path.abspath(__file__)))

TB = ("Trusted: Coq 8.16.1 kernel + VM (vm_compute, no native_compute), no "
      "axioms (Print Assumptions: Closed under the global context for every "
      "theorem of coq/props/%s.v); the hand-written Gallina model (modelled, "
      "not verified) is tied to /repo by the differential correspondence run "
      "in the same check (model evaluated in Coq by vm_compute on the inputs "
      "the implementation ran); Python harness, generators and oracles; "
      "CPython 3.12. ")

CHECKS = {
    "C16": dict(
        text="Theorems over the model of get_token/check_token for every "
             "secret, client, T>0 and instants t0,t1>=0 (verify <-> aligned "
             "windows equal or adjacent; < T always, >= 2T never; None/0 never "
             "expire and never raise); the 'different secret/client' clause is "
             "refuted by a witness (known finding) and proved in its exact "
             "partial form. Correspondence and an independent window oracle "
             "run the real session.py under a controlled clock on the "
             "property's grid.",
        design="7/C16",
        note="SHA-256 injective on the formatted texts (theorem hypothesis); "
             "float rounding of time()/timeout outside the model.",
        technique="Coq proof (lia/nia over Z floor division, decimal "
                  "injectivity) + vm_compute correspondence"),
}

NOT_YET = "check not built yet (work in progress, see DESIGN.md section 10)"


def main():
    props = [json.loads(line)
             for line in open(os.path.join(VERIF, "properties.jsonl"))]
    checks = []
    for pid, c in sorted(CHECKS.items()):
        checks.append({
            "property_id": pid,
            "quick_cmd": "bin/check %s --tier quick" % pid,
            "thorough_cmd": "bin/check %s --tier thorough" % pid,
            "evidence_file": "/verif/evidence/%s.json" % pid,
            "replay_cmd_template": "bin/check %s --tier quick  # see {path}"
            % pid,
            "engine": "coq-proof+correspondence",
            "level_claimed": {"category": "proof", "text": c["text"],
                              "design_ref": c["design"]},
            "level_note": TB % pid + c["note"],
            "technique": c["technique"],
        })
    man = {
        "version": 1,
        "setup_cmd": "bin/setup",
        "hooks": {
            "guard": "POORWSGI_VERIF",
            "enable": "no source hooks are needed: checks import /repo "
                      "through PYTHONPATH=/repo and rebind module attributes "
                      "(clock, hash) from the harness process",
            "baseline_off_cmd": "cd /repo && /venv/bin/python -m pytest -ra "
                                "-q -p no:cacheprovider --timeout=900 "
                                "--continue-on-collection-errors",
            "source_commits": [],
            "add_only": True},
        "engines": [{
            "name": "coq-proof+correspondence", "path": "bin/check",
            "serves_properties": sorted(CHECKS),
            "kind_free_text": "Coq 8.16.1 theorems over Gallina models of "
            "the code (coq/), tied to /repo on every run by differential "
            "correspondence (model evaluated by vm_compute) plus independent "
            "oracles on the implementation (harness/)"}],
        "checks": checks,
        "notes": "See DESIGN.md. Known findings: known_findings.json.",
        "not_applicable": [
            {"property_id": p["id"], "reason": NOT_YET}
            for p in props if p["id"] not in CHECKS],
    }
    with open(os.path.join(VERIF, "MANIFEST.json"), "w") as f:
        json.dump(man, f, indent=1)
    print("MANIFEST.json: %d checks" % len(checks))


if __name__ == "__main__":
    main()
