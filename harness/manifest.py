"""Regenerates MANIFEST.json from the table below (run by hand after adding a
check; never at check time)."""
import json
import os

VERIF = os.path.dirname(os.path.dirname(os.path.abspath(__file__)))

TB = ("Trusted: Coq 8.16.1 kernel + VM (vm_compute, no native_compute), no "
      "axioms (Print Assumptions: Closed under the global context for every "
      "theorem of coq/props/%s.v); the hand-written Gallina model (modelled, "
      "not verified) is tied to /repo by the differential correspondence run "
      "in the same check (model evaluated in Coq by vm_compute on the inputs "
      "the implementation ran); Python harness, generators and oracles; "
      "CPython 3.12. ")

CHECKS = {
    "C06": dict(
        text="Theorems over the model of Response/FileObjResponse/"
             "GeneratorResponse: for EVERY history of write()/.data calls the "
             "tracked length equals the buffer (induction over the history); "
             "for every representation and range list the emitted "
             "Content-Length is present exactly when the body is non-empty "
             "and is the decimal body length. Correspondence on write "
             "histories; monitor int(Content-Length)==len(body) at the WSGI "
             "boundary over all classes, offsets, status codes and built-in "
             "pages.",
        design="7/C06",
        note="io.BytesIO/file seek+read semantics as modelled; a "
             "non-seekable stream has unknown size (outside the property); "
             "known finding body-on-204.",
        technique="Coq proof (induction over write history, lia) + "
                  "vm_compute correspondence"),
    "C07": dict(
        text="Theorems: the window computed by __start_response__ equals an "
             "independent RFC 9110 oracle for every length L>=0 and every "
             "valid range (lia); buffer, file-object-from-offset and "
             "chunk-generator answers (status, Content-Range, Content-Length, "
             "body) equal the RFC answer for every content, every write "
             "history and EVERY chunking (structural induction over the chunk "
             "list, via an index-selection characterisation of slicing). "
             "Correspondence + Python RFC oracle on the property's exhaustive "
             "grid through the real classes and an end-to-end Range header.",
        design="7/C07",
        note="seek/read of BytesIO and files as modelled (ztake/zdrop); "
             "parse_range is covered by C18 and the end-to-end monitor.",
        technique="Coq proof (lia + list induction) + vm_compute "
                  "correspondence"),
    "C16": dict(
        text="Theorems over the model of get_token/check_token for every "
             "secret, client, T>0 and instants t0,t1>=0 (verify <-> aligned "
             "windows equal or adjacent; < T always, >= 2T never; None/0 never "
             "expire and never raise); the 'different secret/client' clause is "
             "refuted by a witness (known finding) and proved in its exact "
             "partial form. Correspondence and an independent window oracle "
             "run the real session.py under a controlled clock on the "
             "property's grid.",
        design="7/C16",
        note="SHA-256 injective on the formatted texts (theorem hypothesis); "
             "float rounding of time()/timeout outside the model.",
        technique="Coq proof (lia/nia over Z floor division, decimal "
                  "injectivity) + vm_compute correspondence"),
}

NOT_YET = "check not built yet (work in progress, see DESIGN.md section 10)"


def main():
    props = [json.loads(line)
             for line in open(os.path.join(VERIF, "properties.jsonl"))]
    checks = []
    for pid, c in sorted(CHECKS.items()):
        checks.append({
            "property_id": pid,
            "quick_cmd": "bin/check %s --tier quick" % pid,
            "thorough_cmd": "bin/check %s --tier thorough" % pid,
            "evidence_file": "/verif/evidence/%s.json" % pid,
            "replay_cmd_template": "bin/check %s --tier quick  # see {path}"
            % pid,
            "engine": "coq-proof+correspondence",
            "level_claimed": {"category": "proof", "text": c["text"],
                              "design_ref": c["design"]},
            "level_note": TB % pid + c["note"],
            "technique": c["technique"],
        })
    man = {
        "version": 1,
        "setup_cmd": "bin/setup",
        "hooks": {
            "guard": "POORWSGI_VERIF",
            "enable": "no source hooks are needed: checks import /repo "
                      "through PYTHONPATH=/repo and rebind module attributes "
                      "(clock, hash) from the harness process",
            "baseline_off_cmd": "cd /repo && /venv/bin/python -m pytest -ra "
                                "-q -p no:cacheprovider --timeout=900 "
                                "--continue-on-collection-errors",
            "source_commits": [],
            "add_only": True},
        "engines": [{
            "name": "coq-proof+correspondence", "path": "bin/check",
            "serves_properties": sorted(CHECKS),
            "kind_free_text": "Coq 8.16.1 theorems over Gallina models of "
            "the code (coq/), tied to /repo on every run by differential "
            "correspondence (model evaluated by vm_compute) plus independent "
            "oracles on the implementation (harness/)"}],
        "checks": checks,
        "notes": "See DESIGN.md. Known findings: known_findings.json.",
        "not_applicable": [
            {"property_id": p["id"], "reason": NOT_YET}
            for p in props if p["id"] not in CHECKS],
    }
    with open(os.path.join(VERIF, "MANIFEST.json"), "w") as f:
        json.dump(man, f, indent=1)
    print("MANIFEST.json: %d checks" % len(checks))


if __name__ == "__main__":
    main()
