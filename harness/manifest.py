"""Regenerates MANIFEST.json from the table below (run by hand after adding a
check; never at check time)."""
import json
import os

VERIF = os.path.dirname(os.path.dirname(os.path.abspath(__file__)))

TB = ("Trusted: Coq 8.16.1 kernel + VM (vm_compute, no native_compute), no "
      "axioms (Print Assumptions: Closed under the global context for every "
      "theorem of coq/props/%s.v); the hand-written Gallina model (modelled, "
      "not verified) is tied to /repo by the differential correspondence run "
      "in the same check (model evaluated in Coq by vm_compute on the inputs "
      "the implementation ran); Python harness, generators and oracles; "
      "CPython 3.12. ")

CHECKS = {
    "C01": dict(
        text="Theorems over an executable model of Application.__request__ "
             "(every try/except explicit, user callables as data): for every "
             "hook/handler configuration and request no exception escapes; "
             "start_response is called exactly once, or not at all with an "
             "empty iterable and then only for a connection-level error or a "
             "declined request; status is a registered code and headers are "
             "latin-1 (generic invariant theorem over all paths). "
             "Correspondence on random scenarios (trace and answer) + PEP "
             "3333 oracle over hostile environs x handler programs x "
             "configuration.",
        design="7/C01",
        note="Routing leaf, request construction outcome and reason phrases "
             "are inputs of the model; user callables are plain functions; "
             "responses are fresh; generators yield bytes and are finite; "
             "wall-clock bound is only checked by the monitor; known finding "
             "surrogate-content-type-escapes (model deviates there, see "
             "model/Dispatch.v mk_ctype).",
        technique="Coq proof (case analysis over the exception ladder, "
                  "invariant over all paths) + vm_compute correspondence + "
                  "source-to-Coq translation of Application.__request__, "
                  "state_from_table, error_from_table, handler_from_before "
                  "(control-flow skeleton and event trace) with proved "
                  "equality to the model"),
    "C02": dict(
        text="Theorems: a regex engine for the route subset with a "
             "derivative acceptor proved equivalent to the relational "
             "language (whole string and start-anchored prefix) and a "
             "leftmost-greedy backtracking matcher proved sound and complete "
             "with captures that are a valid parse; select = select_spec (the "
             "documented precedence) with corollaries static-beats-pattern, "
             "first-pattern-wins, method-mismatch-falls-through, unknown-"
             "method-is-GET, re-registration keeps position; the route text "
             "compiles to exactly the structured expression, inline :re: "
             "expressions verbatim; a group route accepts a path iff it "
             "consists of the literal text and filter-accepted segments "
             "(whole path, no trailing newline), and the handler receives "
             "conv_i(segment_i) in order and by name (these four _partial: "
             "for routes inside the modelled regex subset). Correspondence "
             "of regex matching with CPython re, of tables and of selection "
             "through real Applications; reference router on re.fullmatch.",
        design="7/C02",
        note="CPython re modelled on a subset (fails closed outside it); "
             "non-ASCII character classes from a table derived at run time; "
             "int/float/UUID converters modelled on the shapes the filters "
             "let through; file-system facts are inputs.",
        technique="Coq proof (regex derivatives, backtracking matcher "
                  "soundness/completeness, list induction) + vm_compute "
                  "correspondence + source-to-Coq translation of "
                  "handler_from_table, handler_from_default (precedence "
                  "skeleton) and of the route-pattern compiler (built-in "
                  "filters, __regex, __converter, set_filter, compile step "
                  "of set_route) with proved equality to the model + "
                  "generated census of the inputs the dispatch code consults "
                  "(policy theorem by vm_compute)"
                  " + source-to-Coq translation of SimpleRequest.method_number / path and the methods table"),
    "C03": dict(
        text="Theorems: for hook lists of any length the before hooks that "
             "run are exactly hooks 0..k in order (k = first stopping hook), "
             "the endpoint runs iff none stopped, the same for 404/405/"
             "built-in leaves; the after loop feeds each hook the previous "
             "result, stops at the first failure, the client gets the last "
             "result or the error resolution, and no after hook runs outside "
             "the loop (induction over the hook lists). Correspondence of "
             "traces + trace oracle from the property text.",
        design="7/C03",
        note="Same model as C01 (model/Dispatch.v); static file/directory "
             "leaves are one abstract leaf here and exercised in C12.",
        technique="Coq proof (induction over hook lists) + vm_compute "
                  "correspondence of self-recorded traces + source-to-Coq "
                  "translation of the before/after hook loops of the request "
                  "cycle and of the write-once endpoint slots of the request "
                  "with proved equality to the model + generated census of "
                  "the slot writers (policy theorem by vm_compute)"),
    "C04": dict(
        text="Theorems: status resolution = user handler for (s,method) with "
             "its result interpreted like an endpoint result, else built-in "
             "page, else 501; abort(response) delivered exactly; the "
             "exception handler used is the first in registration order that "
             "matches class and method (characterisation iff); handler "
             "failures degrade to the 500 page; the answer before the after "
             "hooks does not depend on them. Correspondence + oracle over "
             "abort codes x handler shapes x registration orders x after "
             "hooks, and a with/without-after-hooks comparison.",
        design="7/C04",
        note="Same model as C01; isinstance and the built-in table are "
             "parameters of the theorems; known finding abort-200-is-204.",
        technique="Coq proof (case analysis, list induction) + vm_compute "
                  "correspondence + source-to-Coq translation of "
                  "state_from_table, error_from_table, HTTPException "
                  "(__init__, make_response, response, status_code), abort, "
                  "redirect and RedirectResponse.__init__ with proved "
                  "equality to the model"),
    "C05": dict(
        text="Theorems: to_response/make_response for each return shape "
             "(text -> UTF-8 bytes, bytes verbatim, dict/list -> JSON text "
             "incl. {} and [], None -> 204 or given status, iterable -> its "
             "chunks in order, 4-tuple sets exactly body/type/headers/status, "
             "other values -> ResponseError -> 500 resolution) and header "
             "emission: every header on the object is emitted unchanged and "
             "in order for every answering class, only Content-Type/-Length "
             "are appended and only when absent. Correspondence + decode "
             "oracle + 12 response classes x header sets.",
        design="7/C05",
        note="json.dumps/loads are CPython's (the model takes the dumps "
             "text); UTF-8 encoder re-implemented in the model and compared "
             "differentially.",
        technique="Coq proof (computation lemmas over the shape dispatch) + "
                  "vm_compute correspondence + source-to-Coq translation of "
                  "make_response, to_response, the automatic-header part of "
                  "__start_response__ with proved equality to the model + "
                  "generated census of the places that name a response "
                  "header (policy theorem by vm_compute)"
                  " + source-to-Coq translation of the response class constructors with proved equality to the model"),
    "C17": dict(
        text="Theorems about the modelled footprint: the status-table merge "
             "of the diagnostic page writes no pre-existing dictionary object "
             "(heap model with aliasing; the pre-fix aliasing variant is "
             "refuted by a witness); every request history over one or "
             "several applications yields the answers each request gets "
             "alone; under any interleaving of atomic steps that read shared "
             "state and write only their request's own state the shared "
             "state is unchanged and each request ends where it ends alone. "
             "Tie: correspondence of the merge with the real debug_info; a "
             "state census (all module globals of poorwsgi.*, "
             "http.client.responses, every Application attribute) around "
             "every request; each answer compared with the answer of the "
             "same request alone in a forked pristine process; all "
             "interleavings of two in-flight requests at 4 switch points "
             "under a deterministic baton scheduler.",
        design="7/C17",
        note="partial: the theorem covers the modelled footprint, the "
             "census covers executed paths only; preemption between switch "
             "points inside CPython/C code is not explored; user handler "
             "state is the user's.",
        technique="Coq proof (heap frame lemma, induction over schedules and "
                  "histories) + state census + differential runs + a "
                  "generated census of shared mutable objects, their writers "
                  "and escapes, and of writes through self in the "
                  "request-time methods of Application (source-to-Coq "
                  "translation, policy theorems by vm_compute)"
                  " + source-to-Coq translation of the configuration accessors of Application with proved equality to a model (last accepted assignment wins, frame) + generated census of configuration writers"),
    "C18": dict(
        text="Theorems: parse_range(render_ranges units rs) = {units: rs} "
             "for every list of first-last / first- / -suffix items with "
             "arbitrary non-negative integers (up to CPython's 4300-digit "
             "limit) and parse_range never raises; days_from_civil "
             "(civil_from_days z) = z for every day and the HTTP date round "
             "trip for every second 1970..9999; negotiation list round trip "
             "and totality; the add_header -> parse_header parameter round "
             "trip for ALL parameter values (backslashes, quotes, ';', CR, LF, "
             "any code point; empty values read back as no entry; main value "
             "and keys within what the writer can represent), the unescape/"
             "escape inversion and totality of parse_header. Correspondence "
             "with the real functions incl. malformed streams; independent "
             "writers/readers (own RFC 9110 range writer, email.utils) in "
             "the monitor.",
        design="7/C18",
        note="strftime/strptime (C locale) trusted; float(str(q)) = q "
             "assumed; \\d/int() and str.lower modelled for ASCII / latin-1; "
             "the former finding param-backslash-before-next-param is fixed "
             "in /repo (697ccfd) and now inside the round-trip theorem.",
        technique="Coq proof (lia over civil-date arithmetic, decimal lemmas, "
                  "list induction) + vm_compute correspondence + "
                  "source-to-Coq translation of _parseparam, parse_header, "
                  "parse_range, ContentRange, parse_/render_negotiation and "
                  "the date functions with proved equality to the model"),
    "C19": dict(
        text="Theorems: for EVERY sequence of registration/removal calls the "
             "model's views equal those of a declarative registry (map (kind, "
             "key, method bit) -> handler, two hook lists) and outcomes agree "
             "(simulation by induction over the call list); pop removes "
             "exactly the addressed entry and leaves everything else; pop of "
             "something absent raises and changes nothing; hook lists are "
             "duplicate-free after every history; a mask registers exactly "
             "its bits. Correspondence on exhaustive call sequences + "
             "reference registry + probe dispatch.",
        design="7/C19",
        note="Handlers, paths, codes and classes are identifiers; a group "
             "uri is identified with its compiled pattern; is_route with an "
             "empty method mask is refuted (outside the quantifier).",
        technique="Coq proof (refinement by induction over operation "
                  "sequences) + vm_compute correspondence + source-to-Coq "
                  "translation of the registration methods of Application "
                  "with proved equality to the model"
                  " + source-to-Coq translation of the registry views and decorator forms with proved equality to the model"),
    "C06": dict(
        text="Theorems over the model of Response/FileObjResponse/"
             "GeneratorResponse: for EVERY history of write()/.data calls the "
             "tracked length equals the buffer (induction over the history); "
             "for every representation and range list the emitted "
             "Content-Length is present exactly when the body is non-empty "
             "and is the decimal body length. Correspondence on write "
             "histories; monitor int(Content-Length)==len(body) at the WSGI "
             "boundary over all classes, offsets, status codes and built-in "
             "pages.",
        design="7/C06",
        note="io.BytesIO/file seek+read semantics as modelled; a "
             "non-seekable stream has unknown size (outside the property); "
             "known finding body-on-204.",
        technique="Coq proof (induction over write history, lia) + "
                  "vm_compute correspondence"
                  " + source-to-Coq translation of BaseResponse.__call__ / Declined.__call__ with proved equality to a model in which a response object answers at most once"),
    "C07": dict(
        text="Theorems: the window computed by __start_response__ equals an "
             "independent RFC 9110 oracle for every length L>=0 and every "
             "valid range (lia); buffer, file-object-from-offset and "
             "chunk-generator answers (status, Content-Range, Content-Length, "
             "body) equal the RFC answer for every content, every write "
             "history and EVERY chunking (structural induction over the chunk "
             "list, via an index-selection characterisation of slicing). "
             "Correspondence + Python RFC oracle on the property's exhaustive "
             "grid through the real classes and an end-to-end Range header.",
        design="7/C07",
        note="seek/read of BytesIO and files as modelled (ztake/zdrop); "
             "parse_range is covered by C18 and the end-to-end monitor.",
        technique="Coq proof (lia + list induction) + source-to-Coq "
                  "translation with proved equality to the model + "
                  "vm_compute correspondence"),
    "C08": dict(
        text="Theorems over the model of FieldStorageParser (multipart): "
             "for EVERY reader satisfying the line-reader contract (proved "
             "for io.BytesIO.readline and for the caching reader with any "
             "size), read_lines_to_outerboundary returns exactly the content "
             "before the delimiter for every content none of whose lines is "
             "a delimiter line (incl. near copies, CR/LF runs, the 64 KiB "
             "line cut between CR and LF), with exact bytes_read and reader "
             "position; the property's own hypothesis implies that side "
             "condition; parse(encode(parts)) returns the parts in order "
             "with names, filenames, media types and byte-exact contents for "
             "every good reader, with/without final CRLF and Content-Length "
             "(header decoding proved for every name/filename without CR/LF "
             "and lone surrogates, incl. trailing backslashes; _partial: "
             "nested/urlencoded parts, media types with parameters, text "
             "compared bytewise); two good readers "
             "agree; ASCII text exact under any cut. Correspondence: real "
             "parser on random RFC 7578 bodies through BytesIO and the real "
             "CachedInput at every block size; monitor decode(encode(parts)) "
             "with factory-call accounting.",
        design="7/C08",
        note="email.feedparser, tempfile, io and codecs trusted; nested "
             "multipart / urlencoded parts unmodelled (reported as such); "
             "text values compared bytewise in the round-trip theorem; known "
             "finding text-field-multibyte-at-64k-cut.",
        technique="Coq proof (induction over reader lines with a three-phase "
                  "invariant) + vm_compute correspondence + source-to-Coq "
                  "translation of read_lines_to_outerboundary, _write, "
                  "make_file, valid_boundary, _skip_to_boundary, skip_lines "
                  "and read_multi (header loop, part loop), the parser's "
                  "constructor, parse, read_single and read_lines with "
                  "proved equality to the model"),
    "C09": dict(
        text="Theorems over the model of CachedInput.read/readline (loop "
             "with explicit fuel), for all bodies, declared lengths, block "
             "sizes, size arguments, call histories (induction) and short-"
             "read patterns: returned chunks ++ pending = first n bytes "
             "(nothing lost, duplicated or reordered); budget bookkeeping "
             "(todo = n - received, every request within the remaining "
             "budget); readline results contain CRLF only at their end and "
             "are cut only by the size limit, exhaustion or an empty read; "
             "every call returns within fuel > max(n, size) (no spinning); "
             "completeness when a blocking stream reports end of input; the "
             "definitions generated from the current source of read/readline "
             "equal the model (timeout=None). Correspondence on the exhaustive small-alphabet grid and long "
             "bodies with CRLFs on block edges; monitor from the property "
             "text with an instrumented stream.",
        design="7/C09",
        note="timeout=None path (the clock-based TimeoutError loop is "
             "outside the model; known finding timeout-busy-wait-on-early-"
             "eof); n >= 0, block >= 1, the stream never raises; 'total "
             "requested <= n' is proved per request against the remaining "
             "budget (the literal sum is false under short reads).",
        technique="Coq proof (invariant by induction over call histories, "
                  "fuel-bounded loop) + source-to-Coq translation of "
                  "CachedInput.read/readline with proved equality to the "
                  "model + vm_compute correspondence"
                  " + source-to-Coq translation of CachedInput.__init__ and Request.input / read / data / read_chunk with proved equality to the model"),
    "C10": dict(
        text="Theorems (all pair lists, all strings): parse_qsl(urlencode "
             "pairs) = pairs (blank values kept or dropped per setting) for "
             "every legal encoding (%XX either case, '+', literal), built on "
             "a proved UTF-8 decode/encode round trip; Args collapse (single "
             "-> scalar, repeated -> list in order, key order); getvalue/"
             "getfirst/getlist agree for Args, FieldStorage, JsonDict, "
             "JsonList, EmptyForm; invalid JSON -> 400 outcome; the body read "
             "plan never requests more than Content-Length except in the raw-"
             "stream multipart class (refuted by witness = known finding). "
             "Correspondence through real Requests incl. an instrumented "
             "wsgi.input + value-equality and byte-count oracle.",
        design="7/C10",
        note="json.loads and non-UTF-8 codecs are Section variables; "
             "parse_qsl/unquote re-implemented and tied to CPython's "
             "differentially; strict_parsing=0; known finding "
             "multipart-raw-stream-reads-past-content-length.",
        technique="Coq proof (lia-based UTF-8 and percent codec round trips, "
                  "list induction) + vm_compute correspondence + "
                  "source-to-Coq translation of the request-data containers, "
                  "the constructor decisions and the head of "
                  "Request.__init__ (headers from the CGI variables, media "
                  "type, charset, content length) with proved equality to "
                  "the model + generated census of input read sites (policy "
                  "theorem by vm_compute)"),
    "C11": dict(
        text="Theorems over the model of check_digest / check_credentials / "
             "check_response (Authorization tokenizer as a direct scanner, "
             "unquote, nonce via the C16 token model, hashes as parameters): "
             "the gate never crashes for any header text; Run u implies a "
             "registered user, configured algorithm/opaque/qop/realm, uri "
             "path equal to the request path and query equal, a verifying "
             "nonce and the response equal to an independently defined RFC "
             "7616 value (with injective hashes: wrong password / method / "
             "altered response never run); completeness for the 4 algorithms "
             "x qop; stale exactly when the nonce does not verify, and for "
             "server-issued nonces only when old. Correspondence of whole "
             "WSGI calls with reversible fake hashes and a rebound clock; "
             "monitor with real hashes, an own RFC 7616 client/verifier and "
             "every single-field mutation.",
        design="7/C11",
        note="hash functions are Section variables (injectivity assumed "
             "where stated); tokenizer exact for code points <= 255; "
             "lenient-but-valid headers may be served or refused; nc replay "
             "is outside the property.",
        technique="Coq proof (case analysis over the credential ladder) + "
                  "vm_compute correspondence + source-to-Coq translation of "
                  "check_response, check_credentials, the check_digest "
                  "handler with proved equality to the model"
                  " + source-to-Coq translation of Request.authorization (header parsing) and the request path with proved equality to the model"
                  " + source-to-Coq translation of the Digest challenge (results.unauthorized) with proved equality to a model whose issued nonce and opaque are proved to verify"),
    "C12": dict(
        text="Theorems with NO hypothesis on the request path (any code "
             "points, NUL, repeated or missing leading slashes, dot "
             "segments): normpath('/' + lstrip(path)) is '/' followed by "
             "clean segments (none is '', '.' or '..', no '/'), so the "
             "resolved name is root + '/' + clean segments; a file is served "
             "only for that name, only if it is a readable regular file and "
             "only for the GET/HEAD method bits; directories give a listing "
             "exactly when indexing is on and 403 otherwise; the listing "
             "rows are exactly the visible entries. Correspondence: model "
             "normpath vs posixpath.normpath on the exhaustive segment grid; "
             "model decision vs the real application on a sandbox tree; "
             "monitor with content tokens and a sys.addaudithook for opens "
             "outside the root.",
        design="7/C12",
        note="lexical confinement only (symlinks and TOCTOU outside); the "
             "file system is an arbitrary function in the theorems; unknown "
             "method tokens count as GET (framework rule); file bytes and "
             "Content-Length are monitored here and proved in C06.",
        technique="Coq proof (invariant over the normpath stack, case "
                  "analysis of the decision) + vm_compute correspondence + "
                  "source-to-Coq translation of the static part of "
                  "handler_from_table, the settings and the listing filter "
                  "with proved equality to the model + generated census of "
                  "the inputs of the gate and the settings"),
    "C13": dict(
        text="Theorems: the XOR masking is an involution for every key "
             "stream and text; write/load round trip under the codec laws "
             "for every key; cookie attributes exactly as configured after "
             "any history without destroy; after ANY history containing "
             "destroy the emitted cookie is expired (expires=-1, Max-Age=-1 "
             "when configured) (invariant + induction over histories); load "
             "of any string either restores, keeps or raises SessionError, "
             "never another exception; different key bytes give different "
             "masked bytes. Correspondence of hidden() with the real SHA-512 "
             "digest and of operation histories; monitor: round trip through "
             "the real Cookie parser, foreign/truncated/garbage loads.",
        design="7/C13",
        note="json, bz2/zlib, base64 are a record of option-valued functions "
             "with inverse laws as hypotheses; SHA-512 outside the model; "
             "'foreign secret never restores equal data' is proved only at "
             "the byte level (_partial), the rest is monitored.",
        technique="Coq proof (Z.lxor algebra, invariant over operation "
                  "histories) + vm_compute correspondence + source-to-Coq "
                  "translation of session.hidden and of "
                  "PoorSession.write / destroy / load / header with proved "
                  "equality to the model"),
    "C14": dict(
        text="Theorems: for EVERY history of operations (construction, add, "
             "add_header with parameters, assignment, deletion, setdefault, "
             "lookups, hostile arguments) from every start state the model of "
             "Headers refines a declarative insertion-ordered case-"
             "insensitive multimap (state and outcome after each step); "
             "lookups ignore case, assignment replaces all entries, deletion "
             "removes all and only entries of the name, add refuses a "
             "duplicate except Set-Cookie in any casing, iteration is "
             "insertion order; every stored code point is latin-1 and is the "
             "UTF-8 encoding of the supplied text; utf8(iso88591 s) = s for "
             "all scalar-value strings (arithmetic UTF-8 round trip); non-"
             "strings are rejected with TypeError/ValueError and a raising "
             "operation leaves the collection unchanged. Correspondence on "
             "exhaustive histories; independent reference multimap monitor.",
        design="7/C14",
        note="str.lower modelled for A-Z (names are US-ASCII tokens); UTF-8 "
             "codecs re-implemented and compared with CPython's.",
        technique="Coq proof (refinement by induction over operation "
                  "histories, lia-based UTF-8 round trip) + vm_compute "
                  "correspondence + source-to-Coq translation of the methods "
                  "of class Headers with proved equality to the model"
                  " + source-to-Coq translation of Headers.iso88591 / utf8 / __iter__ (the former primitive of the Headers tie) with proved equality to the model"),
    "C15": dict(
        text="Model regenerated from the source on every run: "
             "harness/py2pages.py translates the nine built-in page functions "
             "of results.py into a page IR (literals, holes with taint class, "
             "escape flag and HTML context, debug branches, row loops); one "
             "proof obligation per page (guarded = true by computation) is "
             "re-checked against the current source. Theorems: html_escape "
             "output is inert for the tokenizer in text, RCDATA and quoted "
             "attribute values; token characters are inert; for every guarded "
             "page the element/attribute events of the rendered page do not "
             "depend on request data or file names (noninterference, "
             "induction over the IR incl. loops). Correspondence: model page "
             "vs real page; monitor: html.parser over real pages with marker "
             "payloads in every request-derived location.",
        design="7/C15",
        note="taint table of the translator (unknown = tainted; header "
             "names and environ keys classed as token characters); tokenizer "
             "is a simplification of HTML5 tied to html.parser on real pages; "
             "no <script> contexts (translator rejects them).",
        technique="source-to-Coq translation (PageIR) + Coq proof "
                  "(noninterference by induction) + vm_compute "
                  "correspondence"
                  " + source-to-Coq translation of HTML_ESCAPE_TABLE and html_escape with proved equality to the model's escape function"),
    "C16": dict(
        text="Theorems over the model of get_token/check_token for every "
             "secret, client, T>0 and instants t0,t1>=0 (verify <-> aligned "
             "windows equal or adjacent; < T always, >= 2T never; None/0 never "
             "expire and never raise); the 'different secret/client' clause is "
             "refuted by a witness (known finding) and proved in its exact "
             "partial form. Correspondence and an independent window oracle "
             "run the real session.py under a controlled clock on the "
             "property's grid.",
        design="7/C16",
        note="SHA-256 injective on the formatted texts (theorem hypothesis); "
             "float rounding of time()/timeout outside the model.",
        technique="Coq proof (lia/nia over Z floor division, decimal "
                  "injectivity) + source-to-Coq translation with proved "
                  "equality to the model + vm_compute correspondence"),
    "C20": dict(
        text="Theorems: the effective debug flag equals the override when "
             "the selected environment (request environ, or process environ "
             "for servers that export it) holds a non-empty value -- true "
             "exactly for 'on' in any letter case -- and the application "
             "attribute otherwise (override takes precedence); with debug off "
             "the routing tail treats /debug-info like any unknown path and "
             "the debug page is reachable only with debug on; with debug off "
             "the 500 page is identical for every failure description, for "
             "any literal text of the page. Correspondence: flag grid, and "
             "the 500 page rebuilt byte-exactly by the model from the literal "
             "chunks of the current results.py (debug on and off); monitor "
             "with a secret token at every failure site.",
        design="7/C20",
        note="str.lower modelled for ASCII; page literals are parameters "
             "taken from the source on every run (fail-closed shape check); "
             "other built-in pages receive no exception data at all (they "
             "only log it).",
        technique="Coq proof (computation/case analysis) + source-extracted "
                  "literals + vm_compute correspondence + source-to-Coq "
                  "translation of the debug-info gate in handler_from_table "
                  "with proved equality to the model + generated census of "
                  "the places that consult an override key"
                  " + source-to-Coq translation of the effective debug flag in SimpleRequest.__init__ with proved equality to the model"),
}

NOT_YET = "check not built yet (work in progress, see DESIGN.md section 10)"


def main():
    props = [json.loads(line)
             for line in open(os.path.join(VERIF, "properties.jsonl"))]
    checks = []
    for pid, c in sorted(CHECKS.items()):
        checks.append({
            "property_id": pid,
            "quick_cmd": "bin/check %s --tier quick" % pid,
            "thorough_cmd": "bin/check %s --tier thorough" % pid,
            "evidence_file": "/verif/evidence/%s.json" % pid,
            "replay_cmd_template": "bin/check %s --replay {path}" % pid,
            "engine": "coq-proof+correspondence",
            "level_claimed": {"category": "proof", "text": c["text"],
                              "design_ref": c["design"]},
            "level_note": TB % pid + c["note"],
            "technique": c["technique"],
        })
    man = {
        "version": 1,
        "setup_cmd": "bin/setup",
        "hooks": {
            "guard": "POORWSGI_VERIF",
            "enable": "no source hooks are needed: checks import /repo "
                      "through PYTHONPATH=/repo and rebind module attributes "
                      "(clock, hash) from the harness process",
            "baseline_off_cmd": "cd /repo && /venv/bin/python -m pytest -ra "
                                "-q -p no:cacheprovider --timeout=900 "
                                "--continue-on-collection-errors",
            "source_commits": [],
            "add_only": True},
        "engines": [{
            "name": "coq-proof+correspondence", "path": "bin/check",
            "serves_properties": sorted(CHECKS),
            "kind_free_text": "Coq 8.16.1 theorems over Gallina models of "
            "the code (coq/), tied to /repo on every run by differential "
            "correspondence (model evaluated by vm_compute) plus independent "
            "oracles on the implementation (harness/)"}],
        "checks": checks,
        "notes": "See DESIGN.md. Known findings: known_findings.json.",
        "not_applicable": [
            {"property_id": p["id"], "reason": NOT_YET}
            for p in props if p["id"] not in CHECKS],
    }
    with open(os.path.join(VERIF, "MANIFEST.json"), "w") as f:
        json.dump(man, f, indent=1)
    print("MANIFEST.json: %d checks" % len(checks))


if __name__ == "__main__":
    main()
