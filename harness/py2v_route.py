"""Translator tie for the route-pattern compiler (C02):

    poorwsgi/wsgi.py  re_filter (module level), the built-in filter table
                      created in Application.__init__, Application.__regex,
                      __converter, set_filter and the compile step of
                      set_route / pop_route / is_route
        ->  coq/gen/RouteGen.v

Domain-specific and fail closed.  Every translated function is walked
statement by statement (Python `ast`) and becomes a Gallina function into
`outcome` (model/Routing.v) over the primitives of coq/lib/PyRoute.v; the
operations are chained with `bind` in the evaluation order of the source.
GENERATED FROM THE SYNTAX: the pattern text of re_filter; names, regex texts
and converters of the built-in table in dict order; in __regex /
__converter / set_filter every operation, its operands and the order
(str(), .lower(), the membership test, the `[:4] == ':re:'` test and its
constants, which group every expression reads, the lookups with their tuple
index, try/except with the caught and the raised class, the pieces of the
format text and its arguments); in the compile step the test, the callback
and the argument of sub, the appended text, the element expressions of the
converters tuple, and the arguments handed to set_regular_route /
pop_regular_route / is_regular_route.

TRUSTED (the tables below and coq/lib/PyRoute.v, nothing else):
  ATTRS       self.__filters is the filter table F of the model;
  CONVERTERS  builtin / imported callables -> constructors of Routing.conv;
  METHODS     parameter types of the translated methods, by position
              (`match` is a hit of re_filter: groups() is the pair (name :
              str, filter spec : str or None); the uri is a str);
  the regular-expression engine over re_filter: re_filter.search(uri) (as a
  truth value), re_filter.sub(self.__regex, uri), re_filter.finditer(uri)
  with m.groups() = PyRoute.re_search / re_sub / re_groups, i.e. "scan the
  uri into literal characters and groups" = the model's scan_uri; the
  message of an exception is not observed (its expression must be a str
  constant or `constant % name`); `raise X(..) from e` = raise X.
  DROPPED     docstrings, type hints, calls of log.*.
Everything else raises py2v.Unsupported: the generated file and its compiled
forms (and those of proofs/RouteGenEq) are removed and the theorems
C02_generated_* of this tie stop compiling.

Parameters are named by position, locals by binding position (v1, v2, ...),
tables F, F1, ...: renaming a parameter or a local, adding comments, type
hints or log calls leaves the generated text unchanged.
"""
import ast
import os

import py2v
from py2v import Unsupported, strlit

# ===================================================================== TRUSTED
SOURCE = "poorwsgi/wsgi.py"
CLASS = "Application"
ATTRS = {"self.__filters": "F"}
CONVERTERS = {"int": "CInt", "float": "CFloat", "str": "CStr",
              "uuid.UUID": "CUuid"}
# parameter types after self, by position; None = not used by the
# translated part (passed on by position only)
METHODS = {
    "__regex": ["match"],
    "__converter": ["rv"],
    "set_filter": ["rv", "rv", "conv"],
    "set_route": ["str", None, None],
    "pop_route": ["str", None],
    "is_route": ["str"],
}
# the compile step: method -> the method the compiled text is handed to
COMPILE = [("set_route", "set_regular_route"),
           ("pop_route", "pop_regular_route"),
           ("is_route", "is_regular_route")]
# names whose usual meaning the tables rely on: never rebound in the module
FIXED_NAMES = {"re", "re_filter", "uuid", "str", "int", "float", "tuple",
               "KeyError", "RuntimeError"}
IMPORTS = {"re", "uuid"}
# =============================================================================


def dotted(node):
    if isinstance(node, ast.Name):
        return node.id
    if isinstance(node, ast.Attribute):
        head = dotted(node.value)
        return None if head is None else head + "." + node.attr
    return None


def is_log(stmt):
    return isinstance(stmt, ast.Expr) and isinstance(stmt.value, ast.Call) \
        and (dotted(stmt.value.func) or "").startswith("log.")


def is_doc(stmt):
    return isinstance(stmt, ast.Expr) and \
        isinstance(stmt.value, ast.Constant) and \
        isinstance(stmt.value.value, str)


def clean(stmts):
    return [s for s in stmts if not is_log(s) and not is_doc(s)
            and not isinstance(s, ast.Pass)]


def natlit(n):
    return "%d%%nat" % n


def format_pieces(node, text):
    """'..%s..' -> [FL ..; FS; ..]; only %s and %% are understood"""
    pieces, lit, i, slots = [], "", 0, 0
    while i < len(text):
        if text[i] != "%":
            lit += text[i]
            i += 1
            continue
        nxt = text[i + 1:i + 2]
        if nxt == "%":
            lit += "%"
        elif nxt == "s":
            if lit:
                pieces.append("FL %s" % strlit(lit))
            lit = ""
            pieces.append("FS")
            slots += 1
        else:
            raise Unsupported(node, "format directive %%%s" % nxt)
        i += 2
    if lit:
        pieces.append("FL %s" % strlit(lit))
    return "[%s]" % "; ".join(pieces), slots


class Fn:
    """one translated function body"""

    def __init__(self, tr, with_u):
        self.tr = tr
        self.n = 0
        self.nf = 0
        self.with_u = with_u

    def fresh(self):
        self.n += 1
        return "v%d" % self.n

    def fresh_tab(self):
        self.nf += 1
        return "F%d" % self.nf

    def bind(self, term, typ, k):
        v = self.fresh()
        return "bind (%s) (fun %s =>\n  %s)" % (term, v, k(v, typ))

    # ------------------------------------------------------------ coercions
    def as_rv(self, node, atom, typ):
        if typ == "rv":
            return atom
        if typ == "str":
            return "(RS %s)" % atom
        raise Unsupported(node, "a %s where a str or None is needed" % typ)

    def is_filters(self, node):
        return dotted(node) in ATTRS

    # ---------------------------------------------------------- expressions
    def expr(self, env, node, k):
        if isinstance(node, ast.Constant):
            if isinstance(node.value, str):
                return k("(RS %s)" % strlit(node.value), "rv")
            if node.value is None:
                return k("RN", "rv")
            raise Unsupported(node, "constant")
        if isinstance(node, ast.Name):
            if node.id in env:
                atom, typ = env[node.id]
                if typ in ("groups", "match"):
                    raise Unsupported(node, "%s used as a value" % typ)
                return k(atom, typ)
            if node.id in CONVERTERS:
                return k(CONVERTERS[node.id], "conv")
            raise Unsupported(node, "unknown name %s" % node.id)
        if isinstance(node, ast.Attribute):
            name = dotted(node)
            if name in CONVERTERS and name.split(".")[0] not in env:
                return k(CONVERTERS[name], "conv")
            raise Unsupported(node, "attribute %s" % name)
        if isinstance(node, ast.Call):
            return self.call(env, node, k)
        if isinstance(node, ast.Subscript):
            return self.subscript(env, node, k)
        if isinstance(node, ast.Compare):
            return self.compare(env, node, k)
        if isinstance(node, ast.BinOp):
            return self.binop(env, node, k)
        if isinstance(node, ast.IfExp):
            def branch(sub, types):
                def done(a, t):
                    types.append(t)
                    return "Ok %s" % a
                return self.expr(env, sub, done)

            def on_test(c, t):
                if t != "bool":
                    raise Unsupported(node.test, "truth value of a %s" % t)
                types = []
                yes = branch(node.body, types)
                no = branch(node.orelse, types)
                if types[0] != types[1]:
                    raise Unsupported(node, "branches of different types")
                return self.bind("if %s then %s else %s" % (c, yes, no),
                                 types[0], k)
            return self.expr(env, node.test, on_test)
        raise Unsupported(node, "expression")

    def groups_of(self, env, node):
        """the (g0, g1) atoms when node is a local bound to match.groups()"""
        if isinstance(node, ast.Name) and node.id in env and \
                env[node.id][1] == "groups":
            return env[node.id][0]
        return None

    def subscript(self, env, node, k):
        sl = node.slice
        groups = self.groups_of(env, node.value)
        if groups is not None:
            if isinstance(sl, ast.Constant) and type(sl.value) is int and \
                    0 <= sl.value < len(groups):
                return k(groups[sl.value], "rv")
            raise Unsupported(node, "index of groups()")
        # self.__filters[k][i]
        if isinstance(node.value, ast.Subscript) and \
                self.is_filters(node.value.value):
            if not (isinstance(sl, ast.Constant) and type(sl.value) is int
                    and sl.value in (0, 1)):
                raise Unsupported(node, "index of a filter record")
            prim, typ = (("tab_regex", "rv"), ("tab_conv", "conv"))[sl.value]
            tab = env["self.__filters"][0]
            return self.expr(env, node.value.slice, lambda a, t: self.bind(
                "%s %s %s" % (prim, tab, self.as_rv(node, a, t)), typ, k))
        if self.is_filters(node.value):
            raise Unsupported(node, "filter record used as a value")
        if isinstance(sl, ast.Slice):
            if sl.step is not None:
                raise Unsupported(node, "slice step")

            def bound(b):
                return isinstance(b, ast.Constant) and type(b.value) is int \
                    and b.value >= 0
            if sl.lower is None and bound(sl.upper):
                prim, n = "py_slice_to", sl.upper.value
            elif sl.upper is None and bound(sl.lower):
                prim, n = "py_slice_from", sl.lower.value
            else:
                raise Unsupported(node, "slice")
            return self.expr(env, node.value, lambda a, t: self.bind(
                "%s %s %s" % (prim, natlit(n), self.as_rv(node, a, t)),
                "rv", k))
        if isinstance(sl, ast.Constant) and type(sl.value) is int and \
                sl.value == 0:
            return self.expr(env, node.value, lambda a, t: self.bind(
                "py_index0 %s" % self.as_rv(node, a, t), "rv", k))
        raise Unsupported(node, "subscript")

    def compare(self, env, node, k):
        if len(node.ops) != 1:
            raise Unsupported(node, "chained comparison")
        op, right = node.ops[0], node.comparators[0]
        if isinstance(op, (ast.In, ast.NotIn)):
            if not self.is_filters(right):
                raise Unsupported(node, "membership in something else")
            tab = env["self.__filters"][0]
            form = "tab_mem %s %s" if isinstance(op, ast.In) \
                else "negb (tab_mem %s %s)"
            return self.expr(env, node.left, lambda a, t: k(
                "(" + form % (tab, self.as_rv(node, a, t)) + ")", "bool"))
        if isinstance(op, (ast.Eq, ast.NotEq)):
            prim = "rv_eqb" if isinstance(op, ast.Eq) else "rv_neqb"
            return self.expr(env, node.left, lambda a, ta: self.expr(
                env, right, lambda b, tb: k("(%s %s %s)" % (
                    prim, self.as_rv(node, a, ta), self.as_rv(node, b, tb)),
                    "bool")))
        raise Unsupported(node, "comparison")

    def seq(self, env, nodes, k, acc=None):
        acc = acc or []
        if not nodes:
            return k(acc)
        return self.expr(env, nodes[0], lambda a, t: self.seq(
            env, nodes[1:], k, acc + [self.as_rv(nodes[0], a, t)]))

    def binop(self, env, node, k):
        if isinstance(node.op, ast.Add):
            return self.expr(env, node.left, lambda a, ta: self.expr(
                env, node.right, lambda b, tb: self.bind(
                    "py_add %s %s" % (self.as_rv(node, a, ta),
                                      self.as_rv(node, b, tb)), "rv", k)))
        if isinstance(node.op, ast.Mod) and \
                isinstance(node.left, ast.Constant) and \
                isinstance(node.left.value, str):
            pieces, _ = format_pieces(node, node.left.value)
            args = node.right.elts if isinstance(node.right, ast.Tuple) \
                else [node.right]
            return self.seq(env, list(args), lambda items: self.bind(
                "py_format %s [%s]" % (pieces, "; ".join(items)), "rv", k))
        raise Unsupported(node, "operator")

    def plain(self, node, nargs):
        if node.keywords or len(node.args) != nargs or \
                any(isinstance(a, ast.Starred) for a in node.args):
            raise Unsupported(node, "call shape")

    def engine_arg(self, env, node):
        """the uri handed to re_filter.*: a str parameter"""
        if isinstance(node, ast.Name) and node.id in env and \
                env[node.id][1] == "str":
            return env[node.id][0]
        raise Unsupported(node, "argument of re_filter")

    def call(self, env, node, k):
        fn = node.func
        name = dotted(fn)
        if name == "str" and "str" not in env:
            self.plain(node, 1)
            return self.expr(env, node.args[0], lambda a, t: k(
                "(py_str %s)" % self.as_rv(node, a, t), "rv"))
        if name == "self.__converter":
            self.plain(node, 1)
            if "__converter" not in self.tr.done:
                raise Unsupported(node, "__converter is not translated")
            tab = env["self.__filters"][0]
            return self.expr(env, node.args[0], lambda a, t: self.bind(
                "gen_converter %s %s" % (tab, self.as_rv(node, a, t)),
                "conv", k))
        if name == "re_filter.search" and self.with_u:
            self.plain(node, 1)
            return k("(re_search U %s)" % self.engine_arg(env, node.args[0]),
                     "bool")
        if name == "re_filter.sub" and self.with_u:
            self.plain(node, 2)
            if dotted(node.args[0]) != "self.__regex" or \
                    "__regex" not in self.tr.done:
                raise Unsupported(node, "callback of re_filter.sub")
            tab = env["self.__filters"][0]
            return self.bind("re_sub U (gen_regex %s) %s" % (
                tab, self.engine_arg(env, node.args[1])), "rv", k)
        if name == "tuple" and self.with_u:
            self.plain(node, 1)
            return self.tuple_gen(env, node.args[0], k)
        if isinstance(fn, ast.Attribute):
            if fn.attr == "lower":
                self.plain(node, 0)
                return self.expr(env, fn.value, lambda a, t: self.bind(
                    "py_lower %s" % self.as_rv(node, a, t), "rv", k))
            if fn.attr == "groups" and isinstance(fn.value, ast.Name) and \
                    fn.value.id in env and env[fn.value.id][1] == "match":
                self.plain(node, 0)
                return k(env[fn.value.id][0], "groups")
        raise Unsupported(node, "call of %s" % name)

    def one_for(self, node):
        if not isinstance(node, ast.GeneratorExp) or \
                len(node.generators) != 1:
            raise Unsupported(node, "generator")
        comp = node.generators[0]
        if comp.ifs or comp.is_async or not isinstance(comp.target, ast.Name):
            raise Unsupported(node, "generator clause")
        return comp.target.id, comp.iter, node.elt

    def tuple_gen(self, env, node, k):
        """tuple(E(g) for g in (m.groups() for m in re_filter.finditer(u)))"""
        gname, source, elt = self.one_for(node)
        mname, it, inner = self.one_for(source)
        if not (isinstance(it, ast.Call) and
                dotted(it.func) == "re_filter.finditer"):
            raise Unsupported(it, "source of the generator")
        self.plain(it, 1)
        uri = self.engine_arg(env, it.args[0])
        if not (isinstance(inner, ast.Call) and not inner.args and
                not inner.keywords and
                isinstance(inner.func, ast.Attribute) and
                inner.func.attr == "groups" and
                isinstance(inner.func.value, ast.Name) and
                inner.func.value.id == mname):
            raise Unsupported(inner, "element of the inner generator")
        if not isinstance(elt, ast.Tuple) or len(elt.elts) != 2:
            raise Unsupported(elt, "element of the converters tuple")
        env2 = dict(env)
        env2.pop(mname, None)
        env2[gname] = (("g0", "g1"), "groups")
        types = []

        def first(a, ta):
            def second(b, tb):
                types.extend([ta, tb])
                return "Ok (%s, %s)" % (self.as_rv(elt, a, ta), b)
            return self.expr(env2, elt.elts[1], second)
        body = self.expr(env2, elt.elts[0], first)
        if types[1] != "conv":
            raise Unsupported(elt, "second item is not a converter")
        return self.bind("tuple_of (fun g0 g1 =>\n  %s) (re_groups U %s)"
                         % (body, uri), "convs", k)

    # ----------------------------------------------------------- statements
    def assigned(self, stmts):
        names = []
        for st in clean(stmts):
            if isinstance(st, ast.Assign):
                for tg in st.targets:
                    if isinstance(tg, ast.Name) and tg.id not in names:
                        names.append(tg.id)
            elif isinstance(st, ast.If):
                for nm in self.assigned(st.body) + self.assigned(st.orelse):
                    if nm not in names:
                        names.append(nm)
            elif isinstance(st, ast.Try):
                for nm in self.assigned(st.body):
                    if nm not in names:
                        names.append(nm)
        return names

    def block(self, env, stmts, end):
        """end(env): the term when control falls off the block"""
        stmts = clean(stmts)
        if not stmts:
            return end(env)
        st, rest = stmts[0], stmts[1:]

        def go_on(env2):
            return self.block(env2, rest, end)

        if isinstance(st, ast.Return):
            if rest:
                raise Unsupported(rest[0], "statement after return")
            if st.value is None:
                raise Unsupported(st, "bare return")
            return self.returned(env, st.value)
        if isinstance(st, ast.Raise):
            if rest:
                raise Unsupported(rest[0], "statement after raise")
            return self.raised(env, st)
        if isinstance(st, ast.Assign):
            if len(st.targets) != 1:
                raise Unsupported(st, "multiple targets")
            tg = st.targets[0]
            if isinstance(tg, ast.Name):
                if tg.id in FIXED_NAMES or tg.id == "self":
                    raise Unsupported(st, "rebinding of %s" % tg.id)

                def store(a, t):
                    env2 = dict(env)
                    env2[tg.id] = (a, t)
                    return go_on(env2)
                return self.expr(env, st.value, store)
            if isinstance(tg, ast.Subscript) and self.is_filters(tg.value):
                return self.table_store(env, st, tg, go_on)
            raise Unsupported(st, "assignment target")
        if isinstance(st, ast.If):
            return self.if_stmt(env, st, go_on)
        if isinstance(st, ast.Try):
            return self.try_stmt(env, st, go_on)
        raise Unsupported(st, "statement")

    def returned(self, env, value):
        def done(a, t):
            if t != self.rtype:
                raise Unsupported(value, "returns a %s" % t)
            return "Ok %s" % a
        return self.expr(env, value, done)

    def raised(self, env, st):
        exc = st.exc
        if not (isinstance(exc, ast.Call) and isinstance(exc.func, ast.Name)
                and not exc.keywords and len(exc.args) <= 1):
            raise Unsupported(st, "raise")
        if exc.func.id in env:
            raise Unsupported(st, "exception class is a local")
        for arg in exc.args:
            ok = isinstance(arg, ast.Constant) and isinstance(arg.value, str)
            if isinstance(arg, ast.BinOp) and isinstance(arg.op, ast.Mod) \
                    and isinstance(arg.left, ast.Constant) and \
                    isinstance(arg.left.value, str) and \
                    isinstance(arg.right, ast.Name) and \
                    arg.right.id in env and \
                    env[arg.right.id][1] in ("rv", "str"):
                ok = format_pieces(arg, arg.left.value)[1] == 1
            if not ok:
                raise Unsupported(arg, "exception message")
        if st.cause is not None and not isinstance(st.cause, ast.Name):
            raise Unsupported(st, "raise from")
        return "Raised \"%s\"" % exc.func.id

    def table_store(self, env, st, tg, go_on):
        val = st.value
        if not isinstance(val, ast.Tuple) or len(val.elts) != 2:
            raise Unsupported(st, "stored filter record")
        tab = env["self.__filters"][0]

        def with_key(key, tk):
            def with_rx(rx, tr):
                def with_cv(cv, tc):
                    if tc != "conv":
                        raise Unsupported(val, "converter is a %s" % tc)
                    new = self.fresh_tab()
                    env2 = dict(env)
                    env2["self.__filters"] = (new, "ftab")
                    return "bind (tab_store %s %s %s %s) (fun %s =>\n  %s)" \
                        % (tab, self.as_rv(tg, key, tk),
                           self.as_rv(val, rx, tr), cv, new, go_on(env2))
                return self.expr(env, val.elts[1], with_cv)
            return self.expr(env, val.elts[0], with_rx)
        return self.expr(env, tg.slice, with_key)

    def if_stmt(self, env, st, go_on):
        names = []
        for nm in self.assigned(st.body) + self.assigned(st.orelse):
            if nm not in names:
                names.append(nm)
        if len(names) != 1:
            raise Unsupported(st, "if statement joining %d names"
                              % len(names))
        var = names[0]
        types = []

        def leave(env2):
            if var not in env2:
                raise Unsupported(st, "%s unbound on one path" % var)
            a, t = env2[var]
            types.append(t)
            return "Ok %s" % a

        def on_test(c, t):
            if t != "bool":
                raise Unsupported(st.test, "truth value of a %s" % t)
            yes = self.block(env, st.body, leave)
            no = self.block(env, st.orelse, leave)
            if len(set(types)) > 1:
                raise Unsupported(st, "%s has different types" % var)
            typ = types[0] if types else "rv"

            def joined(v, ty):
                env2 = dict(env)
                env2[var] = (v, ty)
                return go_on(env2)
            return self.bind("if %s\n  then %s\n  else %s" % (c, yes, no),
                             typ, joined)
        return self.expr(env, st.test, on_test)

    def try_stmt(self, env, st, go_on):
        body = clean(st.body)
        if st.orelse or st.finalbody or len(st.handlers) != 1 or \
                len(body) != 1:
            raise Unsupported(st, "try shape")
        h = st.handlers[0]
        if not isinstance(h.type, ast.Name) or h.type.id in env:
            raise Unsupported(st, "except clause")
        hbody = clean(h.body)
        if len(hbody) != 1 or not isinstance(hbody[0], ast.Raise):
            raise Unsupported(st, "handler is not a single raise")
        if hbody[0].cause is not None and not (
                isinstance(hbody[0].cause, ast.Name) and
                hbody[0].cause.id == h.name):
            raise Unsupported(st, "raise from something else")
        handler = self.raised(env, hbody[0])
        inner = body[0]
        if isinstance(inner, ast.Return) and inner.value is not None:
            return "catch (%s) \"%s\" (%s)" % (
                self.returned(env, inner.value), h.type.id, handler)
        if isinstance(inner, ast.Assign) and len(inner.targets) == 1 and \
                isinstance(inner.targets[0], ast.Name) and \
                inner.targets[0].id not in FIXED_NAMES:
            types = []

            def done(a, t):
                types.append(t)
                return "Ok %s" % a
            term = self.expr(env, inner.value, done)

            def store(v, ty):
                env2 = dict(env)
                env2[inner.targets[0].id] = (v, ty)
                return go_on(env2)
            return self.bind("catch (%s) \"%s\" (%s)" % (
                term, h.type.id, handler), types[0], store)
        raise Unsupported(st, "try body")


class Translation:
    def __init__(self):
        self.tree = py2v.parse(SOURCE)
        self.defs = []
        self.done = set()
        self.check_module()
        self.cls = self.find_class()
        self.methods = {}
        for node in self.cls.body:
            if isinstance(node, (ast.FunctionDef, ast.AsyncFunctionDef)):
                if node.name in METHODS or node.name == "__init__":
                    if node.name in self.methods or \
                            isinstance(node, ast.AsyncFunctionDef):
                        raise Unsupported(node, "definitions of %s"
                                          % node.name)
                    self.methods[node.name] = node
        for name in list(METHODS) + ["__init__"]:
            if name not in self.methods:
                raise Unsupported(self.cls, "no method %s" % name)
        self.check_table_uses()
        self.pattern()
        self.builtin_table()
        self.function("__regex", "gen_regex", "rv")
        self.function("__converter", "gen_converter", "conv")
        self.function("set_filter", "gen_set_filter", "ftab")
        for name, target in COMPILE:
            self.compile_step(name, target)

    # ------------------------------------------------------------- checking
    def find_class(self):
        found = [n for n in self.tree.body
                 if isinstance(n, ast.ClassDef) and n.name == CLASS]
        if len(found) != 1:
            raise Unsupported(self.tree, "definitions of %s" % CLASS)
        return found[0]

    def check_module(self):
        tree = self.tree
        for node in ast.walk(tree):
            if isinstance(node, ast.Name) and node.id in FIXED_NAMES and \
                    isinstance(node.ctx, (ast.Store, ast.Del)) and not (
                        node.id == "re_filter"):
                raise Unsupported(node, "rebinding of %s" % node.id)
            if isinstance(node, ast.arg) and node.arg in FIXED_NAMES:
                raise Unsupported(node, "parameter named %s" % node.arg)
            if isinstance(node, (ast.Global, ast.Nonlocal)) and \
                    set(node.names) & FIXED_NAMES:
                raise Unsupported(node, "global declaration")
            if isinstance(node, (ast.FunctionDef, ast.AsyncFunctionDef,
                                 ast.ClassDef)) and node.name in FIXED_NAMES:
                raise Unsupported(node, "definition of %s" % node.name)
            if isinstance(node, (ast.Import, ast.ImportFrom)):
                for a in node.names:
                    bound = a.asname or a.name.split(".")[0]
                    if bound in FIXED_NAMES and not (
                            isinstance(node, ast.Import) and a.asname is None
                            and a.name in IMPORTS):
                        raise Unsupported(node, "import binding %s" % bound)
            if isinstance(node, ast.ExceptHandler) and \
                    node.name in FIXED_NAMES:
                raise Unsupported(node, "handler name")
            if isinstance(node, ast.Attribute) and \
                    "__filters" in node.attr and dotted(node) not in ATTRS:
                raise Unsupported(node, "another way to the filter table")
        imported = set()
        for node in tree.body:
            if isinstance(node, ast.Import):
                imported |= {a.name for a in node.names if a.asname is None}
        if not IMPORTS <= imported:
            raise Unsupported(tree, "imports of re, uuid")

    def pattern(self):
        stores = [n for n in ast.walk(self.tree) if isinstance(n, ast.Name)
                  and n.id == "re_filter"
                  and isinstance(n.ctx, (ast.Store, ast.Del))]
        defs = [n for n in self.tree.body if isinstance(n, ast.Assign)
                and len(n.targets) == 1
                and isinstance(n.targets[0], ast.Name)
                and n.targets[0].id == "re_filter"]
        if len(stores) != 1 or len(defs) != 1:
            raise Unsupported(self.tree, "definition of re_filter")
        val = defs[0].value
        if not (isinstance(val, ast.Call) and
                dotted(val.func) == "re.compile" and not val.keywords and
                len(val.args) == 1 and isinstance(val.args[0], ast.Constant)
                and isinstance(val.args[0].value, str)):
            raise Unsupported(defs[0], "re_filter is not re.compile(text)")
        self.defs.append("(* re_filter = re.compile(text) *)\n"
                         "Definition gen_re_filter_pattern : list Z :=\n  %s."
                         % strlit(val.args[0].value))

    def check_table_uses(self):
        """self.__filters is created once in __init__, used by the
        translated methods, and elsewhere only copied"""
        for node in self.cls.body:
            if isinstance(node, (ast.FunctionDef, ast.AsyncFunctionDef)) and \
                    node.name in ("__regex", "__converter", "set_filter"):
                continue
            parents = {}
            for p in ast.walk(node):
                for c in ast.iter_child_nodes(p):
                    parents[c] = p
            for sub in ast.walk(node):
                if not (isinstance(sub, ast.Attribute) and
                        dotted(sub) in ATTRS):
                    continue
                par = parents.get(sub)
                if isinstance(node, ast.FunctionDef) and \
                        node.name == "__init__" and \
                        isinstance(sub.ctx, ast.Store) and \
                        isinstance(par, ast.Assign) and par in node.body \
                        and len(par.targets) == 1:
                    continue
                grand = parents.get(par)
                if isinstance(sub.ctx, ast.Load) and \
                        isinstance(par, ast.Attribute) and \
                        par.attr == "copy" and isinstance(grand, ast.Call) \
                        and grand.func is par and not grand.args and \
                        not grand.keywords:
                    continue
                raise Unsupported(sub, "use of the filter table in %s"
                                  % getattr(node, "name", "the class body"))
        for node in ast.walk(self.cls):
            # no other way to the attribute
            if isinstance(node, ast.Constant) and \
                    isinstance(node.value, str) and "__filters" in node.value \
                    and not is_doc_string(self.cls, node):
                raise Unsupported(node, "the attribute name as a string")

    # ------------------------------------------------------------- emitting
    def builtin_table(self):
        init = self.methods["__init__"]
        found = [s for s in init.body if isinstance(s, ast.Assign)
                 and len(s.targets) == 1 and dotted(s.targets[0]) in ATTRS]
        if len(found) != 1 or not isinstance(found[0].value, ast.Dict):
            raise Unsupported(init, "creation of the filter table")
        rows = []
        seen = set()
        for key, val in zip(found[0].value.keys, found[0].value.values):
            if not (isinstance(key, ast.Constant) and
                    isinstance(key.value, str)) or key.value in seen:
                raise Unsupported(found[0], "filter name")
            seen.add(key.value)
            if not isinstance(val, ast.Tuple) or len(val.elts) != 2:
                raise Unsupported(val, "filter record")
            rx, cv = val.elts
            if isinstance(rx, ast.Constant) and isinstance(rx.value, str):
                rxt = "Some %s" % strlit(rx.value)
            elif isinstance(rx, ast.Constant) and rx.value is None:
                rxt = "None"
            else:
                raise Unsupported(rx, "filter regex")
            if dotted(cv) not in CONVERTERS:
                raise Unsupported(cv, "filter converter")
            rows.append("(%s,\n     (%s, %s))" % (
                strlit(key.value), rxt, CONVERTERS[dotted(cv)]))
        self.defs.append("(* Application.__init__: self.__filters = {...} *)\n"
                         "Definition gen_init_filters : ftab :=\n  [ %s ]."
                         % ";\n    ".join(rows))

    def params(self, fun, name):
        a = fun.args
        if fun.decorator_list or a.vararg or a.kwarg or a.kwonlyargs or \
                a.posonlyargs:
            raise Unsupported(fun, "signature of %s" % name)
        names = [p.arg for p in a.args]
        types = METHODS[name]
        if not names or names[0] != "self" or len(names) != len(types) + 1:
            raise Unsupported(fun, "parameters of %s" % name)
        return names[1:], types

    def function(self, name, gname, rtype):
        fun = self.methods[name]
        names, types = self.params(fun, name)
        fn = Fn(self, with_u=False)
        fn.rtype = rtype
        env = {"self.__filters": ("F", "ftab")}
        binders = ["(F : ftab)"]
        ndefaults = len(fun.args.defaults)
        for i, (pn, ty) in enumerate(zip(names, types)):
            if ty == "match":
                env[pn] = (("g0", "g1"), "match")
                binders.append("(g0 g1 : rv)")
            else:
                atom = "x%d" % (i + 1)
                env[pn] = (atom, ty)
                binders.append("(%s : %s)" % (atom, ty))
        for j, d in enumerate(fun.args.defaults):
            i = len(names) - ndefaults + j
            if types[i] != "conv" or dotted(d) not in CONVERTERS:
                raise Unsupported(d, "default value")
            self.defs.append(
                "Definition %s_default_%d : conv := %s."
                % (gname, i + 1, CONVERTERS[dotted(d)]))

        def end(env2):
            if rtype != "ftab":
                raise Unsupported(fun, "%s may return None" % name)
            return "Ok %s" % env2["self.__filters"][0]
        if rtype == "ftab":
            # the outcome of a mutator is the table it leaves
            for node in ast.walk(fun):
                if isinstance(node, ast.Return):
                    raise Unsupported(node, "return in %s" % name)
        body = fn.block(env, fun.body, end)
        self.defs.append(
            "(* Application.%s *)\nDefinition %s %s\n  : outcome %s :=\n  %s."
            % (name, gname, " ".join(binders), rtype, body))
        self.done.add(name)

    def compile_step(self, name, target):
        """if re_filter.search(uri): r_uri = ...; [converters = ...;]
        [return] self.<target>(...)  -- the then-branch of the first
        statement of the method"""
        fun = self.methods[name]
        names, types = self.params(fun, name)
        body = clean(fun.body)
        if not body or not isinstance(body[0], ast.If):
            raise Unsupported(fun, "%s does not start with the test" % name)
        first = body[0]
        fn = Fn(self, with_u=True)
        env = {"self.__filters": ("F", "ftab")}
        for i, (pn, ty) in enumerate(zip(names, types)):
            if ty is not None:
                env[pn] = ("x%d" % (i + 1), ty)

        def on_test(c, t):
            if t != "bool":
                raise Unsupported(first.test, "truth value of a %s" % t)
            return c
        test = fn.expr(env, first.test, on_test)
        self.defs.append(
            "(* Application.%s: the test that selects the compile step *)\n"
            "Definition gen_%s_test (U : uclass) (x1 : list Z) : bool :=\n"
            "  %s." % (name, name, test))
        stmts = clean(first.body)
        if not stmts:
            raise Unsupported(first, "empty compile step")
        last = stmts[-1]
        if isinstance(last, ast.Return):
            call = last.value
        elif isinstance(last, ast.Expr):
            call = last.value
        else:
            raise Unsupported(last, "end of the compile step")
        if not (isinstance(call, ast.Call) and
                dotted(call.func) == "self." + target and
                not call.keywords and not any(
                    isinstance(a, ast.Starred) for a in call.args)):
            raise Unsupported(last, "the compiled text is not handed to %s"
                              % target)
        positional = {pn: i + 1 for i, pn in enumerate(names)}

        def end(env2):
            # the arguments of the call: translated values and parameters
            # passed on by position
            values, roles = [], []
            for arg in call.args:
                if not isinstance(arg, ast.Name):
                    raise Unsupported(arg, "argument of %s" % target)
                if arg.id in env2 and env2[arg.id][1] in ("rv", "convs"):
                    values.append(env2[arg.id])
                    roles.append("A_%s %s" % (env2[arg.id][1],
                                              natlit(len(values))))
                elif arg.id in positional and (
                        arg.id not in env2 or env2[arg.id][1] == "str"):
                    roles.append("A_param %s" % natlit(positional[arg.id]))
                else:
                    raise Unsupported(arg, "argument of %s" % target)
            self.roles = roles
            kinds = [t for _, t in values]
            if kinds == ["rv", "convs"]:
                return "Ok (%s, %s)" % (values[0][0], values[1][0])
            if kinds == ["rv"]:
                return "Ok %s" % values[0][0]
            raise Unsupported(call, "values handed to %s" % target)
        term = fn.block(env, stmts[:-1], end)
        rtype = "(rv * list (rv * conv))" if name == "set_route" else "rv"
        self.defs.append(
            "(* Application.%s: the compile step *)\n"
            "Definition gen_%s_compile (U : uclass) (F : ftab) (x1 : list Z)"
            "\n  : outcome %s :=\n  %s." % (name, name, rtype, term))
        self.defs.append(
            "(* ... and the arguments of self.%s: a value of the compile "
            "step by its\n   position in the result, or a parameter of %s "
            "by position *)\n"
            "Definition gen_%s_args : list call_arg :=\n  [%s]."
            % (target, name, name, "; ".join(self.roles)))

    def text(self):
        out = ["(* GENERATED by harness/py2v_route.py from poorwsgi/wsgi.py "
               "re_filter, Application.__init__ (filter table), __regex, "
               "__converter, set_filter, set_route / pop_route / is_route "
               "(compile step) -- do not edit *)",
               "From Coq Require Import ZArith List Bool String.",
               "Require Import PW.lib.Val PW.model.Regex PW.model.Routing "
               "PW.lib.PyRoute.",
               "Import ListNotations.", "Open Scope string_scope.",
               "Open Scope list_scope.", "Open Scope Z_scope.", ""]
        return "\n".join(out) + "\n" + "\n\n".join(self.defs) + "\n"


def is_doc_string(cls, node):
    for fun in ast.walk(cls):
        if isinstance(fun, (ast.FunctionDef, ast.ClassDef)) and fun.body \
                and is_doc(fun.body[0]) and fun.body[0].value is node:
            return True
    return False


def drop_compiled():
    """py2v.regenerate removes gen/RouteGen.v when the translation is
    refused; the compiled files must go too, or an old RouteGen.vo would keep
    the dependent theorems compiling"""
    coq = os.path.dirname(py2v.GEN)
    for stem in (os.path.join(py2v.GEN, "RouteGen"),
                 os.path.join(coq, "proofs", "RouteGenEq")):
        for ext in (".vo", ".vos", ".vok", ".glob"):
            if os.path.exists(stem + ext):
                os.unlink(stem + ext)


def gen_route():
    try:
        text = Translation().text()
    except Exception:
        drop_compiled()
        raise
    os.makedirs(py2v.GEN, exist_ok=True)
    path = os.path.join(py2v.GEN, "RouteGen.v")
    old = open(path).read() if os.path.exists(path) else None
    if old != text:
        with open(path, "w") as f:
            f.write(text)
    return path


def register(TARGETS, OUTPUT):
    TARGETS["route"] = gen_route
    OUTPUT["route"] = "RouteGen.v"
