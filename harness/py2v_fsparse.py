"""Translator plugin: poorwsgi/fieldstorage.py
FieldStorageParser._parse_content_type, parse, __init__, read_lines,
read_single
-> coq/gen/FsParseGen.v (proved equal to model/Multipart.v's part_meta,
parse_part, parse in proofs/FsParseGenEq.v; theorems C08_generated_parse_*,
C08_generated_parser_init_*).

Reuses the general translator (py2v.Unit over lib/Py.v; the abstract input
object `St` of harness/py2v_multipart.py) and adds, with the semantics of
lib/PyFsParse.v:

  * the header mapping (HEADERS below: `self.headers`): `K in self.headers`
    = pmsg_contains of lib/PyMulti.v, `self.headers[K]` = pmsg_get;
  * parameter dictionaries (every *local name*): `K in d` = pdict_contains,
    `d[K]` = pdict_item, `d.get(K)` = pdict_get, `{}` = the empty list;
  * `parse_header(e)` through the Section variable PH, `e.encode(a, b)`
    through the Section variable E, `int(e)` through the Section variable
    INT (str -> option Z; None = ValueError);
  * `self._parse_content_type()` = a call of the generated function;
  * `NAME = FieldStorage()`: an object whose attributes start with what
    FieldStorage.__init__ / the class body assign (constants, [] and
    parameter defaults only; anything else is refused); `NAME.attr = e`
    for the attributes FIELD_ATTRS; `return NAME` returns
    (PTuple [PStr "FieldStorage"; the FIELD_ATTRS in this order],
     self.done, self.bytes_read, self.input);
  * `target = self.read_urlencoded()` / `self.read_multi()` /
    `self.read_single()` (READERS): a call of the Section variable of that
    name with the tuple of the SELF_FIELDS, the input object and the fuel;
    it returns (value, self.done, self.bytes_read, self.input);
  * `NAME: hint = e` = `NAME = e`, `NAME: hint` = nothing (type hints are
    dropped, as are the annotations of the signatures);
  * `try: <one assignment> except Cls: <block>` (no else/finally, no
    control transfer inside), `pass`;
  * if/elif/else whose branches carry the input object;
  * __init__: parameters by position (a_0 is the input object, of type St),
    `if isinstance(P, TextIOWrapper): self.input = P.buffer else:
    self.input = P` through the Section variables IS_TEXTIO / BUFFER; the
    result is (PTuple [SELF_FIELDS], self.input); the defaults of the
    signature become the constant gen_init_defaults.

  * read_single / read_lines (result (file, self.done, self.bytes_read,
    self.input)): STATE_CALLS below -- `x = self.read_binary()`,
    `self.skip_lines()`, `x = self.read_lines_to_eof(f)` through Section
    variables of that name (tuple of the SELF_FIELDS, input object, fuel),
    `x = self.read_lines()` = the generated gen_read_lines,
    `x = self.read_lines_to_outerboundary(f)` and `self.make_file()` = the
    generated functions of gen/MultipartGen.v (argument lists = the tables
    of harness/py2v_multipart.py, which checks them against the source);
    `BytesIO()` / `StringIO()` = a fresh file object of lib/PyMultipart.v;
    the statement `f.seek(e)` = pseek; `return <local name>`.

Local names never reach the generated text (fresh names are v_<n>).
Dropped by name: docstrings and `log.*(...)` statements (py2v.Unit.block).
Everything else raises py2v.Unsupported.
"""
import ast
import os

import py2v
from py2v import Unsupported, strlit, mangle
import py2v_multipart as mp

SOURCE = "poorwsgi/fieldstorage.py"
CLASS = "FieldStorageParser"
FIELD_CLASS = "FieldStorage"
OUT = "FsParseGen.v"
GENEQ = "proofs/FsParseGenEq"

TYPES = {"self.input": "St"}            # every other variable is a pv
HEADERS = {"self.headers"}
# the state of a parser object, in the order the readers receive it
SELF_FIELDS = ["self.headers", "self.outerboundary", "self.keep_blank_values",
               "self.strict_parsing", "self.limit", "self.encoding",
               "self.errors", "self.max_num_fields", "self.separator",
               "self.file_callback", "self.bytes_read", "self.done",
               "self.filename", "self.innerboundary", "self.length"]
PCT_FIELDS = ["self.headers", "self.outerboundary"]
# the attributes of the returned FieldStorage, in the order of the tuple
FIELD_ATTRS = ["list", "name", "filename", "type", "file", "disposition",
               "disposition_options", "type_options", "length"]
READERS = {"self.read_urlencoded": "READ_URLENCODED",
           "self.read_multi": "READ_MULTI",
           "self.read_single": "READ_SINGLE"}
PARSE_OUT = ["self.done", "self.bytes_read"]
# further calls that thread (self.done, self.bytes_read, self.input):
# name -> (Section variable or generated function, arity, kinds)
STATE_CALLS = {
    "self.read_binary": ("READ_BINARY", 0, ("single",)),
    "self.skip_lines": ("SKIP_LINES", 0, ("single",)),
    "self.read_lines": ("gen_read_lines", 0, ("single",)),
    "self.read_lines_to_eof": ("READ_EOF", 1, ("lines",)),
    "self.read_lines_to_outerboundary": (
        "gen_read_lines_to_outerboundary", 1, ("lines",)),
}
# the parameters of the functions of gen/MultipartGen.v (checked there
# against the source by harness/py2v_multipart.py)
MAKE_FIELDS = mp.MAKE_FIELDS
RLOB_FIELDS = mp.LOOP_FIELDS + mp.WRITE_FIELDS
MEMORY_FILES = ("BytesIO", "StringIO")
RTYPE = "pv -> St -> nat -> res (pv * pv * pv * St)"
SECTION_VARS = [("St", "Type"),
                ("rl", "Z -> St -> list Z * St"),
                ("D", "list Z -> list Z"),
                ("PH", "list Z -> list Z * list (list Z * list Z)"),
                ("E", "list Z -> list Z"),
                ("INT", "list Z -> option Z"),
                ("READ_URLENCODED", RTYPE), ("READ_MULTI", RTYPE),
                ("READ_SINGLE", RTYPE),
                ("READ_BINARY", RTYPE), ("SKIP_LINES", RTYPE),
                ("READ_EOF", "pv -> " + RTYPE),
                ("IS_TEXTIO", "St -> bool"), ("BUFFER", "St -> St")]


def ty(name):
    return TYPES.get(name, "pv")


class Cx(py2v.Ctx):
    def fresh(self, base):
        self.counter += 1
        return "v_%d" % self.counter


def strkey(node):
    return isinstance(node, ast.Constant) and isinstance(node.value, str)


class FsUnit(py2v.Unit):
    field_init = {}     # attribute -> initial term of FieldStorage()

    # ------------------------------------------------------------ expressions
    def expr(self, cx, env, node, k):
        if isinstance(node, (ast.Name, ast.Attribute)):
            name = self.dotted(node)
            if name in TYPES or name in cx.st_names:
                raise Unsupported(node, "the input object used as a value")
            if name in cx.objects:
                raise Unsupported(node, "object used as a value")
        if isinstance(node, ast.Compare) and len(node.ops) == 1 and \
                isinstance(node.ops[0], (ast.In, ast.NotIn)):
            right = node.comparators[0]
            if not isinstance(node.ops[0], ast.In) or not strkey(node.left):
                raise Unsupported(node, "membership test")
            if self.dotted(right) in HEADERS:
                fn = "pmsg_contains"
            elif isinstance(right, ast.Name) and right.id in env:
                fn = "pdict_contains"
            else:
                raise Unsupported(node, "`in` on an unknown mapping")
            return self.expr(cx, env, node.left, lambda a: self.expr(
                cx, env, right, lambda h: self.bindk(
                    cx, "%s %s %s" % (fn, h, a), k)))
        if isinstance(node, ast.Subscript) and strkey(node.slice):
            if self.dotted(node.value) in HEADERS:
                fn = "pmsg_get"
            elif isinstance(node.value, ast.Name) and node.value.id in env:
                fn = "pdict_item"
            else:
                raise Unsupported(node, "item of an unknown mapping")
            return self.expr(cx, env, node.value, lambda h: self.expr(
                cx, env, node.slice, lambda a: self.bindk(
                    cx, "%s %s %s" % (fn, h, a), k)))
        return super().expr(cx, env, node, k)

    def call(self, cx, env, node, k):
        fn = node.func
        fname = self.dotted(fn)
        plain = not node.keywords and not any(
            isinstance(a, ast.Starred) for a in node.args)
        if fname in READERS or fname == FIELD_CLASS or \
                fname == "isinstance" or fname in STATE_CALLS:
            raise Unsupported(node, "call outside its statement shape")
        if fname == "self.make_file" and plain and not node.args and \
                cx.kind == "lines":
            fields = " ".join(env[f] for f in MAKE_FIELDS)
            return self.bindk(cx, "gen_make_file %s" % fields, k)
        if fname in MEMORY_FILES and plain and not node.args and \
                cx.kind == "lines":
            return k("(pnewfile (PTuple [PStr %s]))" % strlit(fname))
        if fname == "parse_header" and plain and len(node.args) == 1:
            return self.expr(cx, env, node.args[0], lambda a: self.bindk(
                cx, "pparse_header PH %s" % a, k))
        if fname == "int":
            if not plain or len(node.args) != 1:
                raise Unsupported(node, "int arguments")
            return self.expr(cx, env, node.args[0], lambda a: self.bindk(
                cx, "pint_s INT %s" % a, k))
        if fname == "self._parse_content_type" and plain and not node.args:
            fields = " ".join(env[f] for f in PCT_FIELDS)
            return self.bindk(cx, "gen_parse_content_type %s" % fields, k)
        if isinstance(fn, ast.Attribute) and plain:
            if fn.attr == "get" and len(node.args) == 1 and \
                    strkey(node.args[0]) and \
                    isinstance(fn.value, ast.Name) and fn.value.id in env:
                return self.expr(cx, env, fn.value, lambda d: self.expr(
                    cx, env, node.args[0], lambda a: self.bindk(
                        cx, "pdict_get %s %s" % (d, a), k)))
            if fn.attr == "encode" and len(node.args) == 2:
                return self.expr(cx, env, fn.value, lambda a: self.seq(
                    cx, env, node.args, lambda it: self.bindk(
                        cx, "pencode E %s %s %s" % (a, it[0], it[1]), k)))
        if isinstance(fn, ast.Attribute):
            raise Unsupported(node, "method call")
        return super().call(cx, env, node, k)

    # ------------------------------------------------------------ statements
    def assigned(self, stmts):
        out = super().assigned(stmts)
        for st in stmts:
            for node in ast.walk(st):
                if isinstance(node, ast.Call) and (
                        self.dotted(node.func) in READERS or
                        self.dotted(node.func) in STATE_CALLS):
                    for f in PARSE_OUT + ["self.input"]:
                        out.append(ast.parse(f, mode="eval").body)
                elif isinstance(node, ast.Call) and \
                        isinstance(node.func, ast.Attribute) and \
                        node.func.attr == "seek":
                    out.append(node.func.value)
                elif isinstance(node, ast.AnnAssign) and \
                        node.value is not None:
                    out.append(node.target)
        return out

    def check_targets(self, cx, st):
        for t in st.targets:
            if isinstance(t, ast.Attribute) and \
                    isinstance(t.value, ast.Name):
                if t.value.id in cx.objects:
                    if t.attr not in FIELD_ATTRS:
                        raise Unsupported(t, "attribute outside FIELD_ATTRS")
                elif t.value.id != "self" or self.dotted(t) not in \
                        SELF_FIELDS + ["self.input"]:
                    raise Unsupported(t, "attribute target")
                elif self.dotted(t) not in PARSE_OUT + ["self.input"] and (
                        cx.kind in ("single", "lines", "pct") or
                        st.lineno >= cx.first_state_call):
                    # the result carries only self.done / self.bytes_read:
                    # another attribute may change only before the readers
                    # (they receive it in the tuple of the SELF_FIELDS)
                    raise Unsupported(t, "attribute assigned where the "
                                      "result would not show it")
            elif isinstance(t, ast.Tuple):
                if not all(isinstance(e, ast.Name) and e.id not in cx.objects
                           for e in t.elts):
                    raise Unsupported(t, "unpacking target")
            elif not isinstance(t, ast.Name):
                raise Unsupported(t, "assignment target")
            if self.dotted(t) in TYPES and cx.kind != "init":
                raise Unsupported(t, "the input object is assigned")

    def block(self, cx, env, stmts, kend, loopk=None):
        if not stmts:
            return kend(env)
        st, rest = stmts[0], stmts[1:]

        def after(env2):
            return self.block(cx, env2, rest, kend, loopk)
        if isinstance(st, ast.Pass):
            return after(env)
        if isinstance(st, ast.AnnAssign):       # the type hint is dropped
            if not st.simple or not isinstance(st.target, ast.Name):
                raise Unsupported(st, "annotated target")
            if st.value is None:
                return after(env)
            new = ast.Assign(targets=[st.target], value=st.value,
                             lineno=st.lineno)
            return self.block(cx, env, [ast.copy_location(new, st)] + rest,
                              kend, loopk)
        if isinstance(st, (ast.While, ast.For, ast.AugAssign, ast.Delete,
                           ast.Raise)):
            raise Unsupported(st, "statement")
        if isinstance(st, ast.Assign):
            self.check_targets(cx, st)
            val = st.value
            # NAME = FieldStorage()
            if isinstance(val, ast.Call) and \
                    self.dotted(val.func) == FIELD_CLASS:
                if val.args or val.keywords or len(st.targets) != 1 or \
                        not isinstance(st.targets[0], ast.Name) or \
                        cx.kind != "parse":
                    raise Unsupported(st, "constructor statement shape")
                obj = st.targets[0].id
                if obj in env or obj in cx.objects:
                    raise Unsupported(st, "object name rebound")
                cx.objects.add(obj)
                env2 = dict(env)
                for attr, term in self.field_init.items():
                    env2["%s.%s" % (obj, attr)] = term
                return after(env2)
            if any(isinstance(t, ast.Name) and t.id in cx.objects
                   for t in st.targets):
                raise Unsupported(st, "object name rebound")
            # target = self.read_xxx()
            if isinstance(val, ast.Call) and \
                    self.dotted(val.func) in READERS:
                if val.args or val.keywords or len(st.targets) != 1 or \
                        cx.kind != "parse":
                    raise Unsupported(st, "reader statement shape")
                value, done, nread, inp = cx.fresh("v"), cx.fresh("v"), \
                    cx.fresh("v"), cx.fresh("v")
                env2 = self.assign(cx, env, st.targets[0], value)
                env2["self.done"] = done
                env2["self.bytes_read"] = nread
                env2["self.input"] = inp
                return ("pr <- %s (PTuple [%s]) %s fuel ;; "
                        "let '(%s, %s, %s, %s) := pr in\n%s" % (
                            READERS[self.dotted(val.func)],
                            "; ".join(env[f] for f in SELF_FIELDS),
                            env["self.input"], value, done, nread, inp,
                            after(env2)))
            if isinstance(val, ast.Call) and \
                    self.dotted(val.func) in STATE_CALLS:
                if len(st.targets) != 1 or \
                        not isinstance(st.targets[0], ast.Name):
                    raise Unsupported(st, "state call statement shape")
                return self.state_call(cx, env, val, st.targets[0], after)
            if cx.kind == "init" and len(st.targets) == 1 and \
                    self.dotted(st.targets[0]) in TYPES:
                raise Unsupported(st, "input object outside its shape")
        if isinstance(st, ast.Return) and isinstance(st.value, ast.Name) \
                and st.value.id in cx.objects:
            obj = st.value.id
            items = []
            for attr in FIELD_ATTRS:
                key = "%s.%s" % (obj, attr)
                if key not in env:
                    raise Unsupported(st, "attribute %s never set" % attr)
                items.append(env[key])
            return "Ok (PTuple [PStr %s; %s], %s, %s)" % (
                strlit(FIELD_CLASS), "; ".join(items),
                ", ".join(env[f] for f in PARSE_OUT), env["self.input"])
        if isinstance(st, ast.Return) and cx.kind in ("single", "lines"):
            if not isinstance(st.value, ast.Name) or st.value.id not in env:
                raise Unsupported(st, "return")
            return "Ok (%s, %s, %s)" % (
                env[st.value.id], ", ".join(env[f] for f in PARSE_OUT),
                env["self.input"])
        if isinstance(st, ast.Return) and cx.kind != "pct":
            raise Unsupported(st, "return")
        if isinstance(st, ast.Try):
            return self.try_stmt(cx, env, st, after)
        if isinstance(st, ast.If):
            if cx.kind == "init":
                return self.unwrap_stmt(cx, env, st, after)
            return self.if_stmt(cx, env, st, after, loopk)
        return super().block(cx, env, stmts, kend, loopk)

    def state_call(self, cx, env, call, target, after):
        """[target =] self.<method>(args): a Section variable or a generated
        function that returns (value, self.done, self.bytes_read, input)"""
        name = self.dotted(call.func)
        fn, arity, kinds = STATE_CALLS[name]
        if cx.kind not in kinds or call.keywords or \
                len(call.args) != arity or \
                any(isinstance(a, ast.Starred) for a in call.args):
            raise Unsupported(call, "state call shape")
        value, done, nread, inp = cx.fresh("v"), cx.fresh("v"), \
            cx.fresh("v"), cx.fresh("v")

        def emit(args):
            env2 = dict(env) if target is None else \
                self.assign(cx, env, target, value)
            env2["self.done"] = done
            env2["self.bytes_read"] = nread
            env2["self.input"] = inp
            selft = "(PTuple [%s])" % "; ".join(env[f] for f in SELF_FIELDS)
            if fn == "gen_read_lines":
                return ("pr <- gen_read_lines %s %s fuel ;; "
                        "let '(%s, %s, %s, %s) := pr in\n%s" % (
                            " ".join(env[f] for f in SELF_FIELDS),
                            env["self.input"], value, done, nread, inp,
                            after(env2)))
            if fn == "gen_read_lines_to_outerboundary":
                tup = cx.fresh("t")
                return ("pr <- gen_read_lines_to_outerboundary St rl D %s %s "
                        "fuel ;; let '(%s, %s) := pr in\n%s <- pindex %s 0 ;;"
                        "\n%s <- pindex %s 1 ;;\n%s <- pindex %s 2 ;;\n%s" % (
                            " ".join(env[f] for f in RLOB_FIELDS), args[0],
                            tup, inp, value, tup, done, tup, nread, tup,
                            after(env2)))
            return ("pr <- %s %s %s%s fuel ;; "
                    "let '(%s, %s, %s, %s) := pr in\n%s" % (
                        fn, selft, "".join(a + " " for a in args),
                        env["self.input"], value, done, nread, inp,
                        after(env2)))
        return self.seq(cx, env, call.args, emit)

    def effect_call(self, cx, env, call, after):
        name = self.dotted(call.func)
        if name in STATE_CALLS:
            return self.state_call(cx, env, call, None, after)
        fn = call.func
        if isinstance(fn, ast.Attribute) and fn.attr == "seek" and \
                isinstance(fn.value, ast.Name) and fn.value.id in env and \
                len(call.args) == 1 and not call.keywords and \
                cx.kind in ("single", "lines"):
            obj = fn.value.id
            new = cx.fresh(obj)
            return self.expr(cx, env, call.args[0], lambda a: (
                "%s <- pseek %s %s ;;\n%s" % (
                    new, env[obj], a, after(dict(env, **{obj: new})))))
        raise Unsupported(call, "statement call")

    def if_stmt(self, cx, env, st, after, loopk):
        """py2v.Unit's If with typed join parameters"""
        names = self.names_assigned(st.body + st.orelse)
        join = cx.fresh("k")
        params = [cx.fresh(n) for n in names]
        env_after = dict(env)
        for n, p in zip(names, params):
            env_after[n] = p
        jcode = after(env_after)

        def arg(e, n):
            if n in e:
                return e[n]
            if n in TYPES:
                raise Unsupported(st, "input object not bound")
            return "PNone"

        def jump(e):
            return "%s %s" % (join, " ".join(arg(e, n) for n in names)) \
                if names else "%s tt" % join
        binder = " ".join("(%s : %s)" % (p, ty(n))
                          for n, p in zip(names, params)) \
            if names else "(_ : unit)"
        body = self.block(cx, env, st.body, jump, loopk)
        orelse = self.block(cx, env, st.orelse, jump, loopk)
        return self.expr(
            cx, env, st.test, lambda c:
            "let %s := fun %s => (%s) in\nif truthy %s then (%s)\n"
            "else (%s)" % (join, binder, jcode, c, body, orelse))

    def try_stmt(self, cx, env, st, after):
        if st.finalbody or st.orelse or len(st.handlers) != 1:
            raise Unsupported(st, "try shape")
        handler = st.handlers[0]
        if not isinstance(handler.type, ast.Name) or handler.name is not None:
            raise Unsupported(handler, "except clause")
        if len(st.body) != 1 or not isinstance(st.body[0], ast.Assign):
            raise Unsupported(st, "try body must be one assignment")
        for part in st.body + handler.body:
            for node in ast.walk(part):
                if isinstance(node, (ast.Return, ast.Break, ast.Continue,
                                     ast.While, ast.For, ast.Try, ast.Raise,
                                     ast.Yield, ast.YieldFrom)):
                    raise Unsupported(node, "control transfer inside try")
                if isinstance(node, ast.Call) and (
                        self.dotted(node.func) in READERS or
                        self.dotted(node.func) == FIELD_CLASS):
                    raise Unsupported(node, "object call inside try")
        names = self.names_assigned(st.body + handler.body)
        if any(n in TYPES for n in names):
            raise Unsupported(st, "input object assigned inside try")
        join = cx.fresh("k")
        params = [cx.fresh(n) for n in names]
        env_after = dict(env)
        for n, p in zip(names, params):
            env_after[n] = p
        jcode = after(env_after)

        def jump(e):
            return "%s %s" % (join, " ".join(e.get(n, "PNone") for n in names)) \
                if names else "%s tt" % join
        binder = " ".join("(%s : pv)" % p for p in params) \
            if names else "(_ : unit)"
        body = self.block(cx, env, st.body, lambda e: "Ok (PTuple [%s])" % (
            "; ".join(e.get(n, "PNone") for n in names)))
        tup, err = cx.fresh("t"), cx.fresh("e")
        okcode, env_ok = "", dict(env)
        for i, n in enumerate(names):
            var = cx.fresh(n)
            okcode += "%s <- pindex %s %d ;;\n" % (var, tup, i)
            env_ok[n] = var
        okcode += jump(env_ok)
        hcode = self.block(cx, env, handler.body, jump)
        return ("let %s := fun %s => (%s) in\nmatch (%s) with\n"
                "| Ok %s => (%s)\n| Err %s => if perr_is \"%s\" %s then (%s) "
                "else Err %s\nend" % (join, binder, jcode, body, tup, okcode,
                                      err, handler.type.id, err, hcode, err))

    def st_expr(self, cx, env, node):
        """an expression of type St in __init__: P or P.buffer"""
        if isinstance(node, ast.Name) and node.id in cx.st_names:
            return env[node.id]
        if isinstance(node, ast.Attribute) and node.attr == "buffer" and \
                isinstance(node.value, ast.Name) and \
                node.value.id in cx.st_names:
            return "(BUFFER %s)" % env[node.value.id]
        raise Unsupported(node, "input object expression")

    def unwrap_stmt(self, cx, env, st, after):
        """if isinstance(P, TextIOWrapper): self.input = A else: ... = B"""
        test = st.test
        if not (isinstance(test, ast.Call) and
                self.dotted(test.func) == "isinstance" and
                not test.keywords and len(test.args) == 2 and
                isinstance(test.args[0], ast.Name) and
                test.args[0].id in cx.st_names and
                self.dotted(test.args[1]) == "TextIOWrapper"):
            raise Unsupported(st, "if in __init__")
        values = []
        for branch in (st.body, st.orelse):
            if len(branch) != 1 or not isinstance(branch[0], ast.Assign) or \
                    len(branch[0].targets) != 1 or \
                    self.dotted(branch[0].targets[0]) != "self.input":
                raise Unsupported(st, "unwrapping branch")
            values.append(self.st_expr(cx, env, branch[0].value))
        var = cx.fresh("self.input")
        return "let %s := if IS_TEXTIO %s then %s else %s in\n%s" % (
            var, env[test.args[0].id], values[0], values[1],
            after(dict(env, **{"self.input": var})))

    # -------------------------------------------------------------- functions
    def new_cx(self, fundef, gen_name, kind, restype):
        args = fundef.args
        if args.vararg or args.kwarg or args.kwonlyargs or args.posonlyargs \
                or fundef.decorator_list:
            raise Unsupported(fundef, "signature")
        if not args.args or args.args[0].arg != "self":
            raise Unsupported(fundef, "signature")
        if any(isinstance(n, (ast.Yield, ast.YieldFrom, ast.Await,
                              ast.Global, ast.Nonlocal, ast.Lambda,
                              ast.FunctionDef, ast.NamedExpr))
               for n in ast.walk(fundef) if n is not fundef):
            raise Unsupported(fundef, "construct")
        cx = Cx(self, gen_name)
        cx.fundef = fundef
        cx.kind = kind
        cx.result = None
        cx.retwrap = None
        cx.breakk = None
        cx.restype = restype
        cx.objects = set()
        cx.st_names = set()
        lines = [n.lineno for n in ast.walk(fundef)
                 if isinstance(n, ast.Call) and (
                     self.dotted(n.func) in READERS or
                     self.dotted(n.func) in STATE_CALLS)]
        cx.first_state_call = min(lines) if lines else float("inf")
        return cx

    def method(self, fundef, gen_name, kind, fields, restype, fuel=False):
        if len(fundef.args.args) != 1 or fundef.args.defaults:
            raise Unsupported(fundef, "signature")
        cx = self.new_cx(fundef, gen_name, kind, restype)
        env = {p: mangle(p) for p in fields}

        def end(e):
            raise Unsupported(fundef, "falls off the end")
        code = self.block(cx, env, fundef.body, end)
        sig = " ".join("(%s : %s)" % (mangle(p), ty(p)) for p in fields)
        if fuel:
            sig += " (fuel : nat)"
        self.defs.append("Definition %s %s : %s :=\n%s." % (
            gen_name, sig, restype, code))

    def init(self, fundef):
        cx = self.new_cx(fundef, "gen_init", "init", "res (pv * St)")
        params = [a.arg for a in fundef.args.args[1:]]
        defaults = fundef.args.defaults
        if not params or len(defaults) != len(params):
            raise Unsupported(fundef, "every parameter has a default")
        terms = []
        for node in defaults:
            if not isinstance(node, ast.Constant):
                raise Unsupported(node, "default")
            terms.append(self.expr(cx, {}, node, lambda a: a))
        # the default of the input object is None: no object
        if defaults[0].value is not None:
            raise Unsupported(defaults[0], "default of the input object")
        self.defs.append("Definition gen_init_defaults : list pv :=\n[%s]." %
                         "; ".join(terms[1:]))
        env = {p: "a_%d" % i for i, p in enumerate(params)}
        cx.st_names.add(params[0])

        def end(e):
            for f in SELF_FIELDS + ["self.input"]:
                if f not in e:
                    raise Unsupported(fundef, "%s never set" % f)
            return "Ok (PTuple [%s], %s)" % (
                "; ".join(e[f] for f in SELF_FIELDS), e["self.input"])
        code = self.block(cx, env, fundef.body, end)
        sig = " ".join("(a_%d : %s)" % (i, "St" if i == 0 else "pv")
                       for i in range(len(params)))
        self.defs.append("Definition gen_init %s : res (pv * St) :=\n%s." % (
            sig, code))

    def write(self, filename, header, section_vars=()):
        out = ["(* GENERATED by harness/py2v_fsparse.py from %s -- do not "
               "edit *)" % header,
               "From Coq Require Import ZArith List Bool String.",
               "Require Import PW.lib.Val PW.lib.Dec PW.lib.Py "
               "PW.lib.PyMultipart PW.lib.PyMulti PW.lib.PyFsParse "
               "PW.gen.MultipartGen.",
               "Import ListNotations.", "Open Scope string_scope.",
               "Open Scope list_scope.", "Open Scope Z_scope.", "",
               "Section Gen."]
        for var, typ in section_vars:
            out.append("Variable %s : %s." % (var, typ))
        out += self.defs
        out.append("End Gen.")
        path = os.path.join(py2v.GEN, filename)
        text = "\n\n".join(out) + "\n"
        old = open(path).read() if os.path.exists(path) else None
        if old != text:
            with open(path, "w") as f:
                f.write(text)
        return path


def field_initial(unit, cls):
    """what FieldStorage() (no arguments) leaves in the attributes: class
    level `attr = <constant>`, then __init__'s `self.attr = <constant | [] |
    parameter>` with the parameter's default"""
    out = {}
    cx = Cx(unit, "field_init")
    cx.objects, cx.st_names = set(), set()

    def const(node):
        if isinstance(node, ast.Constant):
            return unit.expr(cx, {}, node, lambda a: a)
        if isinstance(node, ast.List) and not node.elts:
            return "(PList [])"
        raise Unsupported(node, "initial value")
    init = None
    for st in cls.body:
        if isinstance(st, ast.Assign) and len(st.targets) == 1 and \
                isinstance(st.targets[0], ast.Name):
            out[st.targets[0].id] = const(st.value)
        elif isinstance(st, ast.FunctionDef) and st.name == "__init__":
            init = st
    if init is None:
        raise Unsupported(cls, "no __init__")
    args = init.args
    if args.vararg or args.kwarg or args.kwonlyargs or args.posonlyargs or \
            len(args.defaults) != len(args.args) - 1:
        raise Unsupported(init, "signature")
    defaults = {a.arg: d for a, d in zip(args.args[1:], args.defaults)}
    for st in init.body:
        if isinstance(st, ast.Expr) and isinstance(st.value, ast.Constant):
            continue
        if isinstance(st, ast.AnnAssign) and st.value is not None:
            target, value = st.target, st.value
        elif isinstance(st, ast.Assign) and len(st.targets) == 1:
            target, value = st.targets[0], st.value
        else:
            raise Unsupported(st, "constructor body")
        if not (isinstance(target, ast.Attribute) and
                isinstance(target.value, ast.Name) and
                target.value.id == "self"):
            raise Unsupported(st, "constructor target")
        if isinstance(value, ast.Name):
            if value.id not in defaults:
                raise Unsupported(st, "constructor value")
            value = defaults[value.id]
        out[target.attr] = const(value)
    return out


def drop_compiled():
    """a refused translation must not leave compiled files behind"""
    coq = os.path.dirname(py2v.GEN)
    for stem in (os.path.join(py2v.GEN, OUT[:-2]),
                 os.path.join(coq, GENEQ)):
        for ext in (".vo", ".vos", ".vok", ".glob"):
            try:
                os.unlink(stem + ext)
            except FileNotFoundError:
                pass


def translate():
    tree = py2v.parse(SOURCE)

    def klass(name):
        found = [n for n in tree.body if isinstance(n, ast.ClassDef)
                 and n.name == name]
        if len(found) != 1:
            raise Unsupported(tree, "class %s" % name)
        return found[0]
    cls = klass(CLASS)

    def meth(name):
        found = [n for n in cls.body if isinstance(n, ast.FunctionDef)
                 and n.name == name]
        if len(found) != 1:
            raise Unsupported(cls, "method %s" % name)
        return found[0]
    unit = FsUnit()
    unit.field_init = field_initial(unit, klass(FIELD_CLASS))
    unit.method(meth("_parse_content_type"), "gen_parse_content_type", "pct",
                PCT_FIELDS, "res pv")
    unit.method(meth("parse"), "gen_parse", "parse",
                SELF_FIELDS + ["self.input"], "res (pv * pv * pv * St)",
                fuel=True)
    unit.init(meth("__init__"))
    unit.method(meth("read_lines"), "gen_read_lines", "lines",
                SELF_FIELDS + ["self.input"], "res (pv * pv * pv * St)",
                fuel=True)
    unit.method(meth("read_single"), "gen_read_single", "single",
                SELF_FIELDS + ["self.input"], "res (pv * pv * pv * St)",
                fuel=True)
    return unit.write(OUT, SOURCE + " FieldStorageParser."
                      "_parse_content_type, parse, __init__, read_lines, "
                      "read_single", SECTION_VARS)


def gen_fsparse():
    try:
        return translate()
    except Exception:
        drop_compiled()
        raise


def register(TARGETS, OUTPUT):
    TARGETS["fsparse"] = gen_fsparse
    OUTPUT["fsparse"] = OUT
