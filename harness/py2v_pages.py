"""Plugin: the page translator (harness/py2pages.py, property C15) as a
target of py2v.regenerate(), so that every build regenerates
coq/gen/PagesGen.v from the tree under check (a run against another tree
must not leave its generated file behind)."""
import py2v


def gen_pages():
    import py2pages
    try:
        py2pages.regenerate(py2v.REPO)
    except py2pages.TranslateError as err:
        raise py2v.Unsupported(None, str(err)[:300])


def register(TARGETS, OUTPUT):
    TARGETS["pages"] = gen_pages
    OUTPUT["pages"] = "PagesGen.v"
